"""C12  DHT network: announced blobs are findable until expiry; lookups terminate; outputs valid.

Parts (each runs the REAL code from /repo and the extracted Coq model on the same inputs):
  A  data store        DictDataStore op sequences                     vs Model.C12 ds_*
  B  paging            KademliaRPC.find_value + IterativeValueFinder  vs Model.C12 walk / serve_page
  C  compact address   decode_tcp_peer_from_compact_address           vs Model.C12 valid_compact
  D  finder traces     every IterativeNodeFinder / IterativeValueFinder that runs inside the network
                       simulation is instrumented; its event trace is replayed through Model.C12 fstep
  E  network           real Nodes on an in-memory datagram network with a virtual clock: chosen delay,
                       reordering, duplication (hit guarantee, monitor) + loss, dead and hostile nodes
                       (termination / output validity, monitor).  The whole-network hit rate is
                       supporting evidence only (run.supporting), never an obligation.
"""
import asyncio
import contextlib
import ipaddress
import json
import os
import random
import socket
import time as _walltime

import lbry.wallet  # noqa: F401  (import order)
from lbry.dht import constants
from lbry.dht.error import RemoteException
from lbry.dht.node import Node
import lbry.dht.node as _node_mod
from lbry.dht.peer import PeerManager, make_kademlia_peer, decode_tcp_peer_from_compact_address, KademliaPeer
from lbry.dht.protocol.data_store import DictDataStore
from lbry.dht.protocol.distance import Distance
from lbry.dht.protocol.iterative_find import IterativeFinder, IterativeNodeFinder, IterativeValueFinder
from lbry.dht.protocol.protocol import KademliaProtocol
from lbry.dht.serialization.bencoding import bencode
from lbry.dht.serialization.datagram import decode_datagram, RequestDatagram, ResponseDatagram, ErrorDatagram

import vlib

K = 8
ALPHA = 5
EXPIRY = 86400
RPC_TIMEOUT = 5.0
CORPUS = '/verif/harness/corpus/C12'


async def _fake_resolve(host, port, proto='udp'):
    return host


_node_mod.resolve_host = _fake_resolve      # harness plumbing: no DNS in the sandbox (addresses are literal)

# Determinism: every case must be a pure function of its own description.  The code under test draws rpc ids and
# token secrets from os.urandom (constants.generate_id) and bucket refresh ids from the global `random` module;
# both are re-seeded from the case at the start of every case (reseed), and the lru caches that hand out shared,
# mutable KademliaPeer objects are emptied so that nothing leaks from one case into the next.
_IDRNG = random.Random(0)


def _seeded_generate_id(num=None):
    if num is not None:
        return constants.digest(str(num).encode())
    return constants.digest(_IDRNG.getrandbits(256).to_bytes(32, 'big'))


constants.generate_id = _seeded_generate_id


def reseed(case):
    import zlib
    v = zlib.crc32(vlib.canon(case).encode())
    _IDRNG.seed(v)
    random.seed(v ^ 0x9e3779b9)
    make_kademlia_peer.cache_clear()
    try:
        KademliaProtocol.get_rpc_peer.cache_clear()
    except AttributeError:
        pass


# ==============================================================================================
# virtual-time event loop and datagram network
# ==============================================================================================

class Deadlock(Exception):
    pass


class VirtualLoop(asyncio.SelectorEventLoop):
    """An event loop whose clock is virtual: whenever nothing is ready the clock jumps to the next timer.
    No real I/O is ever waited for, so a run is a deterministic function of the seed."""

    def __init__(self, start=1000.0):
        super().__init__()
        self._vt = float(start)
        self.idle_jumps = 0

        def select(timeout=None):
            if timeout is None:
                raise Deadlock('no timer and nothing ready')
            if timeout > 0:
                self._vt += timeout
                self.idle_jumps += 1
            return []
        self._selector.select = select

    def time(self):
        return self._vt


class Profile:
    """network behaviour for one run; every random choice is taken from the run's rng"""

    def __init__(self, delay=(0.001, 0.2), dup=0.0, loss=0.0):
        self.delay, self.dup, self.loss = delay, dup, loss

    def to_json(self):
        return {'delay': list(self.delay), 'dup': self.dup, 'loss': self.loss}


class Net:
    def __init__(self, loop, rng, profile):
        self.loop, self.rng, self.profile = loop, rng, profile
        self.endpoints = {}            # (ip, port) -> object with datagram_received(data, from_addr)
        self.dead = set()
        self.sent = self.delivered = self.dropped = self.duplicated = 0
        self.in_flight = 0
        self.responses_from = {}       # receiver addr -> set of sender addrs that delivered a response datagram
        self.ports_tried = {}          # (sender addr, destination ip) -> udp ports the sender sent datagrams to
        self.max_datagram = 0
        self.blocked = set()           # (sender addr, receiver addr) pairs whose datagrams are all lost
        self.batch = None
        self.held = []
        loop.create_datagram_endpoint = self._create_datagram_endpoint

    async def _create_datagram_endpoint(self, proto_lam, from_addr):
        protocol = proto_lam()
        addr = (protocol.external_ip, protocol.udp_port)
        transport = _Transport(self, addr)
        protocol.connection_made(transport)
        self.endpoints[addr] = protocol
        return transport, protocol

    def attach(self, addr, endpoint):
        self.endpoints[addr] = endpoint

    def kill(self, addr):
        self.dead.add(addr)

    def send(self, frm, to, data):
        self.sent += 1
        self.ports_tried.setdefault((frm, to[0]), set()).add(to[1])
        if len(data) > self.max_datagram:
            self.max_datagram = len(data)
        p = self.profile
        if frm in self.dead or (frm, to) in self.blocked:
            return
        if p.loss and self.rng.random() < p.loss:
            self.dropped += 1
            return
        copies = 1
        if p.dup and self.rng.random() < p.dup:
            copies = 2
            self.duplicated += 1
        for _ in range(copies):
            d = self.rng.uniform(*p.delay)
            self.in_flight += 1
            self.loop.call_later(d, self._deliver, frm, to, data)

    def set_batching(self, period, order_key):
        """a legal delivery schedule: datagrams are held and handed over in bursts, every `period` seconds, all datagrams
        for one receiver within one event-loop iteration, ordered by order_key(sender addr, receiver addr)"""
        self.batch = (period, order_key)
        self.held = []
        self.loop.call_later(period, self._flush)

    def _flush(self):
        if self.batch is None:
            held, self.held = self.held, []
        else:
            period, key = self.batch
            held, self.held = sorted(self.held, key=lambda it: (it[1], key(it[0], it[1]))), []
            self.loop.call_later(period, self._flush)
        for frm, to, data in held:
            self._deliver_now(frm, to, data)

    def _deliver(self, frm, to, data):
        if self.batch is not None:
            self.held.append((frm, to, data))
            return
        self._deliver_now(frm, to, data)

    def _deliver_now(self, frm, to, data):
        self.in_flight -= 1
        if to in self.dead:
            return
        rx = self.endpoints.get(to)
        if rx is None:
            return
        self.delivered += 1
        if data[:1] == b'd':
            try:
                if isinstance(decode_datagram(data), ResponseDatagram):
                    self.responses_from.setdefault(to, set()).add(frm)
            except Exception:
                pass
        rx.datagram_received(data, frm)


class _Transport:
    def __init__(self, net, addr):
        self.net, self.addr, self.closed = net, addr, False

    def sendto(self, data, to):
        self.net.send(self.addr, tuple(to), bytes(data))

    def is_closing(self):
        return self.closed

    def close(self):
        self.closed = True
        if self.net.endpoints.get(self.addr) is not None:
            self.net.endpoints.pop(self.addr, None)

    def get_extra_info(self, k, default=None):
        return default


def ip_of(i):
    return socket.inet_ntoa(int(0x01020301 + i).to_bytes(4, 'big'))


# ==============================================================================================
# hostile endpoints (fixed catalogue)
# ==============================================================================================

HOSTILE_KINDS = ['silent', 'garbage', 'truncated', 'wrong_type', 'bad_contacts', 'self_contact', 'fake_contacts',
                 'bad_compact', 'dup_pages', 'huge_pages', 'error_reply', 'claims_key', 'alias_contacts',
                 'short_compact', 'no_token', 'int_reply']


class Hostile:
    """A node that joins like an honest one (it answers pings and asks the bootstrap for contacts) but answers
    findNode / findValue with a fixed kind of malformed or hostile reply."""

    def __init__(self, net, rng, kind, node_id, ip, port=4444):
        self.net, self.rng, self.kind = net, rng, kind
        self.node_id, self.addr = node_id, (ip, port)
        self.answered = 0
        self.page_requests = 0
        net.attach(self.addr, self)

    def join(self, boot_addr):
        req = RequestDatagram.make_find_node(self.node_id, self.node_id)
        self.net.send(self.addr, boot_addr, req.bencode())

    def _raw(self, to, obj):
        self.net.send(self.addr, to, bencode(obj))

    def _respond(self, to, rpc_id, result):
        self._raw(to, {0: 1, 1: rpc_id, 2: self.node_id, 3: result})

    def datagram_received(self, data, frm):
        try:
            msg = decode_datagram(data)
        except Exception:
            return
        if not isinstance(msg, RequestDatagram):
            return
        self.answered += 1
        m, rid, kind = msg.method, msg.rpc_id, self.kind
        if m == b'ping':
            return self._respond(frm, rid, b'pong')
        if m == b'store':
            return self._respond(frm, rid, b'OK')
        key = msg.args[0] if msg.args and isinstance(msg.args[0], bytes) else b'\0' * 48
        page = 0
        if msg.args and isinstance(msg.args[-1], dict):
            page = msg.args[-1].get(b'p', 0)
        is_value = (m == b'findValue')
        token = constants.digest(b'hostile' + self.node_id)
        rng = self.rng

        def rid_near(k):  # an id sharing a long prefix with the key
            return key[:40] + bytes([rng.randrange(256) for _ in range(8)]) if k else constants.generate_id(rng.randrange(1 << 30))

        def wrap(contacts, peers=None, pages=None, with_token=True):
            if not is_value:
                return contacts
            d = {b'contacts': contacts, b'protocolVersion': 1}
            if with_token:
                d[b'token'] = token
            if peers is not None:
                d[key] = peers
                d[b'p'] = pages if pages is not None else 1
            return d

        if kind == 'silent':
            return
        if kind == 'garbage':
            return self.net.send(self.addr, frm, bytes(rng.randrange(256) for _ in range(rng.randrange(1, 80))))
        if kind == 'truncated':
            full = bencode({0: 1, 1: rid, 2: self.node_id, 3: wrap([[rid_near(1), b'1.2.3.200', 4444]])})
            return self.net.send(self.addr, frm, full[:rng.randrange(1, len(full))])
        if kind == 'wrong_type':
            choice = rng.randrange(5)
            res = [7, [1, 2, 3], [[b'x']], b'notalist', {b'token': 5, key: 9, b'p': b'zz'}][choice]
            return self._respond(frm, rid, res)
        if kind == 'int_reply':       # decodable, wrong shape: raises TypeError in the caller (not one of the handled errors)
            return self._respond(frm, rid, 7)
        if kind == 'no_token':
            return self._respond(frm, rid, wrap([], [self._compact(rng)], 1, with_token=False))
        if kind == 'bad_contacts':
            cs = [[rid_near(1), b'10.0.0.1', 4444], [rid_near(1), b'127.0.0.1', 4444], [rid_near(1), b'1.2.3.201', 80],
                  [b'short', b'1.2.3.202', 4444], [rid_near(1), b'192.168.1.1', 4444], [rid_near(1), b'300.1.1.1', 4444],
                  [rid_near(1), b'1.2.3.203', 70000], [rid_near(1), b'224.0.0.5', 4444], [rid_near(1), b'100.64.0.1', 4444]]
            return self._respond(frm, rid, wrap(cs))
        if kind == 'self_contact':
            cs = [[msg.node_id, frm[0].encode(), frm[1]], [msg.node_id, b'1.2.3.210', 4444],
                  [rid_near(1), frm[0].encode(), frm[1]]]
            return self._respond(frm, rid, wrap(cs))
        if kind == 'fake_contacts':
            cs = [[rid_near(1), ip_of(150 + rng.randrange(90)).encode(), 4444] for _ in range(rng.randrange(8, 17))]
            return self._respond(frm, rid, wrap(cs))
        if kind == 'alias_contacts':
            # real, replying endpoints under node ids that nobody owns
            addrs = [a for a in self.net.endpoints if a != frm and a != self.addr]
            rng.shuffle(addrs)
            cs = [[rid_near(1), a[0].encode(), a[1]] for a in addrs[:6]]
            return self._respond(frm, rid, wrap(cs))
        if kind == 'claims_key':
            return self._respond(frm, rid, wrap([[key, self.addr[0].encode(), self.addr[1]]]))
        if kind == 'error_reply':
            return self._raw(frm, {0: 2, 1: rid, 2: self.node_id, 3: b"<class 'ValueError'>", 4: b'nope'})
        # value-specific kinds fall back to an empty contact list for findNode
        if not is_value:
            return self._respond(frm, rid, [])
        self.page_requests += 1
        if kind == 'bad_compact':
            bad = [self._compact(rng)[:50], self._compact(rng, port=0), self._compact(rng, ip=b'\x0a\x00\x00\x01'),
                   self._compact(rng, port=80), self._compact(rng) + b'x', self._compact(rng, ip=b'\x7f\x00\x00\x01')]
            peers = [self._compact(rng) for _ in range(3)] + [bad[rng.randrange(len(bad))]]
            rng.shuffle(peers)
            return self._respond(frm, rid, wrap([], peers, 1))
        if kind == 'short_compact':
            return self._respond(frm, rid, wrap([], [b'ab', 5, [1, 2, 3, 4, 0, 80] + [0] * 48][rng.randrange(3):][:1], 1))
        if kind == 'dup_pages':
            r2 = random.Random(self.node_id)
            peers = [self._compact(r2) for _ in range(8)]
            return self._respond(frm, rid, wrap([], peers, 50))
        if kind == 'huge_pages':
            peers = [self._compact(rng) for _ in range(3)]
            return self._respond(frm, rid, wrap([], peers, 10 ** 9))
        if kind == 'endless_pager':
            peers = [self._compact(rng) for _ in range(8)]
            return self._respond(frm, rid, wrap([], peers, (page if isinstance(page, int) else 0) + 2))
        return self._respond(frm, rid, wrap([]))

    @staticmethod
    def _compact(rng, ip=None, port=None):
        ip = ip if ip is not None else bytes([rng.randrange(1, 9), rng.randrange(1, 250), rng.randrange(1, 250), rng.randrange(1, 250)])
        port = 3333 if port is None else port
        return ip + port.to_bytes(2, 'big') + bytes(rng.randrange(256) for _ in range(48))


# ==============================================================================================
# finder instrumentation (subclasses of the real finders; every overridden method calls the real one)
# ==============================================================================================

import lbry.dht.protocol.iterative_find as _if_mod

_OrigFVR = _if_mod.FindValueResponse


class _RecFVR(_OrigFVR):
    last_raw = None

    def __init__(self, key, result_dict):
        try:
            raw = result_dict.get(key, []) if isinstance(result_dict, dict) else None
            _RecFVR.last_raw = (list(raw) if isinstance(raw, list) else raw,
                                result_dict.get(b'p', 0) if isinstance(result_dict, dict) else None)
        except Exception:
            _RecFVR.last_raw = None
        super().__init__(key, result_dict)


_if_mod.FindValueResponse = _RecFVR


class PeerIds:
    """canonical small numbers for KademliaPeer objects (by the dataclass's own equality)"""

    def __init__(self):
        self.ids = {}

    def __call__(self, peer):
        if peer not in self.ids:
            self.ids[peer] = len(self.ids) + 1
        return self.ids[peer]


class _TraceMixin:
    KIND = '?'
    sink = None            # list to which finished traces are appended (set by the simulation)

    def __init__(self, loop, protocol, key, max_results=constants.K, shortlist=None):
        self._pid = PeerIds()
        self._events = []
        self._cur = None
        self._task_ids = {}
        self._t_start = loop.time()
        self._n_sched = 0
        self._learned = set()
        self._adv_pages = {}
        self._closed_at = None
        self._in_init = True
        self._init_calls = []
        super().__init__(loop, protocol, key, max_results, shortlist)
        self._in_init = False
        self._events.append({'e': 'init', 'calls': self._init_calls})
        self._meta = {'kind': self.KIND, 'key_is_self': key == protocol.node_id, 'max_results': self.max_results,
                      'searcher': protocol.node_id.hex()[:12], 'key': key.hex()[:12]}
        if _TraceMixin.sink is not None:
            _TraceMixin.sink.append(self)

    # ---- helpers
    def _prec(self, peer):
        nid = peer.node_id
        self._learned.add(peer)
        return {'pid': self._pid(peer), 'dist': str(self.distance(nid)) if nid else '0', 'has_id': bool(nid),
                'self_id': nid == self.protocol.node_id,
                'self_addr': (peer.address, peer.udp_port) == (self.protocol.external_ip, self.protocol.udp_port)}

    def _note(self, item):
        if self._in_init:
            self._init_calls.append(item)
        elif self._cur is not None:
            self._cur.setdefault('calls', []).append(item)
        else:
            self._events.append({'e': 'stray', 'calls': [item]})

    # ---- overridden primitives
    def _add_active(self, peer, force=False):
        bad = self.peer_manager.peer_is_good(peer) is False
        self._note({'c': 'add', 'peer': self._prec(peer), 'force': bool(force), 'bad': bad})
        return super()._add_active(peer, force)

    def _reset_closest(self, peer):
        self._note({'c': 'reset', 'pid': self._pid(peer)})
        return super()._reset_closest(peer)

    def _schedule_probe(self, peer):
        tid = self._n_sched          # probe tasks are numbered in scheduling order (the model's f_sched)
        self._n_sched += 1
        self._note({'c': 'sched', 'peer': self._prec(peer)})
        r = super()._schedule_probe(peer)
        self._task_ids[self.running_probes[peer]] = (self._pid(peer), tid)
        return r

    def _search_round(self):
        # which probe task's done-callback is calling?  (none: the initial round scheduled by __aiter__)
        import sys as _sys
        caller = _sys._getframe(1)
        done = None
        if caller.f_code.co_name == 'callback':
            for v in caller.f_locals.values():
                if isinstance(v, asyncio.Task) and v in self._task_ids and v.done():
                    done = self._task_ids[v]
                    break
        outer = self._cur
        self._cur = {'e': 'round', 'done': done}
        try:
            return super()._search_round()
        finally:
            self._events.append(self._cur)
            self._cur = outer

    def search_exhausted(self):
        self._note({'c': 'exhausted'})
        return super().search_exhausted()

    async def _send_probe(self, peer):
        rec = {'e': 'probe', 'pid': self._pid(peer), 'outcome': None}
        self._probe_recs = getattr(self, '_probe_recs', {})
        self._probe_recs[peer] = rec
        try:
            return await super()._send_probe(peer)
        except asyncio.CancelledError:
            rec['outcome'] = rec['outcome'] or 'cancelled'
            raise
        except BaseException as e:  # escaped the finder's own handlers: the task dies
            rec['escaped'] = type(e).__name__
            raise
        finally:
            if self._cur is rec:
                self._cur = None
            if rec.get('outcome') != 'cancelled':
                self._events.append(rec)

    async def send_probe(self, peer):
        rec = self._probe_recs[peer]
        if self.KIND == 'value':
            rec['page'] = self.peer_pages[peer]
        _RecFVR.last_raw = None
        try:
            resp = await super().send_probe(peer)
        except asyncio.CancelledError:
            rec['outcome'] = 'cancelled'
            raise
        except BaseException as e:
            rec['outcome'] = 'exc'
            rec['exc'] = type(e).__name__
            if self.KIND == 'value' and _RecFVR.last_raw is not None:
                rec['raw'] = _RecFVR.last_raw
            self._cur = rec
            raise
        rec['outcome'] = 'reply'
        if self.KIND == 'value':
            rec['raw'] = _RecFVR.last_raw
            rec['pages_int'] = resp.pages
            if _RecFVR.last_raw and isinstance(_RecFVR.last_raw[1], int):
                self._adv_pages[peer] = max(self._adv_pages.get(peer, 0), _RecFVR.last_raw[1])
        self._cur = rec
        return resp

    def check_result_ready(self, response):
        if self._cur is not None:
            self._cur['checked'] = True
            if self.KIND == 'node':
                self._cur['found_key'] = bool(response.found)
        return super().check_result_ready(response)

    async def _aclose(self, reason='?'):
        self._note({'c': 'close'}) if self._cur is not None else self._events.append({'e': 'close'})
        if self._closed_at is None:
            self._closed_at = self.loop.time()
        return await super()._aclose(reason)


class TracedNodeFinder(_TraceMixin, IterativeNodeFinder):
    KIND = 'node'

    def put_result(self, from_iter, finish=False):
        from_iter = list(from_iter)
        good = [self._pid(p) for p in from_iter if self.peer_manager.peer_is_good(p) is True]
        before = self.iteration_queue.qsize()
        r = super().put_result(from_iter, finish)
        items = list(self.iteration_queue._queue)[before:]
        self._note({'c': 'put', 'good': good, 'finish': bool(finish),
                    'yielded': [[self._pid(p) for p in it] for it in items if it]})
        return r


class TracedValueFinder(_TraceMixin, IterativeValueFinder):
    KIND = 'value'

    def check_result_ready(self, response):
        before = self.iteration_queue.qsize()
        r = super().check_result_ready(response)
        items = list(self.iteration_queue._queue)[before:]
        if self._cur is not None:
            self._cur['vyield'] = [[compact_identity(p) for p in it] for it in items if it is not None]
        return r


def compact_identity(peer):
    return socket.inet_aton(peer.address).hex() + (peer.node_id or b'').hex() + ':%d' % (peer.tcp_port or 0)


_node_mod.IterativeNodeFinder = TracedNodeFinder
_node_mod.IterativeValueFinder = TracedValueFinder


# ==============================================================================================
# network simulation
# ==============================================================================================

class Sim:
    """n real Nodes (index 0 = bootstrap) + optional hostile endpoints on one VirtualLoop."""

    def __init__(self, seed, n, profile=None, hostile=(), ids=None, split_index=1, rpc_timeout=None, addr='short',
                 ports=None):
        """rpc_timeout: the CONFIGURED timeout handed to Node(rpc_timeout=...) (None = the constructor default);
        addr: 'short' = 1.2.3.N udp 4444 / tcp 3333, 'long' = 203.104.1xx.1yy udp = tcp = 44444 (15-character
        dotted quads, 5-digit ports: the largest contact triples a reply can carry);
        ports: optional {node index: (udp, tcp)} overriding the scheme for single nodes"""
        self.seed, self.n = seed, n
        self.rng = random.Random(seed)
        self.loop = VirtualLoop()
        self.profile = profile or Profile()
        self.net = Net(self.loop, random.Random(seed ^ 0x5eed), self.profile)
        self.traces = []
        self.nodes = []
        self.rpc_timeout = RPC_TIMEOUT if rpc_timeout is None else float(rpc_timeout)
        self.addr_scheme = addr
        ports = {int(k): tuple(v) for k, v in (ports or {}).items()}
        self.endpoints = []
        for i in range(n):
            nid = ids[i] if ids else bytes(self.rng.randrange(256) for _ in range(48))
            udp, tcp = ports.get(i, (44444, 44444) if addr == 'long' else (4444, 3333))
            ip = self.ip(i)
            self.endpoints.append((ip, udp, tcp))
            kwargs = {} if rpc_timeout is None else {'rpc_timeout': float(rpc_timeout)}
            self.nodes.append(Node(self.loop, PeerManager(self.loop), nid, udp, udp, tcp, ip,
                                   split_buckets_under_index=split_index, **kwargs))
        self.hostiles = []
        for j, kind in enumerate(hostile):
            hid = bytes(self.rng.randrange(256) for _ in range(48))
            self.hostiles.append(Hostile(self.net, random.Random(seed * 77 + j), kind, hid, self.ip(100 + j)))
        self.boot_addr = (self.endpoints[0][0], self.endpoints[0][1]) if n else None

    def ip(self, i):
        if self.addr_scheme == 'long':
            return '203.104.%d.%d' % (100 + i // 100, 100 + i % 100)
        return ip_of(i)

    def run(self, coro):
        asyncio.set_event_loop(self.loop)
        _TraceMixin.sink = self.traces
        try:
            return self.loop.run_until_complete(coro)
        finally:
            _TraceMixin.sink = None

    def close(self):
        async def _stop():
            for nd in self.nodes:
                try:
                    nd.stop()
                except Exception:
                    pass
            for t in asyncio.all_tasks(self.loop):
                if t is not asyncio.current_task():
                    t.cancel()
            await asyncio.sleep(0)
            await asyncio.sleep(0)
        try:
            self.loop.run_until_complete(_stop())
        except Exception:
            pass
        self.loop.set_exception_handler(lambda *_: None)
        try:
            self.loop.close()
        except Exception:
            pass
        asyncio.set_event_loop(None)

    async def start(self, order=None, gaps=None):
        """bootstrap first, then the others in the given order with the given gaps (virtual seconds)"""
        order = order if order is not None else list(range(1, self.n))
        self.nodes[0].start('0.0.0.0', [])
        await asyncio.sleep(0.5)
        for k, i in enumerate(order):
            self.nodes[i].start('0.0.0.0', [self.boot_addr])
            await asyncio.sleep(gaps[k] if gaps else 0.3)
        for h in self.hostiles:
            h.join(self.boot_addr)
        if self.n > 1:
            await asyncio.wait_for(asyncio.gather(*[self.nodes[i].joined.wait() for i in order]), 900)

    def addr(self, i):
        return (self.endpoints[i][0], self.endpoints[i][1])

    async def production_lookup(self, i, blob, wait):
        """the downloader's path: Node.accumulate_peers() fed with the blob hash; returns the peers that came out of the
        peer queue within `wait` virtual seconds"""
        node = self.nodes[i]
        search_q, peer_q = asyncio.Queue(), asyncio.Queue()
        search_q.put_nowait(blob.hex())
        _, task = node.accumulate_peers(search_q, peer_q)
        out = []
        end = self.loop.time() + wait
        try:
            while True:
                left = end - self.loop.time()
                if left <= 0:
                    break
                try:
                    out.extend(await asyncio.wait_for(peer_q.get(), left))
                except asyncio.TimeoutError:
                    break
        finally:
            task.cancel()
        return out

    async def value_lookup(self, i, blob, max_probes=600, shortlist=None):
        """returns (list of yielded peers, finder, finished?); the lookup is abandoned (finished = False) once it has
        scheduled more probes than the proved bound allows, or max_probes"""
        node = self.nodes[i]
        found = []
        finder = node.get_iterative_value_finder(blob, shortlist=shortlist)
        finder._t0 = self.loop.time()
        finished = True
        async with contextlib.aclosing(finder):
            async for res in finder:
                found.extend(res)
                if finder._n_sched > min(max_probes, 34 * max(1, len(finder._learned)) + 8):
                    finished = False
                    finder._cut = True
                    break
        finder._t1 = self.loop.time()
        return found, finder, finished

    async def node_lookup(self, i, key, shortlist=None):
        node = self.nodes[i]
        finder = node.get_iterative_node_finder(key, shortlist=shortlist, max_results=constants.K * 2)
        finder._t0 = self.loop.time()
        found = []
        async with contextlib.aclosing(finder):
            async for res in finder:
                found.extend(res)
        finder._t1 = self.loop.time()
        return found, finder

    def true_closest(self, key, exclude=()):
        d = Distance(key)
        alive = [nd for k, nd in enumerate(self.nodes) if self.addr(k) not in self.net.dead and k not in exclude]
        return sorted(alive, key=lambda nd: d(nd.protocol.node_id))


class LightAnnouncer:
    """A real KademliaProtocol (no routing maintenance) used as one more announcing peer: it runs the real
    store_to_peer (findValue for the token, then store) against the storing nodes it is told about."""

    def __init__(self, sim, j, node_id=None, tcp_port=3333):
        self.sim = sim
        ip = ip_of(300 + j)
        nid = node_id or constants.digest(b'announcer-%d-%d' % (sim.seed, j))
        self.protocol = KademliaProtocol(sim.loop, PeerManager(sim.loop), nid, ip, 4444, tcp_port)
        self.addr = (ip, 4444)
        self.protocol.connection_made(_Transport(sim.net, self.addr))
        sim.net.attach(self.addr, self.protocol)

    async def announce_to(self, blob, nodes):
        out = []
        for nd in nodes:
            peer = make_kademlia_peer(nd.protocol.node_id, nd.protocol.external_ip, nd.protocol.udp_port)
            out.append(await self.protocol.store_to_peer(blob, peer))
        return out


# ==============================================================================================
# D. finder trace -> model events, comparison
# ==============================================================================================

FAIL_EXC = {'TimeoutError', 'ValueError', 'RemoteException', 'CancelledError'}
PAGES_CAP = 100000     # advertised page counts above this are passed to the model as this value


def _compact_hex_identity(h):
    b = bytes.fromhex(h)
    return b[:4].hex() + b[6:].hex() + ':%d' % int.from_bytes(b[4:6], 'big')


def trace_to_model(finder):
    """returns (request dict for Model 'frun', expected outputs per event, anomalies)"""
    evs, exp, anomalies = [], [], []
    started = False
    for rec in finder._events:
        kind = rec['e']
        calls = rec.get('calls', [])
        outs = []
        if kind == 'init':
            evs.append({'e': 'init', 'sl': [c['peer'] for c in calls if c['c'] in ('add', 'sched')]})
            outs = [['sched', c['peer']['pid']] for c in calls if c['c'] == 'sched']
        elif kind == 'round':
            good = []
            for c in calls:
                if c['c'] == 'sched':
                    outs.append(['sched', c['peer']['pid']])
                elif c['c'] == 'put':
                    good = c['good']
                    outs.extend(['yield', y] for y in c['yielded'])
                    if c['finish']:
                        outs.append(['finish'])
                elif c['c'] == 'exhausted' and finder.KIND == 'value':
                    outs.append(['finish'])
            done = rec.get('done')
            if done is None:
                if started:
                    anomalies.append('search round outside a done-callback')
                evs.append({'e': 'start', 'good': good})
            else:
                evs.append({'e': 'done', 'p': done[0], 'tid': done[1], 'good': good})
            started = True
        elif kind == 'probe':
            if rec['outcome'] == 'exc':
                exc = rec.get('exc')
                if exc in FAIL_EXC:
                    evs.append({'e': 'fail', 'p': rec['pid']})
                    if not any(c['c'] == 'reset' for c in calls):
                        anomalies.append('fail without reset')
                elif exc == 'TransportNotConnected':
                    evs.append({'e': 'notconn', 'p': rec['pid']})
                    outs = [['finish']]
                else:
                    evs.append({'e': 'crash', 'p': rec['pid']})
                    if 'escaped' not in rec:
                        anomalies.append('exception %s did not escape' % exc)
                exp.append({'outs': outs, 'tag': 2 if evs[-1]['e'] == 'crash' else 0})
                continue
            adds = [c for c in calls if c['c'] == 'add']
            if not adds:
                anomalies.append('reply without add')
                continue
            me, contacts = adds[0], adds[1:]
            checked = bool(rec.get('checked'))
            cj = [[c['peer'], c['bad']] for c in contacts]
            if finder.KIND == 'node':
                good = []
                for c in calls:
                    if c['c'] == 'put':
                        good = c['good']
                        outs.extend(['yield', y] for y in c['yielded'])
                        if c['finish']:
                            outs.append(['finish'])
                evs.append({'e': 'nreply', 'p': me['peer'], 'selfbad': me['bad'], 'contacts': cj, 'checked': checked,
                            'found_key': bool(rec.get('found_key')), 'good': good})
                exp.append({'outs': outs, 'tag': 0 if checked else 2})
                continue
            raw, pages = rec.get('raw') or ([], 0)
            if isinstance(raw, (list, dict, bytes, bytearray)):
                items = [x.hex() if isinstance(x, (bytes, bytearray)) else None for x in list(raw)]
            else:
                items = [None]
            pages = rec.get('pages_int', 0)
            for y in rec.get('vyield', []):
                outs.append(['vyield', y])
            evs.append({'e': 'vreply', 'p': me['peer'], 'selfbad': me['bad'], 'raw': items,
                        'pages': max(0, min(int(pages), PAGES_CAP)), 'contacts': cj, 'checked': checked})
            exp.append({'outs': outs, 'tag': None if checked else 2})
            continue
        elif kind == 'close':
            evs.append({'e': 'close'})
            outs = [['finish']]
        elif kind == 'stray':
            anomalies.append('stray call %s' % calls[0]['c'])
            continue
        exp.append({'outs': outs, 'tag': 0})
    req = {'kind': finder.KIND, 'key_is_self': finder._meta['key_is_self'], 'maxres': finder.max_results, 'events': evs}
    return req, exp, anomalies


def canon_model_steps(steps):
    out = []
    for s in steps:
        outs = []
        for o in s['outs']:
            if o[0] == 'vyield':
                outs.append(['vyield', [_compact_hex_identity(h) for h in o[1]]])
            else:
                outs.append(o)
        out.append({'outs': outs, 'tag': s['tag']})
    return out


def compare_trace(run, model, finder, label):
    req, exp, anomalies = trace_to_model(finder)
    res = model.call('frun', **req)
    got = canon_model_steps(res['steps'])
    # the model decides the tag of value replies itself (ok / discarded); crash must agree
    for e, g in zip(exp, got):
        if e['tag'] is None:
            e['tag'] = g['tag'] if g['tag'] in (0, 1) else 'not-crash'
    impl = {'steps': exp, 'sched': finder._n_sched,
            'contacted': sorted(finder._pid(p) for p in finder.contacted),
            'active': [finder._pid(p) for p in finder.active.keys()], 'anomalies': anomalies,
            'running': sorted(finder._pid(p) for p in finder.running_probes)}
    mod = {'steps': got, 'sched': res['sched'], 'contacted': sorted(res['contacted']), 'active': res['active'],
           'anomalies': [], 'running': sorted(res['running'])}
    case = {'part': 'finder-trace', 'label': label, 'request': req}
    return case, impl, mod, res


# ==============================================================================================
# A. data store
# ==============================================================================================

class _Clock:
    def __init__(self):
        self.t = 0

    def time(self):
        return self.t


def _ds_pool(m_peers, m_keys):
    peers = []
    for i in range(m_peers):
        nid = constants.digest(b'ds-peer-%d' % i)
        # every third peer is created twice with different tcp ports: equal by the dataclass's equality
        peers.append(make_kademlia_peer(nid, ip_of(10 + i), 4444, 3333 + (i % 3)))
    keys = [constants.digest(b'ds-key-%d' % i) for i in range(m_keys)]
    return peers, keys


def gen_ds_ops(rng, length):
    """op lists with times placed on and around the expiry boundary of earlier announcements"""
    m_peers, m_keys = rng.choice([(2, 1), (4, 2), (6, 3), (12, 2)])
    ops, now, stamps = [], rng.randrange(0, 1000), []
    for _ in range(length):
        c = rng.random()
        if stamps and c < 0.35:
            base = rng.choice(stamps) + EXPIRY + rng.choice([-2, -1, 0, 1, 2])
            now = max(now, base) if rng.random() < 0.85 else now
        elif c < 0.6:
            now += rng.choice([0, 1, 5, 60, 719, 720, 721, 3600, 40000])
        k, p = rng.randrange(m_keys), rng.randrange(m_peers)
        c = rng.random()
        if c < 0.35:
            ops.append(['add', k, p, now])
            stamps.append(now)
        elif c < 0.65:
            ops.append(['get', k, now])
        elif c < 0.75:
            ops.append(['expire', now])
        elif c < 0.85:
            ops.append(['bad', p, now])
        elif c < 0.9:
            ops.append(['good', p, now])
        elif c < 0.95:
            ops.append(['has', k, now])
        else:
            ops.append(['contacts', now])
    return {'part': 'ds', 'peers': m_peers, 'keys': m_keys, 'ops': ops}


def run_ds_case(run, model, case):
    peers, keys = _ds_pool(case['peers'], case['keys'])
    clock = _Clock()
    pm = PeerManager(clock)
    ds = DictDataStore(clock, pm)
    num = {}
    for i, p in enumerate(peers):
        num.setdefault(p, i)

    def bad_now():
        return sorted({num[p] for p in peers if pm.peer_is_good(p) is False})

    spec = {}                 # the property's own abstract record: (key, peer) -> time stored
    mops, impl_outs, problems = [], [], []
    for op in case['ops']:
        kind = op[0]
        clock.t = op[-1]
        now = op[-1]
        if kind == 'add':
            _, k, p, _ = op
            ds.add_peer_to_blob(peers[p], keys[k])
            spec[(k, num[peers[p]])] = now
            mops.append(['add', k, num[peers[p]], now])
        elif kind == 'bad':
            pm.report_failure(peers[op[1]].address, peers[op[1]].udp_port)
            pm.report_failure(peers[op[1]].address, peers[op[1]].udp_port)
        elif kind == 'good':
            pm.report_last_replied(peers[op[1]].address, peers[op[1]].udp_port)
        elif kind == 'get':
            bad = bad_now()
            k = op[1]
            got = [num[p] for p in (ds.get_peers_for_blob(keys[k]) if ds.has_peers_for_blob(keys[k]) else [])]
            impl_outs.append(got)
            mops.append(['get', k, now, bad])
            want = {p for (kk, p), ts in spec.items() if kk == k and now < ts + EXPIRY and p not in bad}
            if set(got) != want or len(got) != len(set(got)):
                problems.append(f'get(key {k}) at t={now}: returned {sorted(got)}, stored-and-live-and-not-bad = {sorted(want)}')
        elif kind == 'expire':
            bad = bad_now()
            ds.removed_expired_peers()
            mops.append(['expire', now, bad])
            for kp in [kp for kp, ts in spec.items() if ts + EXPIRY < now or kp[1] in bad]:
                del spec[kp]
        elif kind == 'has':
            impl_outs.append(bool(ds.has_peers_for_blob(keys[op[1]])))
            mops.append(['has', op[1]])
        elif kind == 'contacts':
            impl_outs.append(sorted(num[p] for p in ds.get_storing_contacts()))
            mops.append(['contacts'])
    store = [[keys.index(k), [[num[p], ts] for p, ts in es]] for k, es in ds._data_store.items()]
    res = model.call('ds', ops=mops)
    mouts = [sorted(o) if (isinstance(o, list) and ['contacts'] in mops and False) else o for o in res['outs']]
    # contacts are a set: compare sorted
    qi = [m for m in mops if m[0] in ('get', 'has', 'contacts')]
    mouts = [sorted(o) if q[0] == 'contacts' else o for q, o in zip(qi, res['outs'])]
    return {'outs': impl_outs, 'store': store}, {'outs': mouts, 'store': res['store']}, problems


# ==============================================================================================
# B1. findValue server side: pages of the real KademliaRPC.find_value
# ==============================================================================================

def run_pages_case(run, model, case):
    n, variant, seed = case['n'], case['variant'], case['seed']
    loop = VirtualLoop()
    try:
        node_id = constants.digest(b'storing-%d' % seed)
        long = variant == 'long_contacts'     # 15-character dotted quads, 5-digit ports, >= K contacts known

        def lip(i):
            return '203.104.%d.%d' % (100 + i // 100, 100 + i % 100) if long else ip_of(20 + i)
        uport = 44444 if long else 4444
        proto = KademliaProtocol(loop, PeerManager(loop), node_id, lip(900) if long else '1.2.3.4', uport, 3333)
        sent = []

        class _Cap:
            def sendto(self, data, to):
                sent.append(bytes(data))

            def is_closing(self):
                return False
        proto.connection_made(_Cap())
        key = constants.digest(b'pages-key-%d' % seed)
        stored = []
        for i in range(n):
            p = make_kademlia_peer(constants.digest(b'pg-%d-%d' % (seed, i)), lip(i), uport, 3333 + i % 50)
            proto.data_store.add_peer_to_blob(p, key)
            stored.append(p)
        requester = make_kademlia_peer(constants.digest(b'requester-%d' % seed), lip(901) if long else '1.2.9.9', uport, None)
        if long:
            async def fill():
                for i in range(12):
                    await proto._add_peer(make_kademlia_peer(constants.digest(b'contact-%d-%d' % (seed, i)), lip(700 + i), uport))
            loop.run_until_complete(fill())
        if variant == 'requester_is_stored' and stored:
            requester = stored[len(stored) // 2]
        if variant == 'has_blob':
            proto.data_store.completed_blobs.add(key.hex())
        # independent expectation
        exp = [bytes(p.compact_address_tcp()) for p in stored
               if not requester.tcp_port or bytes(p.compact_address_tcp()) != bytes(requester.compact_address_tcp())]
        if len(exp) < K and variant == 'has_blob':
            exp.append(bytes(proto.node_rpc.compact_address()))
        number = {c: i + 1 for i, c in enumerate(exp)}
        shuffled = list(exp)
        if len(shuffled) > K:
            random.Random(node_id).shuffle(shuffled)
        m = len(exp)
        impl, mod, problems, seen = [], [], [], []
        last = (m + K - 1) // K + 1
        for page in list(range(0, last + 1)) + [-1]:
            resp = proto.node_rpc.find_value(requester, key, page)
            items = [number.get(bytes(c), 0) for c in resp.get(key, [])]
            # the reply as a datagram, through the real _send (which refuses anything above MSG_SIZE_LIMIT)
            del sent[:]
            refused = None
            try:
                proto.send_response(requester, ResponseDatagram(1, b'r' * 20, node_id, resp))
            except ValueError as e:
                refused = str(e)
            size = len(sent[0]) if sent else None
            impl.append({'page': page, 'items': items, 'pages': resp[b'p'], 'contacts': b'contacts' in resp,
                         'token': len(resp[b'token']), 'size': size, 'limit': constants.MSG_SIZE_LIMIT})
            eff = max(page, 0)
            r = model.call('serve_page', l=[number[c] for c in shuffled], page=eff)
            sz = model.call('reply_size',
                            contacts=[[len(c[1]), c[2]] for c in resp[b'contacts']] if b'contacts' in resp else None,
                            compacts=len(resp[key]) if key in resp else None, pages=resp[b'p'])
            mod.append({'page': page, 'items': r['items'], 'pages': r['pages'], 'contacts': eff == 0, 'token': 48,
                        'size': sz['size'], 'limit': sz['limit']})
            if refused:
                problems.append(f'the findValue reply for page {page} ({len(resp.get(key, []))} peers, '
                                f'{len(resp.get(b"contacts", []))} contacts) cannot be sent: {refused}')
            if page >= 0:
                seen.extend(items)
        if sorted(seen) != list(range(1, m + 1)):
            problems.append(f'{m} peers stored: pages 0..{last} return {len(seen)} entries, {len(set(seen))} distinct')
        if impl and impl[0]['pages'] * K < m:
            problems.append(f'{m} peers but only {impl[0]["pages"]} pages announced')
        return impl, mod, problems
    finally:
        loop.close()


# ==============================================================================================
# C. compact addresses
# ==============================================================================================

NETS = ['0.0.0.0/8', '10.0.0.0/8', '127.0.0.0/8', '169.254.0.0/16', '172.16.0.0/12', '192.0.0.0/29', '192.0.0.170/31',
        '192.0.2.0/24', '192.168.0.0/16', '198.18.0.0/15', '198.51.100.0/24', '203.0.113.0/24', '240.0.0.0/4',
        '224.0.0.0/4', '100.64.0.0/10', '192.88.99.0/24', '255.255.255.255/32']


def boundary_ips():
    out = set()
    for net in NETS:
        nw = ipaddress.ip_network(net)
        lo, hi = int(nw.network_address), int(nw.broadcast_address)
        for v in (lo - 1, lo, lo + 1, hi - 1, hi, hi + 1):
            if 0 <= v < 2 ** 32:
                out.add(v)
    out.update([0x01020304, 0x08080808, 0xdfffffff, 0xe0000000, 0xc0000008, 0xc00000a9, 0xc00000ac])
    return sorted(out)


def independent_public(ip_int):
    a = ipaddress.ip_address(ip_int)
    return not any(a in ipaddress.ip_network(n) for n in NETS)


def run_compact_case(run, model, case):
    bs = bytes.fromhex(case['bs'])
    try:
        peer = decode_tcp_peer_from_compact_address(bs)
        impl = 'ok'
    except ValueError:
        peer, impl = None, 'invalid'
    except Exception:
        peer, impl = None, 'crash'
    mod = model.call('decode', bs=bs.hex())
    problems = []
    if impl == 'ok':
        port = int.from_bytes(bs[4:6], 'big')
        if not (len(bs) == 54 and 1024 <= port <= 65535 and independent_public(int.from_bytes(bs[:4], 'big'))):
            problems.append(f'accepted a compact address that is not a well-formed public one: {bs.hex()}')
    return impl, mod, problems


def gen_compacts(rng, n):
    ips = boundary_ips()
    for _ in range(n):
        ip = rng.choice(ips) if rng.random() < 0.6 else rng.randrange(2 ** 32)
        port = rng.choice([0, 1, 80, 1023, 1024, 1025, 3333, 65534, 65535]) if rng.random() < 0.6 else rng.randrange(65536)
        idlen = rng.choice([48] * 6 + [0, 1, 47, 49, 60])
        b = ip.to_bytes(4, 'big') + port.to_bytes(2, 'big') + bytes(rng.randrange(256) for _ in range(idlen))
        if rng.random() < 0.08:
            b = b[:rng.randrange(0, 8)]
        yield b


# ==============================================================================================
# B2. paging end to end: one storing node, n announcing peers, the real value finder
# ==============================================================================================

def run_paging_sim(run, model, case):
    n, seed = case['n'], case['seed']
    race = case.get('race')
    blob = constants.digest(b'paging-blob-%d' % seed)
    if race:
        # a third node Q that holds nothing and is CLOSER to the hash than the storing node P; replies reach the searcher
        # in bursts (one loop iteration), Q's before P's: P's next-page probe is re-scheduled by Q's done-callback
        dist = Distance(blob)
        ids = sorted((constants.digest(b'race-%d-%d' % (seed, i)) for i in range(3)), key=dist)
        sim = Sim(seed, 3, ids=[ids[1], ids[0], ids[2]])          # node 0 = P (bootstrap, storing), 1 = Q, 2 = searcher
    else:
        sim = Sim(seed, 2)
    searcher = 2 if race else 1

    async def go():
        await sim.start()
        await asyncio.sleep(320)
        anns = [LightAnnouncer(sim, j) for j in range(n)]
        for a in anns:
            r = await a.announce_to(blob, [sim.nodes[0]])
            if not r[0][1]:
                raise RuntimeError('store refused')
        if race:
            await asyncio.sleep(400)          # everybody knows everybody
            dist = Distance(blob)
            by_addr = {sim.addr(k): dist(nd.protocol.node_id) for k, nd in enumerate(sim.nodes)}
            sim.net.set_batching(race['period'], lambda frm, to: by_addr.get(frm, 0))
        found, finder, fin = await sim.value_lookup(searcher, blob, max_probes=200)
        sim.net.batch = None
        return blob, anns, found, finder, fin

    try:
        blob, anns, found, finder, fin = sim.run(go())
        order = {a.protocol.node_id: j + 1 for j, a in enumerate(anns)}
        shuffled = [j + 1 for j in range(n)]
        if n > K:
            random.Random(sim.nodes[0].protocol.node_id).shuffle(shuffled)
        p_pids = {v for k, v in finder._pid.ids.items() if k.address == sim.endpoints[0][0]}
        asked = [rec['page'] for rec in finder._events if rec['e'] == 'probe' and rec.get('outcome') == 'reply'
                 and rec['pid'] in p_pids]
        impl = {'delivered': [order.get(p.node_id, 0) for p in found], 'asked': asked, 'finished': fin}
        res = model.call('walk_honest', l=shuffled)
        mod = {'delivered': res['delivered'], 'asked': res['asked'], 'finished': res['finished']}
        problems = []
        got = [order.get(p.node_id, 0) for p in found]
        if n <= K * 33 and (sorted(got) != list(range(1, n + 1))):
            missing = sorted(set(range(1, n + 1)) - set(got))
            problems.append(f'{n} peers announced the blob to one node; the value lookup returned {len(got)} '
                            f'({len(set(got))} distinct); missing announcers {missing[:10]}')
        if not fin:
            problems.append('value lookup did not finish')
        return impl, mod, problems, sim.traces
    finally:
        sim.close()


def withheld_old(node_id, n):
    l = list(range(n))
    random.Random(node_id).shuffle(l)
    return l[K * (n // (K + 1) + 2):]


def run_crafted_loss(run, model, case):
    """8 storing nodes whose shuffles all put the same announcer last (the network-wide form of finding F9)"""
    n_ann, seed, full = case['n_ann'], case['seed'], case.get('full', False)
    rng = random.Random(seed)
    ids8, target = [], None
    while len(ids8) < 8:
        nid = b'\x00' + bytes(rng.randrange(256) for _ in range(47))
        w = withheld_old(nid, n_ann)
        if target is None:
            target = w
        if w == target:
            ids8.append(nid)

    def far():
        return b'\xff' + bytes(rng.randrange(256) for _ in range(47))
    n_full = 10 + (n_ann if full else 0)
    ids = [far()] + ids8 + [far()] + [far() for _ in range(n_full - 10)]
    sim = Sim(seed, n_full, None, (), ids=ids)
    blob = b'\x00' * 48

    async def go():
        await sim.start()
        await asyncio.sleep(1200)
        if full:
            ann_ids = []
            for a in range(10, n_full):
                await sim.nodes[a].announce_blob(blob.hex())
                ann_ids.append(sim.nodes[a].protocol.node_id)
        else:
            la = [LightAnnouncer(sim, j) for j in range(n_ann)]
            for a in la:
                await a.announce_to(blob, sim.nodes[1:9])
            ann_ids = [a.protocol.node_id for a in la]
        per_node = [len(nd.protocol.data_store.get_peers_for_blob(blob)) for nd in sim.nodes[1:9]]
        found, f, fin = await sim.value_lookup(9, blob, max_probes=600)
        return ann_ids, per_node, found, fin
    try:
        ann_ids, per_node, found, fin = sim.run(go())
        got = {p.node_id for p in found}
        missing = [j for j, i in enumerate(ann_ids) if i not in got]
        problems = []
        if missing or not fin:
            problems.append(f'honest loss-free network, {n_ann} announcers, 8 storing nodes hold {per_node}: '
                            f'value lookup misses announcers {missing} (would-be withheld index {target})')
        return {'per_node': per_node, 'found': len(found)}, problems, sim.traces
    finally:
        sim.close()


# ==============================================================================================
# E. network scenarios and monitors
# ==============================================================================================

async def quiescent_jump_to(sim, target):
    """suspend-and-resume: when no datagram is in flight and no request is pending, move the clock"""
    for _ in range(4000):
        if sim.net.in_flight == 0 and all(not nd.protocol.sent_messages for nd in sim.nodes):
            break
        await asyncio.sleep(0.05)
    if target > sim.loop._vt:
        sim.loop._vt = float(target)
    await asyncio.sleep(0)


def peer_wellformed(p):
    try:
        ok_ip = independent_public(int(ipaddress.ip_address(p.address)))
    except Exception:
        ok_ip = False
    return ok_ip and isinstance(p.node_id, bytes) and len(p.node_id) == 48 and p.tcp_port is not None \
        and 1024 <= p.tcp_port <= 65535


def check_lookup(sim, i, finder, found, finished, t0, t1):
    """termination and output-validity monitor for one lookup of node i; returns list of problems"""
    problems = []
    me = sim.nodes[i].protocol
    t0 = getattr(finder, '_t0', t0)
    t1 = getattr(finder, '_t1', t1)
    seeds = sum(1 for c in finder._events[0]['calls'] if c['c'] == 'sched') if finder._events else 0
    learned = len(finder._learned)
    if not finished:
        problems.append(f'{finder.KIND} lookup did not finish ({finder._n_sched} probes, {learned} peers learned)')
    if finder._n_sched > seeds + 33 * max(learned, 1):
        problems.append(f'{finder.KIND} lookup scheduled {finder._n_sched} probes for {learned} peers learned')
    if finder.KIND == 'node' and finder._n_sched > seeds + learned:
        problems.append(f'node lookup scheduled {finder._n_sched} probes for {learned} peers learned')
    # a bounded number of RPC timeouts, measured in the timeout the node was CONFIGURED with: at every moment until it ends a lookup has a probe running, and a probe ends
    # within one rpc_timeout, so it lasts at most rpc_timeout x (probes scheduled + 1) plus one round trip of slack.
    # Virtual clock only; lookups whose socket the scenario closed are exempt (they must still finish).
    bound = sim.rpc_timeout * (finder._n_sched + 1) + 2 * sim.profile.delay[1]
    if not getattr(finder, '_ext_closed', False) and t1 - t0 > bound:
        problems.append(f'{finder.KIND} lookup took {t1 - t0:.1f}s of virtual time for {finder._n_sched} probes '
                        f'(bound {bound:.1f}s)')
    if finder.KIND == 'node':
        replied = sim.net.responses_from.get((me.external_ip, me.udp_port), set())
        for p in found:
            if p.node_id == me.node_id:
                problems.append('node lookup yielded the searching node itself')
            if (p.address, p.udp_port) not in replied:
                problems.append(f'node lookup yielded {p.address}:{p.udp_port} which never replied to the searcher')
        if len(set(found)) != len(found):
            problems.append('node lookup yielded a peer twice')
    else:
        for p in found:
            if not peer_wellformed(p):
                problems.append(f'value lookup yielded a malformed / non-public peer {p.address}:{p.tcp_port}')
    return problems


def gen_hit_case(rng, n, idx):
    delay_hi = rng.choice([0.05, 0.3, 1.0, 2.0])
    case = {'part': 'hit', 'n': n, 'seed': rng.randrange(1 << 30), 'delay': [0.001, delay_hi],
            'dup': rng.choice([0.0, 0.1, 0.4]), 'announcers': rng.choice([1, 1, 2, 3]),
            'settle': rng.choice([0, 0, 30, 600, 2000]), 'passage': 'jump', 'production': True,
            'addr': 'long' if idx % 3 == 2 else 'short'}
    # configured RPC timeout: default, much smaller, or larger with replies that take longer than the default 5 s
    if idx % 4 == 1:
        case['rpc_timeout'] = 12.0
        case['delay'] = [2.6, 5.5]
        case['settle'] = max(case['settle'], 2000)      # round trips of 5-11 s: the first refresh cycle takes that long
    elif idx % 4 == 3:
        case['rpc_timeout'] = 0.5
        case['delay'] = [0.001, rng.choice([0.02, 0.1])]
    # second / n-th instance on a host (tcp 3333+i, udp 4444+i) and one port for both protocols
    if case['addr'] == 'short' and n >= 4:
        layouts = [(4445, 3334), (4510, 3399), (5000, 5000)]
        picks = rng.sample(range(n), 3)
        case['ports'] = {str(i): list(l) for i, l in zip(picks, layouts)}
    return case


def run_hit_case(run, model, case):
    n, seed = case['n'], case['seed']
    sim = Sim(seed, n, Profile(delay=tuple(case['delay']), dup=case['dup']), rpc_timeout=case.get('rpc_timeout'),
              addr=case.get('addr', 'short'), ports=case.get('ports'))
    rng = random.Random(seed * 7 + 1)
    info = {'checkpoints': {}, 'stored': [], 'closest_overlap': [], 'tries': [], 'production': None}

    async def production(blob, announcers):
        """the downloader's path (Node.accumulate_peers) from every node: every other announcer must come out"""
        wait = 40 + 6 * sim.rpc_timeout + 12 * sim.profile.delay[1]
        results = await asyncio.gather(*[sim.production_lookup(i, blob, wait) for i in range(n)])
        problems, missing, guesses = [], [], {}
        for i, peers in enumerate(results):
            got = {(p.address, p.tcp_port) for p in peers}
            storing = sim.nodes[i].protocol.data_store.has_peers_for_blob(blob)
            for a in announcers:
                if a == i:
                    continue
                ip, udp, tcp = sim.endpoints[a]
                if (ip, tcp) not in got:
                    if a in unconverged:
                        info['unconverged_misses'] = info.get('unconverged_misses', 0) + 1
                    else:
                        missing.append((i, a, udp, tcp))
                vf = [f for f in sim.traces if f.KIND == 'value' and f.key == blob and f.protocol is sim.nodes[i].protocol]
                yielded = bool(vf) and any(p.node_id == sim.nodes[a].protocol.node_id for p in vf[-1].blob_peers)
                if not storing and yielded:      # the producer was handed this announcer by its value finder
                    r = model.call('producer', is_self=False, good=None, udp=None, tcp=tcp)
                    tried = sim.net.ports_tried.get((sim.addr(i), ip), set())
                    guesses['%d>%d' % (i, a)] = (r[0] == 'ping' and r[1] in tried, True)
        info['production'] = {'lookups': len(results), 'missing': len(missing)}
        if missing:
            i, a, udp, tcp = missing[0]
            problems.append(f'loss-free honest network of {n}: Node.accumulate_peers of node {i} does not return live '
                            f'announcer {a} (udp {udp} / tcp {tcp}); {len(missing)} (searcher, announcer) pairs missing')
        return problems, guesses

    unconverged = set()      # announcers whose announcement went out before the network had converged (see below)

    def restamp(blob, announcers, windows):
        """the announcement's age is judged by the STORING nodes' clocks: a duplicated or delayed store datagram may
        be processed (and refresh the timestamp) after announce_blob() has returned"""
        for a in announcers:
            aid = sim.nodes[a].protocol.node_id
            ts = [t for nd in sim.nodes for p, t in nd.protocol.data_store._data_store.get(blob, []) if p.node_id == aid]
            if ts:
                windows[a] = (min(windows[a][0], min(ts)), max(windows[a][1], max(ts)))

    async def lookups(label, blob, announcers, must, windows):
        restamp(blob, announcers, windows)

        async def one(i):
            t0 = sim.loop.time()
            found, finder, fin = await sim.value_lookup(i, blob, max_probes=2000)
            return i, found, finder, fin, t0, sim.loop.time()
        results = await asyncio.gather(*[one(i) for i in range(n)])
        problems, misses, hits, late = [], [], [], 0
        for i, found, finder, fin, t0, t1 in results:
            problems.extend(check_lookup(sim, i, finder, found, fin, t0, t1))
            ids = {p.node_id for p in found}
            for a in announcers:
                if a == i:
                    continue
                aid = sim.nodes[a].protocol.node_id
                lo, hi = windows[a]
                if must == 'hit':
                    if t1 >= lo + EXPIRY:
                        late += 1
                    elif aid not in ids:
                        if a in unconverged:
                            info['unconverged_misses'] = info.get('unconverged_misses', 0) + 1
                        else:
                            misses.append((i, a))
                elif must == 'miss' and t0 > hi + EXPIRY and aid in ids:
                    hits.append((i, a))
        info['checkpoints'][label] = {'lookups': len(results), 'misses': len(misses), 'stale_hits': len(hits), 'late': late}
        if misses:
            problems.append(f'[{label}] loss-free honest network of {n}: value lookups (searcher, announcer) {misses[:8]} '
                            f'miss a live announcement ({len(misses)} of {len(results)} lookups)')
        if hits:
            problems.append(f'[{label}] value lookups {hits[:8]} still return an announcement older than 24 h')
        return problems

    async def go():
        problems = []
        order = list(range(1, n))
        rng.shuffle(order)
        gaps = [rng.choice([0.0, 0.1, 1.0, 3.0, 20.0]) for _ in order]
        try:
            await sim.start(order, gaps)
            await asyncio.wait_for(sim.nodes[0].joined.wait(), 3000)
        except asyncio.TimeoutError:
            return [f'loss-free honest network of {n} (configured rpc_timeout {sim.rpc_timeout}s, one-way delay <= '
                    f'{sim.profile.delay[1]}s): the nodes do not manage to join']
        await asyncio.sleep(case['settle'])
        blob = bytes(rng.randrange(256) for _ in range(48))
        announcers = rng.sample(range(n), min(case['announcers'], n))
        if case.get('ports'):            # nodes on non-default port layouts announce
            special = [int(k) for k in case['ports']]
            announcers = sorted(set(special[:3]) | set(announcers[:1]))
        need = min(5, n - 1)
        windows = {}
        for a in announcers:
            tries = 0
            while True:
                tries += 1
                t_a0 = sim.loop.time()
                stored = await sim.nodes[a].announce_blob(blob.hex())
                if len(stored) >= need or tries >= 40:
                    break
                await asyncio.sleep(60)          # BlobAnnouncer: "retrying soon"
            windows[a] = (t_a0, sim.loop.time())
            info['tries'].append(tries)
            info['stored'].append(len(stored))
            if len(stored) < need:
                problems.append(f'node {a} could not announce to {need} nodes in 40 attempts (stored to {len(stored)})')
            close = {nd.protocol.node_id for nd in sim.true_closest(blob, exclude=(a,))[:K]}
            info['closest_overlap'].append([len(close & set(stored)), min(K, n - 1)])
            # premise of the whole-network clause: the network had converged when the blob was announced, judged by the
            # announcement having reached at least half of the nodes truly closest to the hash; otherwise later lookups,
            # which home in on the true closest nodes, may legitimately miss it (counted in supporting_only only)
            if 2 * len(close & set(stored)) < min(K, n - 1):
                unconverged.add(a)
                info['unconverged_announcements'] = info.get('unconverged_announcements', 0) + 1
            # "stored on nodes closest to its hash": of all peers the announcer's own lookup was given (the peers that
            # replied), the blob must be stored on exactly the K closest to the hash
            fs = [f for f in sim.traces if f.KIND == 'node' and f.key == blob and f.protocol is sim.nodes[a].protocol]
            if fs:
                dist = Distance(blob)
                best = {p.node_id for p in sorted(fs[-1].yielded_peers, key=lambda p: dist(p.node_id))[:K]}
                if set(stored) != best:
                    problems.append(f'node {a} announced: stored to {len(stored)} nodes which are not the {len(best)} '
                                    f'closest to the hash among the {len(fs[-1].yielded_peers)} peers its lookup returned '
                                    f'({len(best - set(stored))} closer peers skipped)')
        first_lo = min(w[0] for w in windows.values())
        last_hi = max(w[1] for w in windows.values())
        problems += await lookups('fresh', blob, announcers, 'hit', windows)
        if case.get('production'):
            pp, guesses = await production(blob, announcers)
            problems += pp
            info['guesses'] = guesses
        if case['passage'] == 'real':
            await asyncio.sleep(max(0.0, first_lo + EXPIRY / 2 - sim.loop.time()))
        else:
            await quiescent_jump_to(sim, first_lo + EXPIRY / 2)
        problems += await lookups('+12h', blob, announcers, 'hit', windows)
        if case['passage'] == 'real':
            await asyncio.sleep(max(0.0, first_lo + EXPIRY - 150 - sim.loop.time()))
        else:
            await quiescent_jump_to(sim, first_lo + EXPIRY - 150)
        problems += await lookups('24h-150s', blob, announcers, 'hit', windows)
        restamp(blob, announcers, windows)
        last_hi = max(w[1] for w in windows.values())
        if case['passage'] == 'real':
            await asyncio.sleep(max(0.0, last_hi + EXPIRY + 0.5 - sim.loop.time()))
        else:
            await quiescent_jump_to(sim, last_hi + EXPIRY + 0.5)
        problems += await lookups('24h+', blob, announcers, 'miss', windows)
        return problems
    try:
        problems = sim.run(go())
        return info, problems, sim.traces
    finally:
        sim.close()


def run_many_case(run, model, case):
    """honest loss-free network of n real Nodes in which `ann` of them announce the same blob; every node's value
    lookup must return every announcer (paging across the storing nodes, merged by the finder)"""
    n, seed, n_ann = case['n'], case['seed'], case['ann']
    sim = Sim(seed, n, Profile(delay=tuple(case['delay']), dup=case['dup']), rpc_timeout=case.get('rpc_timeout'),
              addr=case.get('addr', 'short'))
    rng = random.Random(seed * 13 + 5)

    async def go():
        problems = []
        order = list(range(1, n))
        rng.shuffle(order)
        await sim.start(order, [rng.choice([0.0, 0.5, 3.0]) for _ in order])
        await asyncio.wait_for(sim.nodes[0].joined.wait(), 3000)
        await asyncio.sleep(case.get('settle', 1300))
        blob = bytes(rng.randrange(256) for _ in range(48))
        # the announcers are `ann` of the real nodes, each with its own announce_blob (BlobAnnouncer retry rule).
        # (Extra store-only peers are not used here: they answer findValue with nothing, get handed out as contacts and,
        # when closer to the hash than the storing nodes, push those out of the searcher's K+running window.)
        chosen = rng.sample(range(n), n_ann)
        storing = set()
        for a in chosen:
            for _ in range(40):
                st = await sim.nodes[a].announce_blob(blob.hex())
                if len(st) >= min(5, n - 1):
                    break
                await asyncio.sleep(60)
            storing.update(st)
        targets = [nd for nd in sim.nodes if nd.protocol.node_id in storing]
        ann_ids = [sim.nodes[a].protocol.node_id for a in chosen]

        async def one(i):
            found, finder, fin = await sim.value_lookup(i, blob, max_probes=3000)
            return i, found, finder, fin
        if case.get('batch'):
            # bursts: everything addressed to one node arrives in one loop iteration, farthest-from-the-key sender first
            dist = Distance(blob)
            by_addr = {sim.addr(k): dist(nd.protocol.node_id) for k, nd in enumerate(sim.nodes)}
            sign = -1 if case['batch'].get('order') == 'far_first' else 1
            sim.net.set_batching(case['batch']['period'], lambda frm, to: sign * by_addr.get(frm, 0))
        searchers = case.get('searchers') or list(range(n))
        if case.get('sequential'):
            results = [await one(i) for i in searchers]
        else:
            results = await asyncio.gather(*[one(i) for i in searchers])
        if case.get('batch'):
            sim.net.batch = None
        worst = None
        for i, found, finder, fin in results:
            problems.extend(check_lookup(sim, i, finder, found, fin, 0, 0))
            got = {p.node_id for p in found} | {sim.nodes[i].protocol.node_id}
            missing = [j for j, x in enumerate(ann_ids) if x not in got]
            if missing and (worst is None or len(missing) > len(worst[1])):
                worst = (i, missing)
        if worst:
            bad = sum(1 for i, found, _, _ in results
                      if not set(ann_ids) <= ({p.node_id for p in found} | {sim.nodes[i].protocol.node_id}))
            problems.append(f'loss-free honest network of {n}, {n_ann} live announcers stored on {len(targets)} nodes: '
                            f'the value lookup of node {worst[0]} misses announcers {worst[1][:10]} '
                            f'({len(worst[1])} missing; {bad} of {n} lookups incomplete)')
        return {'targets': len(targets), 'lookups': len(results), 'max_datagram': sim.net.max_datagram}, problems
    try:
        info, problems = sim.run(go())
        return info, problems, sim.traces
    finally:
        sim.close()


def run_hearsay_case(run, model, case):
    """node lookups for the EXACT id of a node the searcher has never heard from: a node that died before the searcher
    joined, a node that is silent to findNode/findValue, and a live node all of whose datagrams to the searcher are
    lost.  The other nodes still list all three in their routing tables, so the lookup 'finds' the key at once; the
    clause checked is: every returned contact replied to the searcher (and never the searcher itself)."""
    n, seed = case['n'], case['seed']
    sim = Sim(seed, n, Profile(delay=tuple(case['delay']), dup=case.get('dup', 0.0)), ['silent'],
              rpc_timeout=case.get('rpc_timeout'), addr=case.get('addr', 'short'))
    rng = random.Random(seed * 17 + 9)
    info = {'lookups': 0, 'found_key_events': 0}

    async def go():
        problems = []
        late = n - 1
        order = list(range(1, n - 1))
        rng.shuffle(order)
        await sim.start(order, [rng.choice([0.0, 0.5, 2.0]) for _ in order])
        await asyncio.wait_for(sim.nodes[0].joined.wait(), 3000)
        await asyncio.sleep(case.get('settle', 700))          # the bootstrap has pinged everybody by now
        dead, mute = rng.sample(range(1, n - 1), 2)
        sim.net.kill(sim.addr(dead))
        sim.net.blocked.add((sim.addr(mute), sim.addr(late)))
        await asyncio.sleep(rng.choice([0.5, 5.0, 40.0]))
        sim.nodes[late].start('0.0.0.0', [sim.boot_addr])
        await asyncio.wait_for(sim.nodes[late].joined.wait(), 900)
        await asyncio.sleep(rng.choice([0.0, 1.0, 3.0]))
        targets = [('dead', sim.nodes[dead].protocol.node_id), ('silent', sim.hostiles[0].node_id),
                   ('mute', sim.nodes[mute].protocol.node_id)]
        for label, key in targets:
            for how in ('finder', 'peer_search'):
                t0 = sim.loop.time()
                n_before = len(sim.traces)
                if how == 'finder':
                    found, finder = await sim.node_lookup(late, key)
                else:
                    found = await sim.nodes[late].peer_search(key)
                    finder = [f for f in sim.traces[n_before:] if f.protocol is sim.nodes[late].protocol][-1]
                    finder._t0, finder._t1 = t0, sim.loop.time()
                info['lookups'] += 1
                info['found_key_events'] += sum(1 for r in finder._events if r.get('found_key'))
                for pr in check_lookup(sim, late, finder, found, True, t0, sim.loop.time()):
                    problems.append(f'[lookup of the id of a {label} node, via {how}] ' + pr)
        return problems
    try:
        problems = sim.run(go())
        return info, problems, sim.traces
    finally:
        sim.close()


def run_lastcrash_case(run, model, case):
    """the probe whose reply makes the finder's task die (decodable bencode of the wrong shape) is the LAST one of the
    lookup to complete: the node is the only entry of the shortlist, or its answers are slower than everybody else's.
    The lookup must still finish."""
    n, seed, kind = case['n'], case['seed'], case['kind']
    sim = Sim(seed, n, Profile(delay=tuple(case['delay'])), [kind], rpc_timeout=case.get('rpc_timeout'))
    rng = random.Random(seed * 19 + 1)
    info = {'lookups': 0}

    async def go():
        problems = []
        await sim.start()
        await asyncio.sleep(case.get('settle', 700))
        h = sim.hostiles[0]
        hpeer = make_kademlia_peer(h.node_id, h.addr[0], h.addr[1])
        # the hostile node answers slowly (but well within the timeout) from now on
        slow = sim.rpc_timeout * 0.5
        orig_send = sim.net.send

        def send(frm, to, data):
            if frm == h.addr:
                sim.net.sent += 1
                sim.net.in_flight += 1
                sim.loop.call_later(slow, sim.net._deliver, frm, to, data)
            else:
                orig_send(frm, to, data)
        sim.net.send = send
        for i in rng.sample(range(n), min(n, 2)):
            for key in (bytes(rng.randrange(256) for _ in range(48)), h.node_id):
                for shortlist in ([hpeer], None):
                    for what in ('node', 'value'):
                        t0 = sim.loop.time()
                        n_before = len(sim.traces)
                        try:
                            if what == 'node':
                                found, finder = await asyncio.wait_for(sim.node_lookup(i, key, shortlist=shortlist), 900)
                                fin = True
                            else:
                                found, finder, fin = await asyncio.wait_for(
                                    sim.value_lookup(i, key, shortlist=shortlist), 900)
                        except asyncio.TimeoutError:
                            mine = [f for f in sim.traces[n_before:] if f.protocol is sim.nodes[i].protocol and f.key == key]
                            found, finder, fin = [], (mine[0] if mine else sim.traces[-1]), False
                            finder._t0, finder._t1 = t0, t0
                        info['lookups'] += 1
                        for pr in check_lookup(sim, i, finder, found, fin, t0, sim.loop.time()):
                            problems.append(f'[{what} lookup, shortlist {"= the malformed-reply node only" if shortlist else "from the routing table"}] ' + pr)
        return problems
    try:
        problems = sim.run(go())
        return info, problems, sim.traces
    finally:
        sim.close()


def run_storeport_case(run, model, case):
    """KademliaRPC.store over the port boundary list: what it accepts must be a port a peer address can carry"""
    loop = VirtualLoop()
    try:
        proto = KademliaProtocol(loop, PeerManager(loop), constants.digest(b'sp'), '1.2.3.4', 4444, 3333)
        key = constants.digest(b'storeport-key')
        impl, mod, problems = {}, {}, []
        for j, port in enumerate(case['ports']):
            contact = make_kademlia_peer(constants.digest(b'sp-%d' % j), ip_of(40 + j), 4444)
            token = proto.node_rpc.make_token(contact.compact_ip())
            try:
                ok = proto.node_rpc.store(contact, key, token, port) == b'OK'
            except (ValueError, OverflowError):
                ok = False
            impl[str(port)] = ok
            mod[str(port)] = model.call('store_port_ok', port=max(port, 0)) if port >= 0 else False
            if ok and not 1024 <= port <= 65535:
                problems.append(f'store accepted tcp port {port}, which no peer address may carry')
        served = []
        try:
            resp = proto.node_rpc.find_value(make_kademlia_peer(constants.digest(b'sp-req'), '1.2.9.9', 4444), key, 0)
            for c in resp.get(key, []):
                try:
                    decode_tcp_peer_from_compact_address(bytes(c))
                except ValueError:
                    served.append(bytes(c).hex()[:16])
        except Exception as e:
            problems.append(f'findValue on the stored peers raised {type(e).__name__}')
        if served:
            problems.append(f'findValue serves {len(served)} stored peer address(es) that no searcher can decode')
        return impl, mod, problems
    finally:
        loop.close()


def run_pingq_case(run, model, case):
    """PingQueue.enqueue_maybe_ping / the selection rule of _process on op lists with integer times"""
    from lbry.dht.protocol.protocol import PingQueue
    clock = _Clock()
    pqueue = PingQueue(clock, None)
    peers = [make_kademlia_peer(constants.digest(b'pq-%d' % i), ip_of(60 + i), 4444) for i in range(case['peers'])]
    num = {p: i for i, p in enumerate(peers)}
    mops, popped, problems, deadline = [], [], [], {}
    for op in case['ops']:
        if op[0] == 'enq':
            _, i, now, delay = op
            clock.t = now
            pqueue.enqueue_maybe_ping(peers[i], delay=delay)
            mops.append(['enq', i, now + delay])
            got = pqueue._pending_contacts[peers[i]]
            if i in deadline and got > deadline[i]:
                problems.append(f'the verification ping of contact {i} was due at {deadline[i]}, a further request at t={now} '
                                f'moved it to {got}')
            deadline[i] = min(deadline.get(i, got), got)
        else:                                   # what _process would ping at time now
            now = op[1]
            clock.t = now
            hit = None
            for peer in list(pqueue._pending_contacts.keys()):
                if pqueue._pending_contacts[peer] <= now:
                    del pqueue._pending_contacts[peer]
                    hit = num[peer]
                    break
            popped.append(hit)
            deadline.pop(hit, None)
            mops.append(['pop', now])
    res = model.call('pq', ops=mops)
    impl = {'queue': [[num[p], t] for p, t in pqueue._pending_contacts.items()], 'popped': popped}
    return impl, {'queue': res['queue'], 'popped': res['popped']}, problems


def gen_pingq_ops(rng, length):
    m = rng.choice([1, 2, 4])
    ops, now = [], 0
    for _ in range(length):
        now += rng.choice([0, 1, 30, 60, 299, 300, 301])
        if rng.random() < 0.8:
            ops.append(['enq', rng.randrange(m), now, rng.choice([0, 300, 300, 300, 10])])
        else:
            ops.append(['pop', now])
    return {'part': 'pingq', 'peers': m, 'ops': ops}


class _InlineExecutor:
    """runs submitted work at once in the calling thread: sqlite beneath SQLiteStorage without real threads, so that the
    virtual clock cannot run ahead of a database call"""

    def __init__(self, *a, **k):
        pass

    def submit(self, fn, *args, **kwargs):
        import concurrent.futures
        f = concurrent.futures.Future()
        try:
            f.set_result(fn(*args, **kwargs))
        except BaseException as e:          # noqa
            f.set_exception(e)
        return f

    def shutdown(self, wait=True):
        pass


def run_reannounce_case(run, model, case):
    """the production announcer (real BlobAnnouncer + SQLiteStorage) of an active publisher over more than 24 h: blobs
    become due in different rounds; whenever the publisher's own bookkeeping says a blob was announced less than 24 h
    ago, every other node's value lookup must return the publisher"""
    import tempfile
    import shutil
    import lbry.wallet.database as _dbmod
    from lbry.conf import Config
    from lbry.extras.daemon.storage import SQLiteStorage
    from lbry.dht.blob_announcer import BlobAnnouncer
    n, seed = case['n'], case['seed']
    sim = Sim(seed, n, Profile(delay=tuple(case['delay'])))
    rng = random.Random(seed * 37 + 5)
    tmp = tempfile.mkdtemp(prefix='c12-ann-')
    saved = (_dbmod.ThreadPoolExecutor, _dbmod.ReaderExecutorClass)
    _dbmod.ThreadPoolExecutor = _InlineExecutor
    _dbmod.ReaderExecutorClass = _InlineExecutor
    info = {'checks': 0, 'rounds': []}

    async def go():
        problems = []
        await sim.start()
        await asyncio.wait_for(sim.nodes[0].joined.wait(), 3000)
        await asyncio.sleep(700)
        pub = 1
        node = sim.nodes[pub]
        conf = Config(data_dir=tmp, wallet_dir=tmp, download_dir=tmp, config=os.path.join(tmp, 'settings.yml'))
        storage = SQLiteStorage(conf, ':memory:', sim.loop, sim.loop.time)
        await storage.open()
        announcer = BlobAnnouncer(sim.loop, node, storage)
        announcer.start(batch_size=10)
        t0 = sim.loop.time()
        blobs = []

        async def publish(label):
            h = bytes(rng.randrange(256) for _ in range(48)).hex()
            await storage.add_blobs((h, 1024, int(sim.loop.time()), True), finished=True)
            await storage.set_announce(h, h)      # (sd hash, head blob) of a published stream
            blobs.append((label, h))

        async def check(label):
            rows = await storage.db.run(lambda tx: tx.execute(
                "select blob_hash, last_announced_time, next_announce_time from blob").fetchall())
            now = sim.loop.time()
            book = {r[0]: (r[1], r[2]) for r in rows}
            info['rounds'].append([label, sorted((lbl, int(book[h][0] - t0) if book[h][0] else None) for lbl, h in blobs)])
            for lbl, h in blobs:
                last = book[h][0]
                if not last or now - last >= EXPIRY - 600:
                    continue        # never announced yet, or (by the publisher's own books) about to expire
                miss = []
                for i in range(n):
                    if i == pub:
                        continue
                    found, finder, fin = await sim.value_lookup(i, bytes.fromhex(h))
                    problems.extend(check_lookup(sim, i, finder, found, fin, 0, 0))
                    info['checks'] += 1
                    if node.protocol.node_id not in {p.node_id for p in found}:
                        miss.append(i)
                if miss:
                    problems.append(f'[{label}] the publisher\'s own record says blob {lbl} was announced {(now - last) / 3600:.1f} h ago '
                                    f'(next announcement in {(book[h][1] - now) / 3600:.1f} h), yet the value lookups of nodes {miss} '
                                    f'in a loss-free honest network of {n} do not return it')
            return problems

        await publish('A')
        await asyncio.sleep(300)
        await check('T+5min')
        for label, hours, new in case['schedule']:
            await quiescent_jump_to(sim, t0 + hours * 3600)
            if new:
                await publish(new)
            await asyncio.sleep(400)             # a few 60 s rounds of the announcer
            await check(label)
        announcer.stop()
        await storage.close()
        return problems
    try:
        problems = sim.run(go())
        return info, problems, sim.traces
    finally:
        _dbmod.ThreadPoolExecutor, _dbmod.ReaderExecutorClass = saved
        sim.close()
        shutil.rmtree(tmp, ignore_errors=True)


def run_lowport_case(run, model, case):
    """a node whose blob server listens on a privileged tcp port announces next to an honest announcer: every value
    lookup (the storing nodes' own ones included) yields only well-formed addresses and still finds the honest one"""
    n, seed, port = case['n'], case['seed'], case['port']
    sim = Sim(seed, n, Profile(delay=tuple(case['delay'])), ports={str(n - 1): [4444, port]})
    rng = random.Random(seed * 23 + 7)

    async def go():
        problems = []
        await sim.start()
        await asyncio.wait_for(sim.nodes[0].joined.wait(), 3000)
        await asyncio.sleep(700)
        blob = bytes(rng.randrange(256) for _ in range(48))
        honest, odd = 1, n - 1
        for a in (honest, odd, honest):
            try:
                await sim.nodes[a].announce_blob(blob.hex())
            except Exception:
                pass
        async def one(i):
            found, finder, fin = await sim.value_lookup(i, blob)
            return i, found, finder, fin
        for i, found, finder, fin in await asyncio.gather(*[one(i) for i in range(n)]):
            problems.extend(check_lookup(sim, i, finder, found, fin, 0, 0))
            # (the misconfigured node itself is not judged: its refused store requests make it rate the storing nodes bad)
            if i not in (honest, odd) and sim.nodes[honest].protocol.node_id not in {p.node_id for p in found}:
                problems.append(f'node {i}: the value lookup does not return the honest announcer stored next to a peer '
                                f'announcing tcp port {port}')
        return problems
    try:
        problems = sim.run(go())
        return {}, problems, sim.traces
    finally:
        sim.close()


def run_cancel_case(run, model, case):
    """searches cancelled mid-flight (Node.accumulate_peers task cancelled by its consumer while the probe to the
    announcer is still unanswered) must not make anybody rate the live announcer bad: no loss, no dead node"""
    n, seed = case['n'], case['seed']
    sim = Sim(seed, n, Profile(delay=tuple(case['delay'])), rpc_timeout=case.get('rpc_timeout'))
    rng = random.Random(seed * 29 + 3)
    info = {'cancelled': 0}

    async def lookups(label, blob, a):
        async def one(i):
            found, finder, fin = await sim.value_lookup(i, blob)
            return i, found, finder, fin
        problems, miss = [], []
        for i, found, finder, fin in await asyncio.gather(*[one(i) for i in range(n) if i != a]):
            problems.extend(check_lookup(sim, i, finder, found, fin, 0, 0))
            if sim.nodes[a].protocol.node_id not in {p.node_id for p in found}:
                miss.append(i)
        if miss:
            problems.append(f'[{label}] loss-free honest network of {n}, no dead node: after searches were cancelled '
                            f'mid-flight the value lookups of nodes {miss} no longer return the live announcer {a}')
        return problems

    async def go():
        problems = []
        await sim.start()
        await asyncio.wait_for(sim.nodes[0].joined.wait(), 3000)
        await asyncio.sleep(case.get('settle', 700))
        blob = bytes(rng.randrange(256) for _ in range(48))
        a = rng.randrange(1, n)
        for _ in range(40):
            if len(await sim.nodes[a].announce_blob(blob.hex())) >= min(5, n - 1):
                break
            await asyncio.sleep(60)
        t_ann = sim.loop.time()
        # the announcer's datagrams are slow for a while (well within the timeout): a legal delay
        slow = sim.rpc_timeout * 0.6
        orig_send = sim.net.send

        def send(frm, to, data):
            if frm == sim.addr(a):
                sim.net.sent += 1
                sim.net.in_flight += 1
                sim.loop.call_later(slow, sim.net._deliver, frm, to, data)
            else:
                orig_send(frm, to, data)
        sim.net.send = send
        for rnd in range(2):
            tasks = []
            for i in range(n):
                if i == a:
                    continue
                sq, pq = asyncio.Queue(), asyncio.Queue()
                sq.put_nowait(sim.nodes[a].protocol.node_id.hex() if rnd == 0 else blob.hex())
                tasks.append(sim.nodes[i].accumulate_peers(sq, pq)[1])
            await asyncio.sleep(sim.rpc_timeout * 0.3)
            for t in tasks:
                t.cancel()
                info['cancelled'] += 1
            await asyncio.sleep(sim.rpc_timeout * 1.5)
        sim.net.send = orig_send
        problems += await lookups('right after', blob, a)
        await asyncio.sleep(max(0.0, t_ann + 3700 - sim.loop.time()))       # past the hourly clean-up of the data stores
        problems += await lookups('one hour later', blob, a)
        return problems
    try:
        problems = sim.run(go())
        return info, problems, sim.traces
    finally:
        sim.close()


def run_busy_case(run, model, case):
    """a node joins a formed network and stays busy (one value lookup per minute for `minutes` virtual minutes); it must
    still be verified by the others, so a blob whose hash is closest to it is stored on it"""
    n, seed = case['n'], case['seed']
    sim = Sim(seed, n, Profile(delay=tuple(case['delay'])))
    rng = random.Random(seed * 31 + 11)
    info = {}

    async def go():
        problems = []
        busy = n - 1
        order = list(range(1, n - 1))
        await sim.start(order)
        await asyncio.wait_for(sim.nodes[0].joined.wait(), 3000)
        await asyncio.sleep(1500)
        sim.nodes[busy].start('0.0.0.0', [sim.boot_addr])
        await asyncio.wait_for(sim.nodes[busy].joined.wait(), 900)
        for _ in range(case['minutes']):
            t0 = sim.loop.time()
            await sim.value_lookup(busy, bytes(rng.randrange(256) for _ in range(48)))
            await asyncio.sleep(max(0.0, t0 + case.get('every', 60) - sim.loop.time()))
        bid = sim.nodes[busy].protocol.node_id
        blob = bid[:-1] + bytes([bid[-1] ^ 1])               # the busy node is the closest node to this hash
        a = rng.randrange(1, n - 1)
        stored = await sim.nodes[a].announce_blob(blob.hex())
        known_by = sum(1 for k, nd in enumerate(sim.nodes) if k != busy and nd.protocol.routing_table.get_peer(bid))
        info['known_by'] = known_by
        info['stored'] = len(stored)
        if bid not in stored:
            problems.append(f'honest loss-free network of {n}: node {busy} joined through the bootstrap node '
                            f'{case["minutes"]} minutes ago, answers everything and is the closest node to the hash, yet the '
                            f'announcement is stored on {len(stored)} other nodes and not on it (it is in the routing '
                            f'table of {known_by} of {n - 1} nodes)')
        return problems
    try:
        problems = sim.run(go())
        return info, problems, sim.traces
    finally:
        sim.close()


FAULT_KINDS = list(HOSTILE_KINDS) + ['endless_pager']


def gen_fault_case(rng, idx):
    n = rng.choice([4, 6, 9, 12, 16, 24])
    kinds = [FAULT_KINDS[(idx + j * 5) % len(FAULT_KINDS)] for j in range(rng.choice([1, 2, 3]))]
    case = {'part': 'fault', 'n': n, 'seed': rng.randrange(1 << 30), 'delay': [0.001, rng.choice([0.2, 1.0, 3.0, 7.0])],
            'dup': rng.choice([0.0, 0.3]), 'loss': rng.choice([0.0, 0.0, 0.05, 0.2, 0.5]),
            'dead': rng.choice([0, 1, 2, n // 2]), 'hostile': kinds, 'disconnect': idx % 3 == 0}
    # the bound is in units of the CONFIGURED rpc timeout: nodes built with a smaller / larger one, silent nodes present
    if idx % 4 == 1:
        case['rpc_timeout'] = [0.25, 1.0, 20.0][(idx // 4) % 3]
        case['delay'] = [0.001, 7.0 if case['rpc_timeout'] > 5 else case['rpc_timeout'] * 0.1]
        case['dead'] = max(1, case['dead'])
        case['loss'] = 0.0
        if 'silent' not in case['hostile']:
            case['hostile'] = case['hostile'][:2] + ['silent']
    if idx % 5 == 4:
        case['addr'] = 'long'
    return case


def run_fault_case(run, model, case):
    n, seed = case['n'], case['seed']
    sim = Sim(seed, n, Profile(delay=tuple(case['delay']), dup=case['dup'], loss=case['loss']), case['hostile'],
              rpc_timeout=case.get('rpc_timeout'), addr=case.get('addr', 'short'))
    rng = random.Random(seed * 11 + 3)
    info = {'lookups': 0, 'alias_yields': 0, 'hostile_answered': 0}

    async def go():
        problems = []
        try:
            await sim.start()
        except asyncio.TimeoutError:
            pass
        await asyncio.sleep(rng.choice([400, 1000, 1600]))
        blob = bytes(rng.randrange(256) for _ in range(48))
        live = list(range(n))
        try:
            await asyncio.wait_for(sim.nodes[rng.randrange(n)].announce_blob(blob.hex()), 600)
        except Exception:
            pass        # announcing into a faulty network is outside this property
        dead = rng.sample(range(1, n), min(case['dead'], n - 1))
        for d in dead:
            sim.net.kill(sim.addr(d))
        live = [i for i in range(n) if i not in dead]
        real_ids = {nd.protocol.node_id for nd in sim.nodes} | {h.node_id for h in sim.hostiles}
        searchers = rng.sample(live, min(len(live), 3))
        for i in searchers:
            keys = [bytes(rng.randrange(256) for _ in range(48)), sim.nodes[i].protocol.node_id,
                    sim.nodes[rng.choice(live)].protocol.node_id, blob]
            if dead:
                keys.append(sim.nodes[dead[0]].protocol.node_id)
            if sim.hostiles:
                keys.append(sim.hostiles[0].node_id)
            for key in keys:
                t0 = sim.loop.time()
                try:
                    found, finder = await asyncio.wait_for(sim.node_lookup(i, key), 6000)
                    fin = True
                except asyncio.TimeoutError:
                    found, finder, fin = [], sim.traces[-1], False
                problems += check_lookup(sim, i, finder, found, fin, t0, sim.loop.time())
                info['lookups'] += 1
                info['alias_yields'] += sum(1 for p in found if p.node_id not in real_ids)
            for key in (blob, bytes(rng.randrange(256) for _ in range(48))):
                t0 = sim.loop.time()
                try:
                    found, finder, fin = await asyncio.wait_for(sim.value_lookup(i, key, max_probes=3000), 9000)
                except asyncio.TimeoutError:
                    found, finder, fin = [], sim.traces[-1], False
                problems += check_lookup(sim, i, finder, found, fin, t0, sim.loop.time())
                info['lookups'] += 1
        if case.get('disconnect') and live:
            # the searcher's own socket goes away in the middle of a lookup: the finder must close, not hang
            i = searchers[0]
            key = bytes(rng.randrange(256) for _ in range(48))
            t0 = sim.loop.time()
            task = sim.loop.create_task(sim.node_lookup(i, key) if rng.random() < 0.5 else sim.value_lookup(i, key))
            n_before = len(sim.traces)
            await asyncio.sleep(case['delay'][1] * rng.uniform(0.5, 1.5))
            sim.nodes[i].protocol.transport.closed = True
            for f in sim.traces[n_before:]:
                if f.protocol is sim.nodes[i].protocol:
                    f._ext_closed = True
            try:
                res = await asyncio.wait_for(task, 6000)
                fin = res[2] if len(res) == 3 else True
            except asyncio.TimeoutError:
                res, fin = ([], sim.traces[-1]), False
            res[1]._ext_closed = True
            problems += check_lookup(sim, i, res[1], [], fin, t0, sim.loop.time())
            info['lookups'] += 1
        info['hostile_answered'] = sum(h.answered for h in sim.hostiles)
        return problems
    try:
        problems = sim.run(go())
        return info, problems, sim.traces
    finally:
        sim.close()


# ==============================================================================================
# driver
# ==============================================================================================

def compare_traces(run, model, traces, label, rng, cap):
    """replay recorded finder traces through the model; value finders and traces that saw a failure first"""
    def weight(f):
        rare = any(r.get('exc') == 'TransportNotConnected' or r.get('escaped') for r in f._events)
        return (0 if rare else 1, 0 if f.KIND == 'value' else 1, -len(f._events))
    if run.tier == 'thorough':
        cap *= 3
    chosen = sorted(traces, key=weight)[:cap // 2]
    rest = [f for f in traces if f not in chosen]
    rng.shuffle(rest)
    chosen += rest[:cap - len(chosen)]
    for f in chosen:
        if not getattr(f, '_meta', None) or getattr(f, '_cut', False) or len(f._events) > 1500:
            continue
        case, impl, mod, res = compare_trace(run, model, f, label)
        small = {'part': 'finder-trace', 'label': label, 'kind': f.KIND, 'searcher': f._meta['searcher'],
                 'key': f._meta['key'], 'events': len(case['request']['events'])}
        run.case(small, nontrivial=len(case['request']['events']) > 2, sample=False)
        run.count('trace:%s:events<=%d' % (f.KIND, 1 << max(0, len(case['request']['events']) - 1).bit_length()))
        kinds = {e['e'] for e in case['request']['events']}
        for k in kinds:
            run.count('trace-event:' + k)
        ok = run.compare('C12.frun', {'label': label, 'request': case['request']}, impl, mod)
        # the proved bound, evaluated on the real trace
        if ok and res['sched'] > res['seeds'] + 33 * max(1, len(f._learned)):
            run.violation(small, 'probes exceed the proved bound', signature=None)
    return len(chosen)


def do_case(run, model, case, rng=None):
    """run one self-contained case (also used by replay); returns nothing, records into run"""
    rng = rng or random.Random(case.get('seed', 1))
    part = case['part']
    reseed(case)
    if part == 'ds':
        impl, mod, problems = run_ds_case(run, model, case)
        run.case(case, nontrivial=any(o[0] == 'get' for o in case['ops']))
        run.count('ds:ops<=%d' % (1 << max(0, len(case['ops']) - 1).bit_length()))
        if problems:
            run.violation(case, problems[0], signature={'part': 'ds', 'ops': case['ops'][:40]})
        else:
            run.compare('C12.ds', case, impl, mod)
    elif part == 'pages':
        impl, mod, problems = run_pages_case(run, model, case)
        run.case(case, nontrivial=case['n'] > 0)
        run.count('pages:%s' % case['variant'])
        if problems:
            run.violation(case, problems[0], signature={'part': 'pages', 'n': case['n'], 'variant': case['variant']})
        else:
            run.compare('C12.serve_page', case, impl, mod)
    elif part == 'compact':
        impl, mod, problems = run_compact_case(run, model, case)
        run.case(case, nontrivial=True)
        run.count('compact:' + impl)
        if problems:
            run.violation(case, problems[0], signature={'part': 'compact', 'bs': case['bs']})
        else:
            run.compare('C12.decode_compact', case, impl, mod)
    elif part == 'paging_sim':
        impl, mod, problems, traces = run_paging_sim(run, model, case)
        run.case(case, nontrivial=case['n'] > 0)
        run.count('paging_sim:n<=%d' % (1 << max(0, case['n'] - 1).bit_length()))
        if problems:
            run.violation(case, problems[0], signature={'part': 'paging_sim', 'n': case['n']})
        else:
            run.compare('C12.walk', case, impl, mod)
        compare_traces(run, model, [t for t in traces if t.KIND == 'value'], 'paging_sim n=%d' % case['n'], rng, 3)
    elif part == 'crafted_loss':
        info, problems, traces = run_crafted_loss(run, model, case)
        run.case(case, nontrivial=True)
        run.count('crafted_loss')
        if problems:
            run.violation(case, problems[0], signature={'part': 'crafted_loss', 'n_ann': case['n_ann'], 'seed': case['seed']})
        compare_traces(run, model, [t for t in traces if t.KIND == 'value'], 'crafted_loss', rng, 2)
    elif part == 'many':
        info, problems, traces = run_many_case(run, model, case)
        run.case(case, nontrivial=True)
        run.count('many:ann=%d' % case['ann'])
        for p in problems[:3]:
            run.violation(case, p, signature={'part': 'many', 'n': case['n'], 'ann': case['ann'], 'seed': case['seed']})
        compare_traces(run, model, [t for t in traces if t.KIND == 'value'], 'many ann=%d seed=%d' % (case['ann'], case['seed']),
                       rng, case.get('trace_cap', 12))
    elif part == 'pingq':
        impl, mod, problems = run_pingq_case(run, model, case)
        run.case(case, nontrivial=len(case['ops']) > 1)
        run.count('pingq')
        if problems:
            run.violation(case, problems[0], signature={'part': 'pingq', 'ops': case['ops'][:20]})
        else:
            run.compare('C12.pq', case, impl, mod)
    elif part == 'storeport':
        impl, mod, problems = run_storeport_case(run, model, case)
        run.case(case, nontrivial=True)
        run.count('storeport')
        if problems:
            run.violation(case, problems[0], signature={'part': 'storeport'})
        else:
            run.compare('C12.store_port_ok', case, impl, mod)
    elif part in ('lowport', 'cancel', 'busy', 'reannounce'):
        runner = {'lowport': run_lowport_case, 'cancel': run_cancel_case, 'busy': run_busy_case,
                  'reannounce': run_reannounce_case}[part]
        info, problems, traces = runner(run, model, case)
        run.case(case, nontrivial=True)
        run.count(part + ':n=%d' % case['n'])
        for p in problems[:3]:
            run.violation(case, p, signature={'part': part, 'n': case['n'], 'seed': case['seed']})
        compare_traces(run, model, [t for t in traces if t.KIND == 'value'], '%s n=%d seed=%d' % (part, case['n'], case['seed']),
                       rng, 12)
    elif part == 'lastcrash':
        info, problems, traces = run_lastcrash_case(run, model, case)
        run.case(case, nontrivial=True)
        run.count('lastcrash:' + case['kind'])
        for p in problems[:3]:
            run.violation(case, p, signature={'part': 'lastcrash', 'kind': case['kind'], 'seed': case['seed']})
        compare_traces(run, model, [t for t in traces if any(r.get('escaped') for r in t._events)],
                       'lastcrash %s seed=%d' % (case['kind'], case['seed']), rng, 10)
    elif part == 'hearsay':
        info, problems, traces = run_hearsay_case(run, model, case)
        run.case(case, nontrivial=True)
        run.count('hearsay:n=%d' % case['n'])
        run.count('hearsay:found-key-events', info['found_key_events'])
        for p in problems[:3]:
            run.violation(case, p, signature={'part': 'hearsay', 'n': case['n'], 'seed': case['seed']})
        late = [t for t in traces if t.KIND == 'node' and t._meta['searcher'] == traces[-1]._meta['searcher']]
        compare_traces(run, model, late[-12:], 'hearsay n=%d seed=%d' % (case['n'], case['seed']), rng, 12)
    elif part == 'hit':
        info, problems, traces = run_hit_case(run, model, case)
        run.case(case, nontrivial=True)
        run.count('hit:n=%d' % case['n'])
        for p in problems[:3]:
            run.violation(case, p, signature={'part': 'hit', 'n': case['n'], 'seed': case['seed']})
        if info.get('guesses'):
            run.compare('C12.producer', {'part': 'hit', 'n': case['n'], 'seed': case['seed'], 'what': 'udp port pinged'},
                        {k: v[0] for k, v in info['guesses'].items()}, {k: v[1] for k, v in info['guesses'].items()})
            info.pop('guesses')
        compare_traces(run, model, traces, 'hit n=%d seed=%d' % (case['n'], case['seed']), rng, case.get('trace_cap', 60))
        return info
    elif part == 'fault':
        info, problems, traces = run_fault_case(run, model, case)
        run.case(case, nontrivial=True)
        run.count('fault:' + '+'.join(case['hostile']))
        run.count('fault:loss=%s' % case['loss'])
        for p in problems[:3]:
            run.violation(case, p, signature={'part': 'fault', 'hostile': case['hostile'], 'seed': case['seed']})
        compare_traces(run, model, traces, 'fault %s seed=%d' % ('+'.join(case['hostile']), case['seed']), rng,
                       case.get('trace_cap', 80))
        return info
    else:
        raise ValueError('unknown case part %r' % part)
    return None


def load_corpus():
    out = []
    if os.path.isdir(CORPUS):
        for nm in sorted(os.listdir(CORPUS)):
            if nm.endswith('.json'):
                body = json.load(open(os.path.join(CORPUS, nm)))
                out.extend(body if isinstance(body, list) else [body])
    return out


def main(run):
    model = vlib.Model('C12')
    rng = run.rng
    tier = run.tier
    t_start = _walltime.time()
    run.rule = (
        'A data store: op lists (add/get/expire/has/contacts, peers made bad/good through the real PeerManager) with times '
        'placed on ts+86400-2..+2 of earlier announcements; B1 findValue pages for n=0..K*35 x {plain, requester stored, '
        'node has blob} on the real KademliaRPC against an independent shuffle (random.Random(node_id)); B2 the real value '
        'finder paging one real storing node with n announcing peers (page boundaries 7,8,9,...,88,89,97,98,105,256,257,'
        '264,265); C compact addresses on every edge of the reserved networks x port edges x id lengths; E1 honest '
        'loss-free networks of 2..40 real Nodes, sampled join orders/gaps, delay up to 2 s with reordering and '
        'duplication, 1-3 announcers using the BlobAnnouncer retry rule, lookups from every node fresh / +12h / 24h-150s '
        '/ 24h+; E1b honest networks of 10..40 nodes (thorough: up to 110) where 9..100 of the nodes announce the same blob with announce_blob '
        'and every node must find every announcer; E2 networks with datagram loss 0-50%%, delay up to 7 s, dead nodes and a fixed catalogue of %d hostile '
        'reply kinds; D every finder that ran in B2/E1/E2 (incl. join/refresh/announce lookups) is replayed event by event '
        'through the extracted model. distinct = distinct case dict (seeded scenarios / op lists / byte strings / finder '
        'traces by searcher+key+length). Round 5: nodes are built with a CONFIGURED rpc_timeout (0.25 / 0.5 / 1 s with small delays and silent '
        'nodes; 12 / 20 s with one-way delays of 2.6-7 s so that replies slower than the default 5 s must still count) and every duration '
        'bound is in units of that timeout; a third of the networks use 15-character dotted quads with 5-digit ports '
        '(203.104.1xx.1yy:44444), B1 sends every findValue page through the real _send with >= K such contacts and compares the '
        'datagram size with the model; announcers on shifted port layouts (tcp 3334/udp 4445, tcp 3399/udp 4510, 5000/5000) are looked '
        'up through Node.accumulate_peers from every node; E2a a fixed family: a late joiner looks up the exact id of a node that '
        'died before it joined, of a silent node and of a live node whose datagrams to it are all lost; E2b a fixed family: the node whose reply is decodable but of '
        'the wrong shape (int result, findValue dict without token, 2-byte compact address) is the only shortlist entry or the '
        'slowest to answer, so its probe is the last to complete; E1c fixed families: searches (Node.accumulate_peers) cancelled by their consumer '
        'while the probe to a slow announcer is unanswered, then lookups right after and one hour later; a joiner that issues one lookup '
        'per minute for 90 virtual minutes, then a blob whose hash is closest to it; a node announcing a privileged tcp port next to '
        'an honest announcer; replies delivered in bursts (one loop iteration) with an empty-handed closer node answering just before '
        'the paging node; KademliaRPC.store over the port boundary list; the real BlobAnnouncer + SQLiteStorage of an active publisher over 40 virtual '
        'hours (blobs becoming due in different rounds), lookups whenever the publisher\'s books say announced < 24 h ago; non-trivial = contains at least one query (ds), n>0 (pages), >2 events (traces).'
        % len(FAULT_KINDS))
    supporting = {'hit_runs': 0, 'hit_lookups': 0, 'hit_misses': 0, 'stale_hits': 0, 'late_lookups': 0,
                  'stored_to': {}, 'closest_overlap': {}, 'announce_tries': {}, 'by_size': {},
                  'fault_runs': 0, 'fault_lookups': 0, 'alias_id_yields': 0, 'hostile_requests_answered': 0}

    def add_hit(info, n):
        if not info:
            return
        supporting['hit_runs'] += 1
        for cp in info['checkpoints'].values():
            supporting['hit_lookups'] += cp['lookups']
            supporting['hit_misses'] += cp['misses']
            supporting['stale_hits'] += cp['stale_hits']
            supporting['late_lookups'] += cp['late']
        for s in info['stored']:
            supporting['stored_to'][str(s)] = supporting['stored_to'].get(str(s), 0) + 1
        for got, of in info['closest_overlap']:
            k = '%d/%d' % (got, of)
            supporting['closest_overlap'][k] = supporting['closest_overlap'].get(k, 0) + 1
        for t in info['tries']:
            supporting['announce_tries'][str(t)] = supporting['announce_tries'].get(str(t), 0) + 1
        supporting['unconverged_announcements'] = supporting.get('unconverged_announcements', 0) + info.get('unconverged_announcements', 0)
        supporting['unconverged_misses'] = supporting.get('unconverged_misses', 0) + info.get('unconverged_misses', 0)
        bs = supporting['by_size'].setdefault(str(n), {'runs': 0, 'misses': 0})
        bs['runs'] += 1
        bs['misses'] += sum(cp['misses'] for cp in info['checkpoints'].values())

    def add_fault(info):
        if not info:
            return
        supporting['fault_runs'] += 1
        supporting['fault_lookups'] += info['lookups']
        supporting['alias_id_yields'] += info['alias_yields']
        supporting['hostile_requests_answered'] += info['hostile_answered']

    # ---- corpus first
    for case in load_corpus():
        if case.get('tier') == 'thorough' and tier != 'thorough':
            continue
        info = do_case(run, model, case, random.Random(1))
        if case['part'] == 'hit':
            add_hit(info, case['n'])
        elif case['part'] == 'fault':
            add_fault(info)

    # ---- A
    for i in range(vlib.scaled(tier, 400, 8000)):
        do_case(run, model, gen_ds_ops(rng, rng.choice([5, 12, 30, 60])))
    # ---- B1
    ns = list(range(0, 41)) + [63, 64, 65, 71, 72, 73, 88, 89, 96, 97, 98, 99, 104, 105, 255, 256, 257, 263, 264, 265, 280]
    if tier == 'thorough':
        ns = list(range(0, K * 35 + 1))
    for n in ns:
        for variant in ('plain', 'requester_is_stored', 'has_blob', 'long_contacts'):
            do_case(run, model, {'part': 'pages', 'n': n, 'variant': variant, 'seed': rng.randrange(1000)})
    # ---- C
    for ip in boundary_ips():          # every edge of every reserved network, deterministically
        for port in (1023, 1024, 3333, 65535):
            do_case(run, model, {'part': 'compact', 'bs': (ip.to_bytes(4, 'big') + port.to_bytes(2, 'big') + b'\x07' * 48).hex()})
    for b in gen_compacts(rng, vlib.scaled(tier, 3000, 60000)):
        do_case(run, model, {'part': 'compact', 'bs': b.hex()})
    # ---- B2
    b2 = [0, 1, 7, 8, 9, 16, 17, 33, 64, 88, 89, 97, 98, 105]
    if tier == 'thorough':
        b2 = sorted(set(b2 + list(range(0, 41)) + [96, 99, 104, 128, 200, 255, 256, 257, 263, 264, 265, 270]))
    for n in b2:
        do_case(run, model, {'part': 'paging_sim', 'n': n, 'seed': rng.randrange(1000)}, rng)
    # ---- E1
    if tier == 'thorough':
        sizes = list(range(2, 41)) * 2
    else:
        sizes = [2, 3, 4, 5, 6, 8, 11, 15, 21, 28, 40]
    for idx, n in enumerate(sizes):
        case = gen_hit_case(rng, n, idx)
        if tier == 'thorough' and idx % 13 == 0 and n <= 12:
            case['passage'] = 'real'
        if tier != 'thorough' and n == 5:
            case['passage'] = 'real'
        add_hit(do_case(run, model, case, rng), n)
    # ---- E1b: many announcers on the K storing nodes of an honest network
    many = [(24, 20, 'short'), (12, 11, 'long'), (40, 30, 'long')] if tier != 'thorough' else \
        [(10, 9, 'long'), (12, 11, 'short'), (20, 19, 'long'), (30, 24, 'short'), (40, 17, 'long'), (40, 30, 'short'),
         (40, 39, 'long'), (70, 60, 'short'), (70, 60, 'long'), (110, 100, 'short'), (110, 100, 'long')]
    for n, a, addr in many:
        do_case(run, model, {'part': 'many', 'n': n, 'ann': a, 'addr': addr, 'seed': rng.randrange(1 << 30),
                             'delay': [0.001, rng.choice([0.05, 0.5, 1.5])], 'dup': rng.choice([0.0, 0.2]),
                             'settle': rng.choice([0, 300, 1300])}, rng)
    for _ in range(vlib.scaled(tier, 150, 3000)):
        do_case(run, model, gen_pingq_ops(rng, rng.choice([3, 8, 20])))
    # ---- E1c: fixed families for cancellation, a busy joiner, a privileged tcp port, the paging race
    do_case(run, model, {'part': 'storeport', 'ports': [-1, 0, 1, 80, 1023, 1024, 1025, 3333, 65534, 65535, 65536, 70000]})
    for idx in range(vlib.scaled(tier, 2, 12)):
        do_case(run, model, {'part': 'cancel', 'n': [5, 8, 12][idx % 3], 'seed': rng.randrange(1 << 30),
                             'delay': [0.001, [0.05, 0.2][idx % 2]], 'rpc_timeout': [None, 2.0][idx % 2]}, rng)
        do_case(run, model, {'part': 'lowport', 'n': [5, 9, 12][idx % 3], 'port': [80, 443, 1023, 1][idx % 4],
                             'seed': rng.randrange(1 << 30), 'delay': [0.001, 0.1]}, rng)
    for idx in range(vlib.scaled(tier, 1, 6)):
        do_case(run, model, {'part': 'busy', 'n': [11, 14][idx % 2], 'minutes': 90, 'seed': rng.randrange(1 << 30),
                             'delay': [0.001, 0.1]}, rng)
    for idx in range(vlib.scaled(tier, 1, 4)):
        do_case(run, model, {'part': 'reannounce', 'n': [6, 9][idx % 2], 'seed': rng.randrange(1 << 30), 'delay': [0.001, 0.1],
                             'schedule': [['T+6h', 6, 'B'], ['T+15h', 15, 'C'], ['T+24h10m', 24.17, None], ['T+30h', 30, 'D'],
                                          ['T+40h', 40, None]]}, rng)
    for n_ann in ([8, 20, 33] if tier != 'thorough' else [8, 9, 16, 17, 20, 24, 33, 64, 100]):
        do_case(run, model, {'part': 'paging_sim', 'n': n_ann, 'seed': rng.randrange(1000), 'race': {'period': [0.2, 0.4][n_ann % 2]}}, rng)
    # ---- E2a: lookups for the exact id of a dead / silent / never-heard node by a late joiner (fixed family)
    for idx in range(vlib.scaled(tier, 4, 40)):
        do_case(run, model, {'part': 'hearsay', 'n': [6, 9, 12, 16][idx % 4], 'seed': rng.randrange(1 << 30),
                             'delay': [0.001, [0.05, 0.3, 1.0][idx % 3]], 'dup': [0.0, 0.2][idx % 2],
                             'settle': [700, 1500][idx % 2], 'addr': 'long' if idx % 4 == 3 else 'short'}, rng)
    # ---- E2b: the malformed reply that kills the probe task is the last probe of the lookup to complete (fixed family)
    for idx in range(vlib.scaled(tier, 3, 24)):
        do_case(run, model, {'part': 'lastcrash', 'n': [4, 7, 10][idx % 3], 'kind': ['int_reply', 'no_token', 'short_compact'][idx % 3],
                             'seed': rng.randrange(1 << 30), 'delay': [0.001, [0.05, 0.2][idx % 2]]}, rng)
    # ---- E2
    for idx in range(vlib.scaled(tier, 16, 240)):
        add_fault(do_case(run, model, gen_fault_case(rng, idx), rng))

    run.partial = [
        'whole-network hit guarantee ("every other node\'s value lookup returns the announcer"): depends on global '
        'routing convergence, no inductive invariant; explored by simulation of the real nodes only (supporting_only)',
        'time bound: the theorems bound the NUMBER of probes (C12_finder_terminates*); that each probe ends within one '
        'RPC timeout is a property of asyncio.wait_for in KademliaProtocol.send_request, checked by the monitor on every '
        'simulated lookup, not proved',
        'routing table, ping queue, token handling and join/refresh are exercised by the simulation but not modelled',
    ]
    supporting['note'] = ('supporting evidence only, never an obligation. An announcement counts once announce_blob() '
                          'returned >= min(5, n-1) node ids (the BlobAnnouncer success rule; it retries every 60 s before); its misses only count as '
                          'violations when the announcement reached at least half of the nodes truly closest to the hash (else the network had '
                          'not converged when it was made: unconverged_announcements / unconverged_misses); its age is judged by the '
                          'timestamps in the storing nodes (a duplicated store datagram may refresh it after announce_blob returned). '
                          '"replied" for node lookups is judged per (address, port); alias_id_yields counts yielded contacts '
                          'whose node id nobody owns (hostile alias_contacts / claims_key replies) - reported here only.')
    supporting['wall_s'] = round(_walltime.time() - t_start, 1)
    run.supporting = supporting
    run.exhaustive = False
    model.close()


def replay(run, case):
    model = vlib.Model('C12')
    if case.get('part') == 'finder-trace' and 'request' not in case:
        run.notes.append('finder traces are replayed through the scenario that produced them (see label)')
    elif 'request' in case:       # a disagreeing trace: re-run the model side only and show it
        res = model.call('frun', **case['request'])
        run.notes.append({'model': res})
        run.case({'part': 'finder-trace', 'label': case.get('label')})
    else:
        do_case(run, model, case, random.Random(1))
    model.close()
