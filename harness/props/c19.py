"""C19  Disk cleanup deletes only when over a limit and never the user's own blobs.

Correspondence of Model/C19.v (run / clean_pass / cands / usage) with the REAL
lbry.blob.disk_space_manager.DiskSpaceManager over a real SQLiteStorage + BlobManager in a temp dir
(rows in blob / stream / stream_blob / file, blob files on disk), and the property monitor: the
property's own sentences evaluated on raw table snapshots taken with an independent sqlite3
connection and an independent (plain Python) classification of the rows.
"""
import asyncio
import collections
import glob
import hashlib
import json
import os
import shutil
import sqlite3
import tempfile

import lbry.wallet  # noqa: F401  (import order)
import lbry.blob.blob_file as blob_file_module
from lbry.conf import Config
from lbry.extras.daemon.storage import SQLiteStorage
from lbry.blob.blob_manager import BlobManager
from lbry.blob.disk_space_manager import DiskSpaceManager
from lbry.blob.blob_file import BlobFile
from lbry.extras.daemon.migrator.dbmigrator import migrate_db
from lbry.stream.descriptor import StreamDescriptor
from lbry.stream.stream_manager import StreamManager
from lbry.schema.claim import Claim
from lbry.blob_exchange.server import BlobServer
from lbry.stream.background_downloader import BackgroundDownloader
import socket

import vlib

MIB = 1 << 20
CORPUS = os.path.join(os.path.dirname(os.path.abspath(__file__)), '..', 'corpus', 'C19')
FLOAT_BASE = 1600000000


def hx(i):
    """model id -> 96 hex chars (valid blob hash / stream hash)"""
    return hashlib.sha384(b'c19:%d' % i).hexdigest()


# ----------------------------------------------------------------------------------------------
# raw snapshots (independent connection, plain selects, no lbry query)
# ----------------------------------------------------------------------------------------------

Snap = collections.namedtuple('Snap', 'blobs sblobs streams files file_status disk')


def snapshot(dbpath, blob_dir, unhex, added_back):
    con = sqlite3.connect(dbpath)
    try:
        blobs = [(unhex[h], ln, added_back(a), bool(m), s == 'finished')
                 for h, ln, a, m, s in con.execute(
                     'select blob_hash, blob_length, added_on, is_mine, status from blob order by rowid')]
        sblobs = [(unhex[sh], unhex[bh]) for sh, bh in con.execute(
            'select stream_hash, blob_hash from stream_blob order by rowid') if bh is not None]
        streams = [(unhex[sh], unhex[sd]) for sh, sd in con.execute('select stream_hash, sd_hash from stream order by rowid')]
        frows = list(con.execute('select stream_hash, status from file order by rowid'))
        files = [unhex[sh] for sh, _ in frows]
        status = [s for _, s in frows]
    finally:
        con.close()
    disk = sorted(unhex[n] for n in os.listdir(blob_dir) if n in unhex)
    return Snap(blobs, sblobs, streams, files, status, disk)


def all_blobs(db):
    """rows of table blob of a case's start state; rows of a pre-upgrade (revision 14) database come out of the 14->15
    migration with added_on = 0 and is_mine = 1"""
    return [[h, ln, 0, True, fin] for h, ln, fin in db.get('legacy', [])] + list(db['blobs'])


REV14_BLOB_TABLE = """
            create table blob (
                blob_hash char(96) primary key not null,
                blob_length integer not null,
                next_announce_time integer not null,
                should_announce integer not null default 0,
                status text not null,
                last_announced_time integer,
                single_announce integer
            );
"""


def rev14_schema():
    """the schema of db_revision 14: table blob without added_on / is_mine (the other tables did not change up to 16)"""
    script = SQLiteStorage.CREATE_TABLES_QUERY
    start = script.index("create table if not exists blob (")
    end = script.index(");", start) + 2
    script = script[:start] + REV14_BLOB_TABLE + script[end:]
    return script.replace("create index if not exists blob_data on blob(blob_hash, blob_length, is_mine);", "")


def mb(n):
    return n // MIB


def classify(s, ignore=(), seeded=()):
    """independent reading of the storage classes: bytes per class and the removable rows of each pass.
    ignore: hashes treated as not stored (rows whose file was already gone at the last restart)
    seeded: hashes known to have arrived through the BackgroundDownloader (network seeding): they ARE network storage,
            whatever rows the download left behind"""
    sd_hashes = {sd for _, sd in s.streams}
    sb_count = collections.Counter(bh for _, bh in s.sblobs)
    net = content = private = 0
    for h, ln, _a, mine, fin in s.blobs:
        if not fin or (h in sd_hashes and h not in seeded) or h in ignore:
            continue
        k = 0 if h in seeded else sb_count.get(h, 0)
        if k == 0:
            net += ln
            if mine:
                private += ln
        elif mine:
            private += ln * k
        else:
            content += ln * k
    stream_n = collections.Counter(sh for sh, _ in s.streams)
    file_n = collections.Counter(s.files)
    streams_of_blob = collections.defaultdict(list)
    for sh, bh in s.sblobs:
        streams_of_blob[bh].append(sh)
    streams_of_sd = collections.defaultdict(list)
    for sh, sd in s.streams:
        streams_of_sd[sd].append(sh)
    removable = {False: [], True: []}      # rows (hash, len, added) with join multiplicity
    for h, ln, a, mine, fin in s.blobs:
        if mine:
            continue
        if h in seeded:
            if fin:
                removable[True].append((h, ln, a))
            continue
        if fin:
            for sh in streams_of_blob.get(h, ()):
                removable[False] += [(h, ln, a)] * (stream_n.get(sh, 0) * file_n.get(sh, 0))
        for sh in streams_of_sd.get(h, ()):
            removable[False] += [(h, ln, a)] * file_n.get(sh, 0)
        if fin and sb_count.get(h, 0) == 0 and h not in sd_hashes:   # a stream's descriptor is no class's storage
            removable[True].append((h, ln, a))
    return {'net': net, 'content': content, 'private': private, 'removable': removable,
            'used': {True: mb(net), False: mb(content) + mb(private)}, 'sd_hashes': sd_hashes}


def well_formed(s):
    sd_hashes = {sd for _, sd in s.streams}
    return (len({sh for sh, _ in s.streams}) == len(s.streams) and len(set(s.files)) == len(s.files)
            and all(ln < MIB for h, ln, _a, _m, _f in s.blobs if h in sd_hashes))


def monitor_pass(p, prev):
    """p: dict(net, limit, pre, post, deleted, ret). Returns (text, clause) or None."""
    net, limit, pre, post, deleted, ret = p['net'], p['limit'], p['pre'], p['post'], p['deleted'], p['ret']
    c = classify(pre)
    used = c['used'][net]
    rows = {b[0]: b for b in pre.blobs}
    if p.get('exc'):
        gone = [h for h in pre.disk if h not in set(post.disk)]
        return (f"the pass raised {p['exc']}: {len(gone)} blob file(s) were deleted, {len(pre.blobs) - len(post.blobs)} row(s) "
                f"removed, usage after {classify(post)['used'][net]} MB (limit {limit} MB)"), 'pass-raised'
    if ret != len(deleted):
        return f'_clean returned {ret} but handed {len(deleted)} hashes to delete_blobs', 'return-value'
    if used <= limit and deleted:
        return f'usage {used} MB is within the limit {limit} MB but {len(deleted)} blob(s) were deleted', 'within-limit'
    if not net and limit == 0 and deleted:
        return f'content storage is unlimited (limit 0) but {len(deleted)} blob(s) were deleted', 'unlimited'
    for h in deleted:
        if h not in rows:
            return f'deleted hash {h} was not a row of table blob', 'unknown-hash'
        if rows[h][3]:
            return f"blob {h} is the user's own (is_mine=1) and was deleted", 'own-deleted'
    removable_hashes = {r[0] for r in c['removable'][net]}
    for h in deleted:
        if net and h in c['sd_hashes'] and h not in removable_hashes:
            return (f'blob {h} is the descriptor (sd blob) of a stream: no storage class counts it, yet the network pass '
                    f'deleted it'), 'network-pass-deletes-stream-descriptor'
        if h not in removable_hashes:
            return (f'blob {h} was deleted by the {"network" if net else "content"} pass but is not a removable '
                    f'blob of that storage class'), 'wrong-class'
    # exactly the deleted rows / files are gone, everything else is untouched
    dset = set(deleted)
    post_have = {b[0] for b in post.blobs}
    kept = [h for h in deleted if h in set(pre.disk) and h in set(post.disk) and h not in post_have]
    if kept:
        # the pass "removed" these blobs (row dropped, megabytes credited) but the space is still taken: what is stored
        # after the pass = rows left + the evicted blobs whose file is still there
        stored = classify(post._replace(blobs=post.blobs + [rows[h] for h in dict.fromkeys(kept)]))['used'][net]
        return (f'blob {kept[0]} was evicted by the {"network" if net else "content"} pass (row dropped, {mb(rows[kept[0]][1])} MB '
                f'accounted as freed) but its file is still in the blob directory ({len(kept)} such file(s)): the space really '
                f'used by this class after the pass is {stored} MB, limit {limit} MB, the table says {classify(post)["used"][net]} MB'
                + ('; a peer was reading the blob while the pass ran' if set(kept) & set(p.get('serving') or ()) else '')), \
            'evicted-file-kept'
    if post.blobs != [b for b in pre.blobs if b[0] not in dset]:
        return 'blob rows after the pass are not (rows before) minus (deleted hashes)', 'rows-changed'
    if post.disk != [h for h in pre.disk if h not in dset]:
        return 'blob files after the pass are not (files before) minus (deleted hashes)', 'files-changed'
    if (post.sblobs, post.streams, post.files) != (pre.sblobs, pre.streams, pre.files):
        return 'stream / stream_blob / file rows changed', 'other-tables-changed'
    post_rows = set(post.blobs)
    for b in pre.blobs:
        if b[3] and b not in post_rows:
            return f'own blob {b[0]} lost its row', 'own-deleted'
    wfpre = well_formed(pre)
    cpost = classify(post)
    excess = used - limit
    cred_all = sum(mb(r[1]) for r in c['removable'][net])
    if (net or limit != 0) and used > limit and wfpre and cred_all >= excess and cpost['used'][net] > limit:
        return (f'enough removable blobs existed (accounted {cred_all} MB >= excess {excess} MB) but usage after the '
                f'pass is {cpost["used"][net]} MB > limit {limit} MB'), 'limit-not-reached'
    if deleted:
        cred = [mb(rows[h][1]) for h in deleted]
        if sum(cred[:-1]) >= excess:
            return (f'deletion continued although the accounted space freed ({sum(cred[:-1])} MB) already covered '
                    f'the excess ({excess} MB)'), 'overshoot'
        freed = sum(rows[h][1] for h in dset)
        if freed >= (excess + cred[-1] + len(deleted)) * MIB:
            return f'{freed} bytes freed for an excess of {excess} MB', 'overshoot-bytes'
    if prev is not None and prev['net'] == net and prev['limit'] == limit and prev['post'] == pre \
            and well_formed(prev['pre']) and deleted:
        return f'a second pass right after the first deleted {len(deleted)} more blob(s)', 'second-pass'
    return None


def monitor_clean(c):
    """one cleanup pass = one clean() call: afterwards BOTH classes are within their limits whenever enough removable
    blobs existed for them (content judged on the state before the call, network on the state the content pass left)."""
    pre, post = c['pre'], c['post']
    cpost = classify(post)
    if well_formed(pre):
        cp = classify(pre)
        used, lim = cp['used'][False], c['cl']
        if lim != 0 and used > lim and sum(mb(r[1]) for r in cp['removable'][False]) >= used - lim \
                and cpost['used'][False] > lim:
            return (f'after clean() content usage is {cpost["used"][False]} MB > limit {lim} MB although enough removable '
                    f'blobs existed'), 'clean-limit-not-reached'
    # the state in which the network pass has to run: what the content pass left (it always runs first)
    content_passes = [p for p in c['passes'] if not p['net']]
    mid = content_passes[0]['post'] if content_passes else pre
    if well_formed(mid):
        cm = classify(mid)
        used, lim = cm['used'][True], c['nl']
        if used > lim and sum(mb(r[1]) for r in cm['removable'][True]) >= used - lim and cpost['used'][True] > lim:
            return (f'after clean() network usage is {cpost["used"][True]} MB > limit {lim} MB although enough removable '
                    f'network blobs existed (accounted {sum(mb(r[1]) for r in cm["removable"][True])} MB >= excess {used - lim} MB)'
                    + ('; the network pass did not run' if not any(p['net'] for p in c['passes']) else '')), \
                'clean-limit-not-reached'
    return None


# ----------------------------------------------------------------------------------------------
# implementation adapter
# ----------------------------------------------------------------------------------------------

def resolve_limit(rng_choice, used, real=None):
    """used: usage as the storage accounts it; real: usage counting only rows whose blob file is in the directory"""
    kind, arg = rng_choice
    real = used if real is None else real
    if kind == 'real_eq':
        return real
    if kind == 'real_above':
        return real + arg % 3
    if kind == 'abs':
        return arg
    if kind == 'zero':
        return 0
    if kind == 'eq':
        return used
    if kind == 'below1':
        return used - 1
    if kind == 'above1':
        return used + 1
    if kind == 'below':
        return (arg % used) if used > 0 else -1 - (arg % 3)
    if kind == 'above':
        return used + 1 + arg % 40
    if kind == 'neg':
        return -1 - arg % 5
    raise ValueError(kind)


async def _build_real(loop, d, bd, st, bm, conf, spec):
    """state produced by the application's own code paths: the user's own streams through the real
    StreamManager.create() (publishing), downloads as StreamDescriptor.create_stream + storage.store_stream +
    save_published_file + update_blob_ownership(False) (as upstream's integration test does), the claim rows a publish /
    download stores (start-up recovery only looks at files that have one), BlobFile.create_from_unencrypted +
    blob_completed for network-seeded blobs.  Returns (hashes the user published, descriptor hash per stream)."""
    async def settle():
        for _ in range(50):
            pend = [t for t in asyncio.all_tasks() if t is not asyncio.current_task()]
            if not pend:
                break
            await asyncio.wait(pend, timeout=5)
    conf.reflect_streams = False
    sm = StreamManager(loop, conf, bm, None, st, None)
    published, sds = [], []
    for i, sp in enumerate(spec['streams']):
        path = os.path.join(d, 'src%d' % i)
        with open(path, 'wb') as f:
            f.write(bytes([i + 1]) * sp['size'])
        if sp['mine']:
            stream = await sm.create(path)
            descriptor = stream.descriptor
            await settle()
            published += [descriptor.sd_hash] + [b.blob_hash for b in descriptor.blobs[:-1]]
            has_file = True
        else:
            descriptor = await StreamDescriptor.create_stream(loop, bd, path, blob_completed_callback=bm.blob_completed)
            await settle()
            await st.store_stream(bm.get_blob(descriptor.sd_hash), descriptor)
            has_file = sp['file']
            if has_file:
                await st.save_published_file(descriptor.stream_hash, 'src%d' % i, d, 0)
            await st.update_blob_ownership(descriptor.sd_hash, False)
        if has_file:
            claim = Claim()
            claim.stream.source.sd_hash = descriptor.sd_hash
            txid = ('%02x' % (i + 1)) * 32
            await st.save_claims([{'txid': txid, 'nout': 0, 'claim_id': ('%02x' % (i + 1)) * 20, 'name': 'n%d' % i,
                                   'amount': '1.0', 'height': 1, 'address': 'bYFeMtSL7ARuG1iMpjFyrnTe4oJHSAVNXF',
                                   'claim_sequence': 1, 'value': claim}])
            await st.save_content_claim(descriptor.stream_hash, txid + ':0')
        sds.append(descriptor.sd_hash)
        os.remove(path)
    for j, size in enumerate(spec['net']):
        await BlobFile.create_from_unencrypted(loop, bd, bytes([j + 1]) * 16, bytes([j + 7]) * 16, bytes([j]) * size, 0,
                                               1600000000 + j, False, bm.blob_completed)
    await settle()
    sm.stop()
    seeded = []
    if spec.get('seeded'):
        # network seeding as it really happens: a peer (second node, loopback BlobServer) hosts streams and THIS node fetches
        # them through BackgroundDownloader.download_blobs()
        pdir = os.path.join(d, 'peer')
        os.mkdir(pdir)
        pconf = Config(data_dir=pdir, wallet_dir=pdir, download_dir=pdir, config=os.path.join(pdir, 'c.yml'),
                       tracker_servers=[], reflector_servers=[], fixed_peers=[], track_bandwidth=False)
        pst = SQLiteStorage(pconf, os.path.join(pdir, 'lbrynet.sqlite'))
        await pst.open()
        pbm = BlobManager(loop, pdir, pst, pconf)
        await pbm.setup()
        descs = []
        for j, size in enumerate(spec['seeded']):
            path = os.path.join(pdir, 'seed%d.bin' % j)
            with open(path, 'wb') as f:
                f.write(bytes([100 + j]) * size)
            descs.append(await StreamDescriptor.create_stream(loop, pdir, path, blob_completed_callback=pbm.blob_completed))
        await settle()
        sock = socket.socket()
        sock.bind(('127.0.0.1', 0))
        port = sock.getsockname()[1]
        sock.close()
        server = BlobServer(loop, pbm, 'bQEaw42GXsgCAGio1nxFncJSyRmnztSCjP')
        server.start_server(port, '127.0.0.1')
        await server.started_listening.wait()
        conf.tracker_servers = []
        conf.fixed_peers = [('127.0.0.1', port)]
        conf.blob_download_timeout = 5.0
        try:
            for desc in descs:
                await asyncio.wait_for(BackgroundDownloader(conf, st, bm, None).download_blobs(desc.sd_hash), 60)
                seeded += [desc.sd_hash] + [b.blob_hash for b in desc.blobs[:-1]]
            for _ in range(5):
                await asyncio.sleep(0.03)
                await st.db.run(lambda t: None)
        finally:
            server.stop_server()
            pbm.stop()
            await pst.close()
    return published, sds, seeded


async def _run_impl(d, case):
    loop = asyncio.get_running_loop()
    db, mode = case.get('db'), case.get('added_mode', 'int')
    conf = Config(data_dir=d, wallet_dir=d, download_dir=d, config=os.path.join(d, 'c.yml'))
    dbpath = os.path.join(d, 'lbrynet.sqlite')
    cspec = case.get('conf') or {}
    if cspec.get('env'):
        # a limit supplied by the environment layer of the real Config (LBRY_BLOB_STORAGE_LIMIT / LBRY_NETWORK_STORAGE_LIMIT)
        conf.set_environment({'LBRY_BLOB_STORAGE_LIMIT': str(cspec['env'][0]), 'LBRY_NETWORK_STORAGE_LIMIT': str(cspec['env'][1])})
    intended = {False: conf.blob_storage_limit, True: conf.network_storage_limit}
    config_log = {False: [conf.blob_storage_limit], True: [conf.network_storage_limit]}
    config_sets = {False: [], True: []}

    def set_limit(net, v):
        """what settings_set / the API does: assign the setting (inside update_config() the config file layer too)"""
        name = 'network_storage_limit' if net else 'blob_storage_limit'
        upd = bool(cspec.get('update'))
        if upd:
            with conf.update_config() as c:
                setattr(c, name, v)
        else:
            setattr(conf, name, v)
        intended[net] = v
        config_sets[net].append([upd, v])
        config_log[net].append(getattr(conf, name))
    if db is not None and db.get('legacy'):
        # a data directory written by an older release: revision 14 schema, then the REAL upgrade path
        # (lbry.extras.daemon.migrator.dbmigrator.migrate_db, what DatabaseComponent.start() calls for an old db_revision)
        con = sqlite3.connect(dbpath)
        con.executescript(rev14_schema())
        con.execute('pragma foreign_keys=off')
        for h, ln, fin in db['legacy']:
            con.execute("insert into blob values (?,?,0,0,?,0,0)", (hx(h), ln, 'finished' if fin else 'pending'))
        for sh, sd in db['streams']:
            con.execute("insert into stream values (?,?,?,?,?)", (hx(sh), hx(sd), '00', '6e', '6e'))
        for pos, (sh, bh) in enumerate(db['sblobs']):
            con.execute("insert into stream_blob values (?,?,?,?)", (hx(sh), hx(bh), pos, '00' * 16))
        for sh in db['files']:
            con.execute("insert into file values (?, NULL, NULL, NULL, 0.0, 'running', 0, NULL, 5)", (hx(sh),))
        con.commit()
        con.close()
        with open(os.path.join(d, 'db_revision'), 'w') as f:
            f.write('14')
        migrate_db(conf, 14, 16)
        if not os.path.exists(dbpath):
            raise RuntimeError('migrate_db moved the database away (migration failed)')
    st = SQLiteStorage(conf, dbpath)
    await st.open()
    bd = os.path.join(d, 'blobfiles')
    os.mkdir(bd)
    bm = BlobManager(loop, bd, st, conf)
    dsm = DiskSpaceManager(conf, st, bm)
    lengths = {}
    derived = None
    real_sds = []
    if case.get('real') and db is None:
        real_published, real_sds, real_seeded = await _build_real(loop, d, bd, st, bm, conf, case['real'])
        con = sqlite3.connect(dbpath)
        unhex = {}
        try:
            for q in ('select blob_hash from blob order by rowid', 'select stream_hash from stream order by rowid',
                      'select sd_hash from stream order by rowid', 'select blob_hash from stream_blob order by rowid',
                      'select stream_hash from stream_blob order by rowid', 'select stream_hash from file order by rowid'):
                for (h,) in con.execute(q):
                    if h is not None and h not in unhex:
                        unhex[h] = len(unhex) + 1
            times = sorted({a for (a,) in con.execute('select added_on from blob')})
        finally:
            con.close()
        rank = {a: i + 1 for i, a in enumerate(times)}

        base = max(times) if times else 0    # real timestamps keep their order as ranks; the harness clock runs after them

        def fwd(a): return base + a
        def back(v): return rank[v] if v in rank else int(round(v - base))
        s0 = snapshot(dbpath, bd, unhex, back)
        derived = {'blobs': [list(b) for b in s0.blobs], 'sblobs': [list(x) for x in s0.sblobs],
                   'streams': [list(x) for x in s0.streams], 'files': list(s0.files), 'disk': list(s0.disk)}
        derived['published'] = sorted(unhex[h] for h in real_published)
        derived['seeded'] = sorted(unhex[h] for h in real_seeded if h in unhex)
        if len(derived['seeded']) != len(real_seeded):
            raise RuntimeError('background download did not fetch every blob of the seeded streams')
        db = derived
    else:
        ids = set()
        for b in all_blobs(db):
            ids.add(b[0])
            lengths[b[0]] = b[1]
        for sh, bh in db['sblobs']:
            ids.update((sh, bh))
        for sh, sd in db['streams']:
            ids.update((sh, sd))
        ids.update(db['files'])
        ids.update(db['disk'])
        for h, ln in db.get('file_sizes', []):   # size of blob files that have no row (complete files the table does not know)
            lengths.setdefault(h, ln)
        for o in case['ops']:
            if o[0] == 'add':
                ids.add(o[1][0])
            elif o[0] in ('delete', 'hide', 'restore') and o[1] != 'all':
                ids.update(o[1])
        unhex = {hx(i): i for i in ids}
        if mode == 'float':
            def fwd(a): return FLOAT_BASE + a / 1000.0
            def back(v): return int(round((v - FLOAT_BASE) * 1000))
        else:
            def fwd(a): return a
            def back(v): return v

        def ins(t):
            for h, ln, a, mine, fin in db['blobs']:
                t.execute("insert into blob values (?,?,0,0,?,0,0,?,?)",
                          (hx(h), ln, 'finished' if fin else 'pending', fwd(a), 1 if mine else 0))
                lengths[h] = ln
            if db.get('legacy'):
                return                      # the other tables were already in the old database
            for sh, sd in db['streams']:
                t.execute("insert into stream values (?,?,?,?,?)", (hx(sh), hx(sd), '00', '6e', '6e'))
            for pos, (sh, bh) in enumerate(db['sblobs']):
                t.execute("insert into stream_blob values (?,?,?,?)", (hx(sh), hx(bh), pos, '00' * 16))
            for sh in db['files']:
                t.execute("insert into file values (?, NULL, NULL, NULL, 0.0, 'running', 0, NULL, 5)", (hx(sh),))
        await st.db.run_with_foreign_keys_disabled(ins)

    names = {v: k for k, v in unhex.items()}

    def nm(h):
        return names.get(h) or hx(h)

    def mkfile(h, ln):
        with open(os.path.join(bd, nm(h)), 'wb') as f:
            f.truncate(ln if 0 < ln <= 4 * MIB else 1)
    if derived is None:
        for h in db['disk']:
            mkfile(h, lengths.get(h, 1))
        for h in case.get('loaded', []):
            if h in db['disk']:
                bm.get_blob(nm(h))

    passes = []          # every _clean call, monitored
    captured = []
    box = {}
    serving_open = []

    def serve_blobs():
        """peers are being served: the blobs in case['serving'] have an open reader (blob.reader_context(), what
        BlobServer's sendfile holds for the duration of a transfer) on the current BlobManager"""
        del serving_open[:]
        for h in case.get('serving', []):
            if not os.path.isfile(os.path.join(bd, nm(h))):
                continue
            blob = box['bm'].get_blob(nm(h))
            if not blob.is_readable():
                continue
            ctx = blob.reader_context()
            handle = ctx.__enter__()
            handle.read(100)
            serving_open.append(ctx)

    def stop_serving():
        while serving_open:
            try:
                serving_open.pop().__exit__(None, None, None)
            except Exception:
                pass

    def watch_bm(b):
        orig = b.delete_blobs

        async def delete_blobs(blob_hashes, delete_from_db=True):
            captured.append(([unhex.get(x, x) for x in blob_hashes], delete_from_db))
            return await orig(blob_hashes, delete_from_db)
        b.delete_blobs = delete_blobs
        box['bm'], box['orig_delete'] = b, orig
    watch_bm(bm)
    serve_blobs()
    away = os.path.join(d, 'away')
    os.mkdir(away)
    orig_clean = dsm._clean

    async def watched_clean(is_network_blob=False):
        net = bool(is_network_blob)
        limit = intended[net]                # the limit the user configured (what the Config layers make of it is compared apart)
        pre = snapshot(dbpath, bd, unhex, back)
        cands = await st.get_stored_blobs(is_mine=False, is_network_blob=net)
        del captured[:]
        exc = None
        try:
            ret = await orig_clean(is_network_blob)
        except Exception as e:               # a pass that dies half way is judged by the monitor, the history goes on
            ret, exc = None, type(e).__name__
        post = snapshot(dbpath, bd, unhex, back)
        if len(captured) > 1:
            raise RuntimeError('delete_blobs called more than once in one pass')
        deleted = captured[0][0] if captured else []
        passes.append({'net': net, 'limit': limit, 'pre': pre, 'post': post, 'deleted': deleted, 'ret': ret, 'exc': exc,
                       'delete_from_db': captured[0][1] if captured else None, 'serving': list(case.get('serving', [])),
                       'cands': [[unhex[h], ln, back(a)] for h, ln, a in cands]})
        return ret or 0
    dsm._clean = watched_clean

    # observations go through a SECOND DiskSpaceManager: the one under test lives through the whole history and its
    # usage cache (_used_space_bytes) is only ever touched by its own passes and by the history's status reads
    watcher = DiskSpaceManager(conf, st, bm)

    async def observe():
        s = snapshot(dbpath, bd, unhex, back)
        return {'usage_mb': await watcher.get_space_used_mb(cached=False),
                'usage_bytes': await st.get_stored_blob_disk_usage(),
                'blobs': [list(b) for b in s.blobs], 'disk': s.disk}

    def stored_mb():
        """usage per class counting only rows whose blob file is in the directory right now"""
        snap = snapshot(dbpath, bd, unhex, back)
        on_disk = set(snap.disk)
        return classify(snap, ignore={b[0] for b in snap.blobs if b[0] not in on_disk})['used']

    initial = await observe()
    # sqlite's order among rows with equal ORDER BY keys (realistic: every blob of one stream shares added_on) is
    # unspecified; the model breaks ties by table order, so the harness hands the model a table order that agrees
    # with the order sqlite showed on the initial state (never compared itself)
    init_cands = []
    for net in (False, True):
        init_cands += [unhex[h] for h, _ln, _a in await st.get_stored_blobs(is_mine=False, is_network_blob=net)]
    steps, resolved, cleans = [], [], []
    for o in case['ops']:
        n0 = len(passes)
        op_exc = None
        if o[0] == 'repeat':                      # same operation with the same (already resolved) limits
            if not resolved:
                continue
            o = resolved[-1]
        if o[0] == 'repass':                      # the last pass / clean() again, whatever happened in between
            prev_pass = [r for r in resolved if r[0] in ('pass', 'clean')]
            if not prev_pass:
                continue
            o = prev_pass[-1]
        if o[0] == 'pass':
            net = o[1]
            lim = o[2]
            if not isinstance(lim, int):
                u = await watcher.get_space_used_mb(cached=False)
                lim = resolve_limit(lim, u['network_storage'] if net else u['content_storage'] + u['private_storage'],
                                    stored_mb()[net])
            set_limit(net, lim)
            await dsm._clean(net)
            resolved.append(['pass', net, lim])
        elif o[0] == 'clean':
            u = await watcher.get_space_used_mb(cached=False)
            cl, nl = o[1], o[2]
            if not isinstance(cl, int):
                cl = resolve_limit(cl, u['content_storage'] + u['private_storage'], stored_mb()[False])
            if not isinstance(nl, int):
                nl = resolve_limit(nl, u['network_storage'], stored_mb()[True])
            set_limit(False, cl)
            set_limit(True, nl)
            clean_pre = snapshot(dbpath, bd, unhex, back)
            clean_ret = await dsm.clean()
            cleans.append({'op': len(resolved), 'cl': cl, 'nl': nl, 'pre': clean_pre, 'post': snapshot(dbpath, bd, unhex, back),
                           'passes': passes[n0:], 'ret': clean_ret})
            resolved.append(['clean', cl, nl])
        elif o[0] == 'add':
            h, ln, a, mine, _fin = o[1]
            await st.add_blobs((nm(h), ln, fwd(a), 1 if mine else 0), finished=True)
            if not os.path.exists(os.path.join(bd, nm(h))):
                mkfile(h, ln)
            resolved.append(['add', [h, ln, a, mine, True]])
        elif o[0] == 'delete':                    # the user removes blobs through the BlobManager API
            try:
                await box['orig_delete']([nm(h) for h in o[1]], True)
            except sqlite3.Error as e:            # kept as an observable (the model's delete never fails)
                op_exc = type(e).__name__
            resolved.append(['delete', list(o[1])])
        elif o[0] == 'hide':                      # blob files become invisible (directory unavailable / files moved away)
            hs = sorted(unhex[n] for n in os.listdir(bd) if n in unhex) if o[1] == 'all' else list(o[1])
            for h in hs:
                if os.path.exists(os.path.join(bd, nm(h))):
                    os.replace(os.path.join(bd, nm(h)), os.path.join(away, nm(h)))
            resolved.append(['hide', hs])
        elif o[0] == 'restore':
            hs = sorted(unhex[n] for n in os.listdir(away) if n in unhex) if o[1] == 'all' else list(o[1])
            for h in hs:
                if os.path.exists(os.path.join(away, nm(h))):
                    os.replace(os.path.join(away, nm(h)), os.path.join(bd, nm(h)))
                elif not os.path.exists(os.path.join(bd, nm(h))):
                    mkfile(h, lengths.get(h, 1))
            resolved.append(['restore', hs])
        elif o[0] == 'setup':                     # a restart: a new BlobManager runs setup() (the clock is the harness's)
            now = o[1]
            sizes = sorted([unhex[n], os.stat(os.path.join(bd, n)).st_size] for n in os.listdir(bd) if n in unhex)
            stop_serving()
            box['bm'].stop()
            nb = BlobManager(loop, bd, st, conf)
            watch_bm(nb)
            dsm.blob_manager = nb
            watcher.blob_manager = nb

            class _Clock:
                time = staticmethod(lambda: fwd(now))
            real_time = blob_file_module.time
            blob_file_module.time = _Clock
            try:
                await nb.setup()
            finally:
                blob_file_module.time = real_time
            serve_blobs()
            resolved.append(['setup', now, sizes])
        elif o[0] == 'fault':                     # an unrelated foreign-keys-off transaction fails (locked database, bad row, ...)
            def boom(t):
                t.execute("insert into blob values (1)").fetchall()
            try:
                await st.db.run_with_foreign_keys_disabled(boom)
            except sqlite3.Error:
                pass
            resolved.append(['fault', o[1]])
        elif o[0] == 'lose_sd':                   # the descriptor file of the k-th stream built through the API gets lost
            sdh = real_sds[o[1] % len(real_sds)]
            if os.path.exists(os.path.join(bd, sdh)):
                os.replace(os.path.join(bd, sdh), os.path.join(away, sdh))
            resolved.append(['hide', [unhex[sdh]]])
        elif o[0] in ('recover_start', 'recover'):
            # the stream manager starts: the REAL StreamManager.initialize_from_database recovers every stream that has a
            # file row and whose descriptor blob is not on disk (rows dropped and re-inserted, descriptor file rebuilt)
            now = o[1] if o[0] == 'recover_start' else o[2]
            snap = snapshot(dbpath, bd, unhex, back)
            on_disk, with_file = set(snap.disk), set(snap.files)
            have = {b[0] for b in snap.blobs}
            members = collections.defaultdict(list)
            for sh, bh in snap.sblobs:
                members[sh].append(bh)
            # recovery rebuilds the descriptor from the rows and succeeds when it hashes to sd_hash again, i.e. when the
            # stream's blob rows (lengths) are all still there
            lost = sorted({sd for sh, sd in snap.streams if sh in with_file and sd not in on_disk and sd in have
                           and all(bh in have for bh in members[sh])})

            class _Clock:
                time = staticmethod(lambda: fwd(now))
            real_time = blob_file_module.time
            blob_file_module.time = _Clock
            sm = StreamManager(loop, conf, box['bm'], None, st, None)
            try:
                await sm.initialize_from_database()
            finally:
                blob_file_module.time = real_time
                sm.stop()
            resolved.append(['recover', lost, now])
        elif o[0] == 'status':                    # status reads on the manager under test (they fill its cache)
            if o[1] == 'used':
                await dsm.get_space_used_mb()
            else:
                await dsm.get_free_space_mb(o[1] == 'free_net')
            resolved.append(['status', o[1]])
        else:
            raise ValueError('unknown op %r' % (o,))
        ob = await observe()
        ob['deleted'] = [p['deleted'] for p in passes[n0:]]
        ob['op_exc'] = op_exc
        ob['tie'] = any(has_ties(p['cands'], p['net']) for p in passes[n0:])
        if o[0] == 'pass':
            ob['cands'] = passes[-1]['cands']
        if o[0] == 'clean':
            ob['clean_ret'] = None if clean_ret is None else repr(clean_ret)
        snap = snapshot(dbpath, bd, unhex, back)
        ob['files_stopped'] = (all(x == 'stopped' for x in snap.file_status)
                               if snap.file_status and derived is None and not any(r[0] == 'recover' for r in resolved) else None)
        steps.append(ob)
    stop_serving()
    box['bm'].stop()
    await st.close()
    return {'initial': initial, 'steps': steps, 'init_cands': init_cands, 'derived_db': derived, 'cleans': cleans,
            'config': {'log': config_log, 'sets': config_sets}}, resolved, passes


def run_impl(case):
    d = tempfile.mkdtemp(prefix='c19_')
    loop = asyncio.new_event_loop()
    try:
        asyncio.set_event_loop(loop)
        return loop.run_until_complete(_run_impl(d, case))
    finally:
        try:
            loop.run_until_complete(loop.shutdown_asyncgens())
        finally:
            asyncio.set_event_loop(None)
            loop.close()
            shutil.rmtree(d, ignore_errors=True)


# ----------------------------------------------------------------------------------------------
# comparison
# ----------------------------------------------------------------------------------------------

def has_ties(rows, net):
    """two different blobs with the same ORDER BY key in one query: sqlite's order among them is unspecified
    (content: the key is (added_on, length) for stream blobs but added_on alone for descriptors: added_on alone is
    used here, which only ever flags more ties)"""
    seen = {}
    for h, ln, a in rows:
        k = (ln, a) if net else a
        if k in seen and seen[k] != h:
            return True
        seen.setdefault(k, h)
    return False


def canon_step(ob):
    out = {'usage_mb': {k: int(v) for k, v in ob['usage_mb'].items()},
           'usage_bytes': {k: int(v) for k, v in ob['usage_bytes'].items()},
           'blobs': sorted([int(b[0]), int(b[1]), int(b[2]), bool(b[3]), bool(b[4])] for b in ob['blobs']),
           'disk': sorted(int(x) for x in ob['disk'])}
    if 'deleted' in ob:
        out['deleted'] = [[int(x) for x in dl] for dl in ob['deleted']]
    if 'cands' in ob:
        out['cands'] = [[int(x) for x in r] for r in ob['cands']]
    if ob.get('op_exc'):
        out['op_exc'] = ob['op_exc']
    if len(ob.get('deleted', [])) == 2:
        out['clean_ret'] = ob.get('clean_ret')          # clean() returns None; the model side has no value either
    return out


def compare(run, case, impl, mod):
    """exact comparison while no ORDER BY tie is involved; on a tie compare the key sequences of that step
    and stop comparing the rest of the history if the two sides picked different (equal-key) blobs"""
    if not run.compare('C19.initial', case, canon_step(impl['initial']), canon_step(mod['initial'])):
        return
    any_deleted = False
    for i, (si, sm) in enumerate(zip(impl['steps'], mod['steps'])):
        ci, cm = canon_step(si), canon_step(sm)
        # db.stop_all_files() runs exactly when a pass deletes something (all file rows start as 'running')
        any_deleted = any_deleted or any(sm['deleted'])
        if si.get('files_stopped') is not None:
            ci['files_stopped'], cm['files_stopped'] = si['files_stopped'], any_deleted
        if canon_eq(ci, cm):
            run.compare('C19.step', case, ci, cm)
            continue
        if not si.get('tie'):
            run.compare('C19.step', dict(case, step=i), ci, cm)
            return
        # ORDER BY tie: sqlite may return equal-key rows in any order (and the sd query does not even order by
        # length), so only the candidate multiset and the added_on sequence are determined; stop comparing here
        run.count('tie-divergence')
        if 'cands' in ci:
            run.compare('C19.step(tie: candidate multiset, added_on sequence)', dict(case, step=i),
                        {'multiset': sorted(ci['cands']), 'added_seq': [r[2] for r in ci['cands']]},
                        {'multiset': sorted(cm['cands']), 'added_seq': [r[2] for r in cm['cands']]})
        return
    if len(impl['steps']) != len(mod['steps']):
        run.disagreement('C19.steps', case, len(impl['steps']), len(mod['steps']))


def canon_eq(a, b):
    return vlib.canon(a) == vlib.canon(b)


# ----------------------------------------------------------------------------------------------
# generators
# ----------------------------------------------------------------------------------------------

EDGE_SIZES = [1, MIB - 1, MIB, MIB + 1, 2 * MIB - 1, 2 * MIB, 2 * MIB + 1, 3 * MIB - 1, 3 * MIB, MIB // 2, 996147]


def gen_size(rng, profile):
    if profile == 'full':
        return 2 * MIB
    if profile == 'small':
        return rng.randrange(1, MIB)
    if profile == 'edge':
        return rng.choice(EDGE_SIZES)
    if profile == 'big':
        return rng.choice([5 * MIB + 17, 37 * MIB, (1 << 33) + 12345, (1 << 40) + 1])
    return rng.randrange(1, 3 * MIB)


def gen_db(rng, max_blobs):
    """a mix of own / downloaded / network-seeded blobs; mostly well-formed, sometimes deliberately not"""
    blobs, sblobs, streams, files = [], [], [], []
    nid = [0]
    sid = [1000]
    tie_mode = rng.random() < 0.12
    weird = rng.random() < 0.25          # states outside the schema's normal shape

    def new_id():
        nid[0] += 1
        return nid[0]
    used_added = set()

    def added():
        if tie_mode:
            return rng.randrange(1, 4)
        while True:
            a = rng.randrange(1, 100000)
            if a not in used_added:
                used_added.add(a)
                return a
    budget = rng.randrange(0, max_blobs + 1)
    profile_all = rng.choice(['mixed', 'mixed', 'full', 'small', 'edge', 'any'])
    while len(blobs) < budget:
        kind = rng.choice(['own', 'down', 'down', 'down', 'downloading', 'nofile', 'net', 'net', 'netsd', 'ownorphan'])
        prof = profile_all if profile_all != 'any' else rng.choice(['mixed', 'full', 'small', 'edge'])
        if weird and rng.random() < 0.08:
            prof = 'big'
        if kind in ('own', 'down', 'nofile', 'downloading'):
            sh = sid[0]
            sid[0] += 1
            mine = kind == 'own'
            n = rng.randrange(1, 6)
            sd = new_id()
            sdlen = rng.randrange(100, 5000)
            if weird and rng.random() < 0.15:
                sdlen = rng.choice([MIB, MIB + 5, 2 * MIB])
            if not (weird and rng.random() < 0.1):            # sd blob row missing
                blobs.append([sd, sdlen, added(), mine, not (weird and rng.random() < 0.2)])
            if not (weird and rng.random() < 0.05):           # stream row missing
                streams.append([sh, sd])
            for j in range(n):
                b = new_id()
                ln = gen_size(rng, 'mixed' if (prof == 'full' and j == n - 1) else prof)
                fin = rng.random() > 0.08 and kind != 'downloading'   # store_stream inserts the rows as 'pending'
                m = mine if not (weird and rng.random() < 0.1) else (not mine)
                if not (weird and rng.random() < 0.05):       # dangling stream_blob row
                    blobs.append([b, ln, added(), m, fin])
                sblobs.append([sh, b])
            if kind != 'nofile':
                files.append(sh)
                if weird and rng.random() < 0.15:
                    files.append(sh)                          # duplicate file row
        elif kind == 'net':
            for _ in range(rng.randrange(1, 5)):
                blobs.append([new_id(), gen_size(rng, prof), added(), False, rng.random() > 0.08])
        elif kind == 'netsd':
            blobs.append([new_id(), rng.randrange(100, 5000), added(), False, True])
        else:
            blobs.append([new_id(), gen_size(rng, prof), added(), True, rng.random() > 0.1])
    if weird and sblobs and len(streams) > 1 and rng.random() < 0.5:
        # a blob shared by two streams
        sh2 = rng.choice(streams)[0]
        bh = rng.choice(sblobs)[1]
        if [sh2, bh] not in sblobs:
            sblobs.append([sh2, bh])
    if weird and streams and blobs and rng.random() < 0.2:
        # a content blob that is also the sd hash of another stream
        streams.append([sid[0], rng.choice(blobs)[0]])
        if rng.random() < 0.5:
            files.append(sid[0])
        sid[0] += 1
    rng.shuffle(blobs)                                        # rowid order independent of structure
    disk = [b[0] for b in blobs if rng.random() > 0.07]
    if rng.random() < 0.1:
        disk.append(new_id())                                 # a file without a row
    loaded = [h for h in disk if rng.random() < 0.2]
    return {'blobs': blobs, 'sblobs': sblobs, 'streams': streams, 'files': files, 'disk': disk}, loaded, tie_mode, nid


LIMIT_KINDS = ['zero', 'eq', 'below1', 'above1', 'below', 'below', 'below', 'above', 'abs', 'neg']


def gen_limit(rng):
    k = rng.choice(LIMIT_KINDS)
    return [k, rng.randrange(0, 1000) if k != 'abs' else rng.randrange(0, 8)]


STATUS_KINDS = ['used', 'free_content', 'free_net']


def gen_wipe(rng, db, clock, pending, nid):
    """the blob directory is emptied completely, the daemon restarts on the EMPTY directory, new blobs arrive, and a pass
    runs with a limit at / just above what is really stored (far below what the table charged before the restart)"""
    clock[0] += 1000
    ops = [['hide', 'all'], ['setup', clock[0]]]
    for _ in range(rng.randrange(1, 5)):
        if pending and rng.random() < 0.7:
            b = pending.pop()
            ops.append(['add', [b[0], b[1], b[2], b[3], True]])
        else:
            nid[0] += 1
            ops.append(['add', [nid[0], gen_size(rng, rng.choice(['mixed', 'full'])), rng.randrange(100000, 200000), False, True]])
    lim = rng.choice([['real_eq', 0], ['real_above', rng.randrange(1, 3)], ['real_above', 0]])
    ops.append(['pass', rng.random() < 0.3, lim] if rng.random() < 0.7 else ['clean', lim, rng.choice([['real_eq', 0], ['real_above', 1]])])
    return ops


def gen_restart(rng, db, clock):
    """the daemon restarts while (some) blob files are not visible, restarts again with them back, then cleans up"""
    ids = [b[0] for b in db['blobs']]
    hid = ids if rng.random() < 0.6 else [h for h in ids if rng.random() < 0.5]
    clock[0] += 1000
    ops = [['hide', hid], ['setup', clock[0]]]
    if rng.random() < 0.3:
        ops.append(['pass', rng.random() < 0.4, gen_limit(rng)])
    clock[0] += 1000
    ops += [['restore', hid if rng.random() < 0.8 else [h for h in hid if rng.random() < 0.7]], ['setup', clock[0]]]
    lim = rng.choice([['below', rng.randrange(1000)], ['neg', 0], ['abs', 1], ['below1', 0]])
    ops.append(['pass', False, lim] if rng.random() < 0.7 else ['clean', lim, gen_limit(rng)])
    return ops


def gen_ops(rng, db, nid):
    """histories: passes and clean() with limits relative to the usage at that moment, usage changing in between (blobs
    of a stream being downloaded complete, new network blobs arrive, the user removes blobs through the API), status
    reads, and the same pass again after such changes"""
    ops = []
    clock = [300000]
    pending = [b for b in db['blobs'] if not b[4] and not b[3]]
    rng.shuffle(pending)

    def a_pass():
        if rng.random() < 0.08:
            ops.append(['fault', 'fk_tx'])
        if rng.random() < 0.25:
            ops.append(['status', rng.choice(STATUS_KINDS)])
        r = rng.random()
        if r < 0.5:
            ops.append(['pass', rng.random() < 0.45, gen_limit(rng)])
        elif r < 0.75:
            ops.append(['clean', gen_limit(rng), gen_limit(rng)])
        else:
            # one clean() with BOTH classes over their limit
            ops.append(['clean', rng.choice([['below', rng.randrange(1, 1000)], ['below1', 0], ['abs', 1], ['neg', 0]]),
                        rng.choice([['below', rng.randrange(1000)], ['below1', 0], ['zero', 0], ['neg', 0]])])
    for _ in range(rng.randrange(1, 6)):
        c = rng.random()
        if c < 0.4:
            a_pass()
            if rng.random() < 0.5:
                ops.append(['repeat'])
        elif c < 0.65:
            # usage rises: 1..4 blobs (re)appear
            for _ in range(rng.randrange(1, 5)):
                r = rng.random()
                if pending and r < 0.6:
                    b = pending.pop()
                    ops.append(['add', [b[0], b[1], b[2], b[3], True]])
                elif db['blobs'] and r < 0.8:
                    # an existing row is re-registered; the completing object may carry another is_mine than the row
                    b = rng.choice(db['blobs'])
                    ops.append(['add', [b[0], b[1], b[2], b[3] if rng.random() < 0.4 else not b[3], True]])
                else:
                    nid[0] += 1
                    ops.append(['add', [nid[0], gen_size(rng, rng.choice(['mixed', 'full'])), rng.randrange(100000, 200000),
                                        rng.random() < 0.2, True]])
            if rng.random() < 0.2:
                ops.append(['status', rng.choice(STATUS_KINDS)])
            if rng.random() < 0.75:
                ops.append(['repass'])
        elif c < 0.85:
            # usage drops: the user removes blobs
            if db['blobs']:
                ops.append(['delete', sorted({rng.choice(db['blobs'])[0] for _ in range(rng.randrange(1, 5))})])
            if rng.random() < 0.2:
                ops.append(['status', rng.choice(STATUS_KINDS)])
            if rng.random() < 0.5:
                ops.append(['repass'])
            else:
                a_pass()
        elif c < 0.93:
            ops.append(['status', rng.choice(STATUS_KINDS)])
        elif c < 0.97:
            ops.extend(gen_restart(rng, db, clock))
        else:
            ops.extend(gen_wipe(rng, db, clock, pending, nid))
    if not any(o[0] in ('pass', 'clean') for o in ops):
        a_pass()
    return ops


def make_legacy(rng, db):
    """the same state as left by an older release: some streams (and loose blobs) were stored before the upgrade, i.e. sit in a
    revision 14 table blob (no added_on / is_mine); everything else arrives after the upgrade"""
    old_streams = {sh for sh, _ in db['streams'] if rng.random() < 0.6}
    old = {bh for sh, bh in db['sblobs'] if sh in old_streams} | {sd for sh, sd in db['streams'] if sh in old_streams}
    old |= {b[0] for b in db['blobs'] if rng.random() < 0.15}
    legacy = [[b[0], b[1], b[4]] for b in db['blobs'] if b[0] in old]
    return dict(db, legacy=legacy, blobs=[b for b in db['blobs'] if b[0] not in old])


def large_case():
    """more than 5000 downloaded 2 MiB blobs (10.4 GB accounted, sparse files) with the limit set to 100 MB: one pass has to
    evict 5150 blobs and end within the limit"""
    blobs, sb, st, fl = [], [], [], []
    n = 0
    for k in range(4):
        sd = 10000 + k
        blobs.append([sd, 400, 100000 + k, False, True])
        st.append([20000 + k, sd])
        fl.append(20000 + k)
        for _ in range(1300):
            n += 1
            blobs.append([n, 2 * MIB, n, False, True])
            sb.append([20000 + k, n])
    blobs += [[30001, 2 * MIB, 5, True, True], [30002, 2 * MIB, 6, False, True]]
    return {'db': {'blobs': blobs, 'sblobs': sb, 'streams': st, 'files': fl, 'disk': [b[0] for b in blobs]},
            'ops': [['pass', False, 100], ['repeat'], ['clean', 50, 0]]}


def gen_seeded(rng):
    """this node holds ordinary downloads (and maybe a publication) and seeds streams fetched from a peer through the
    BackgroundDownloader; one clean() with the content limit at / above the real content usage and a small network limit"""
    sizes = [1100000, 1500000, 2500000]
    streams = [{'size': rng.choice(sizes), 'mine': rng.random() < 0.3, 'file': True} for _ in range(rng.randrange(1, 3))]
    seeded = [rng.choice([2500000, 4300000]) for _ in range(rng.randrange(1, 3))]
    cl = sum(sp['size'] for sp in streams) // MIB + 1
    ops = [['clean', cl, rng.choice([0, 1])], ['repeat'], ['pass', True, 0], ['pass', False, cl]]
    return {'real': {'streams': streams, 'net': [], 'seeded': seeded}, 'ops': ops}


def gen_multi_recover(rng):
    """two or three published streams (and a download) all lose their descriptor file and are recovered in ONE start"""
    sizes = [1100000, 2500000, 4300000]
    streams = [{'size': rng.choice(sizes), 'mine': True, 'file': True} for _ in range(rng.randrange(2, 4))]
    streams.insert(rng.randrange(len(streams) + 1), {'size': rng.choice(sizes), 'mine': False, 'file': True})
    ops = [['lose_sd', j] for j in range(len(streams))] + [['setup', 1000001], ['recover_start', 1000002],
                                                         ['pass', False, rng.choice([1, 2, -1])], ['clean', 1, 0]]
    return {'real': {'streams': streams, 'net': []}, 'ops': ops}


def gen_serving(rng):
    """a cleanup pass runs WHILE peers download some of the blobs it evicts (open reader_context on the BlobFile, as
    BlobServer's sendfile holds); then the node restarts (BlobManager.setup re-reads the directory) and the pass runs again"""
    blobs, sb, st, fl = [], [], [], []
    n_net = rng.randrange(2, 7)
    for k in range(n_net):
        blobs.append([k + 1, rng.choice([MIB, 2 * MIB, 2 * MIB, MIB + 1, 3 * MIB - 1]), 100 + k, False, True])
    content = []
    if rng.random() < 0.6:
        blobs.append([50, 400, 200, False, True])
        st.append([900, 50])
        fl.append(900)
        for k in range(rng.randrange(2, 5)):
            blobs.append([51 + k, 2 * MIB, 201 + k, False, True])
            sb.append([900, 51 + k])
            content.append(51 + k)
    if rng.random() < 0.5:
        blobs.append([80, 2 * MIB, 50, True, True])
    net_ids = list(range(1, n_net + 1))
    serving = [1] + [h for h in net_ids[1:] + content if rng.random() < 0.4]      # the oldest network blob is always being read
    if content and rng.random() < 0.5:
        serving.append(content[0])
    r = rng.random()
    if r < 0.5 or not content:
        first = ['pass', True, rng.choice([['below', rng.randrange(1000)], ['zero', 0], ['below1', 0], ['abs', 1]])]
    elif r < 0.75:
        first = ['pass', False, rng.choice([['below', rng.randrange(1, 1000)], ['below1', 0], ['abs', 1]])]
    else:
        first = ['clean', rng.choice([['below', rng.randrange(1, 1000)], ['abs', 1], ['zero', 0]]),
                 rng.choice([['below', rng.randrange(1000)], ['zero', 0]])]
    ops = [first, ['setup', 400000], ['repass']]
    if rng.random() < 0.5:
        ops.append(['status', 'used'])
    return {'db': {'blobs': blobs, 'sblobs': sb, 'streams': st, 'files': fl, 'disk': [b[0] for b in blobs]},
            'ops': ops, 'loaded': [], 'serving': sorted(set(serving))}


def gen_backlog(rng, n):
    """a start-up that finds n (> 500) complete blob files in the directory which the table does not have as finished
    (database restored from a backup / crash before the rows were written: rows 'pending' or missing), then a pass with a
    small network limit.  Sparse files."""
    blobs, sizes = [], []
    p_row = rng.choice([0.0, 0.5, 1.0])
    for k in range(1, n + 1):
        ln = rng.choice([MIB, 2 * MIB])
        if rng.random() < p_row:
            blobs.append([k, ln, 1000 + k, False, False])
        else:
            sizes.append([k, ln])
    for k in range(n + 1, n + 1 + rng.randrange(0, 4)):
        blobs.append([k, 2 * MIB, 10 + k, rng.random() < 0.3, True])      # a few blobs the table already has
    lim = rng.choice([0, 0, 1, 3])
    ops = [['setup', 500000], rng.choice([['pass', True, lim], ['clean', 0, lim]]), ['repeat']]
    return {'db': {'blobs': blobs, 'sblobs': [], 'streams': [], 'files': [], 'file_sizes': sizes,
                   'disk': [b[0] for b in blobs] + [h for h, _ in sizes]}, 'ops': ops, 'loaded': []}


def gen_real(rng):
    sizes = [300000, 1100000, 1500000, 2097151, 2500000, 4194302, 4300000, 6500000]
    streams = [{'size': rng.choice(sizes), 'mine': rng.random() < 0.35, 'file': rng.random() < 0.85}
               for _ in range(rng.randrange(1, 5))]
    net = [rng.choice([500000, 1100000, 2097151]) for _ in range(rng.randrange(0, 4))]
    ops = []
    for _ in range(rng.randrange(1, 4)):
        if rng.random() < 0.3:
            ops.append(['status', rng.choice(STATUS_KINDS)])
        r = rng.random()
        if r < 0.45:
            ops.append(['pass', rng.random() < 0.4, gen_limit(rng)])
        elif r < 0.7:
            ops.append(['clean', gen_limit(rng), gen_limit(rng)])
        else:
            ops.append(['clean', rng.choice([['below', rng.randrange(1, 1000)], ['below1', 0], ['abs', 1]]),
                        rng.choice([['below', rng.randrange(1000)], ['zero', 0]])])
        if rng.random() < 0.6:
            ops.append(['repeat'])
    if rng.random() < 0.5:
        # a descriptor file is lost; the node restarts (blob manager, then stream manager: start-up recovery); then a
        # content pass that walks its whole candidate list
        k = rng.randrange(len(streams))
        lost = [['lose_sd', j] for j in range(len(streams))] if rng.random() < 0.5 else [['lose_sd', k]]   # one or ALL streams
        ops += lost + [['setup', 1000001], ['recover_start', 1000002],
                rng.choice([['pass', False, ['neg', 0]], ['pass', False, ['abs', 1]], ['clean', ['abs', 1], ['neg', 0]]])]
    if rng.random() < 0.4:
        ops.append(rng.choice([['pass', False, ['neg', 0]], ['pass', True, ['neg', 0]], ['clean', ['neg', 0], ['neg', 0]]]))
    if rng.random() < 0.5:
        # restart around an unavailable blob directory
        ops = [['hide', 'all'], ['setup', 1], ['restore', 'all'], ['setup', 2]] + ops
        ops.append(['pass', False, ['below', rng.randrange(1000)]])
    return {'real': {'streams': streams, 'net': net}, 'ops': ops}


# ----------------------------------------------------------------------------------------------
# one case
# ----------------------------------------------------------------------------------------------

def check_case(run, model, case, kind):
    impl, resolved, passes = run_impl(case)
    case = dict(case, ops=resolved, kind=kind)       # self-contained: every limit absolute, repeats expanded
    if impl.get('derived_db') is not None:           # state built through the application's API: keep its row-level form
        case = dict(case, db=impl['derived_db'], origin=case.get('real'), published=impl['derived_db'].pop('published'),
                    seeded=impl['derived_db'].pop('seeded'))
        case.pop('real', None)
    pos = {}
    for i, h in enumerate(impl['init_cands']):
        pos.setdefault(h, i)
    mdb = dict(case['db'], blobs=sorted(case['db']['blobs'], key=lambda b: pos.get(b[0], len(pos))))
    mod = model.call('run', db=mdb, ops=case['ops'])
    any_del = any(p['deleted'] for p in passes)
    start_blobs = all_blobs(case['db'])
    run.case(case, nontrivial=bool(start_blobs) and bool(passes), sample=len(start_blobs) < 200 and len(case['db']['disk']) < 200)
    prev = None
    bad = None
    for p in passes:
        c = classify(p['pre'])
        used = c['used'][p['net']]
        cls = 'net' if p['net'] else 'content'
        if not p['net'] and p['limit'] == 0:
            br = 'unlimited'
        elif used <= p['limit']:
            br = 'within' if used < p['limit'] else 'equal'
        elif not p['deleted']:
            br = 'over-nothing-removable'
        elif classify(p['post'])['used'][p['net']] <= p['limit']:
            br = 'over-reached'
        else:
            br = 'over-exhausted'
        run.count(f'{cls}:{br}')
        if p['deleted']:
            rows = {b[0]: b for b in p['pre'].blobs}
            zero = sum(1 for h in p['deleted'] if h in rows and rows[h][1] < MIB)
            if zero >= 2 and zero == len(p['deleted']):
                run.count('sub-MiB sweep (every deleted blob accounted 0 MB)')
            run.count('deleted:%s' % ('1' if len(p['deleted']) == 1 else '2-4' if len(p['deleted']) < 5 else '5+'))
            if len(set(p['deleted'])) != len(p['deleted']):
                run.count('duplicate hash in delete list')
        if not well_formed(p['pre']):
            run.count('pre-state outside wf')
        m = monitor_pass(p, prev)
        if m and not bad:
            text, clause = m
            if clause == 'within-limit' and not p['net'] and p['limit'] != 0:
                sig = {'site': 'DiskSpaceManager._clean', 'content_limit': 'non-zero', 'usage': 'within limit'}
                sig = dict(sig, case=hashlib.sha1(vlib.canon(case).encode()).hexdigest()[:12])
            elif clause == 'network-pass-deletes-stream-descriptor':
                sig = {'site': 'SQLiteStorage.get_stored_blobs(is_network_blob=True)', 'clause': clause}
            else:
                sig = {'clause': clause, 'net': p['net'], 'limit': p['limit'],
                       'case': hashlib.sha1(vlib.canon(case).encode()).hexdigest()[:12]}
            bad = (text, sig)
        prev = p
    seeded = set(case.get('seeded') or ())
    if seeded:
        run.count('blobs fetched through BackgroundDownloader from a loopback peer')
        # ground truth: what arrived through the BackgroundDownloader is network storage -- limited by network_storage_limit,
        # never charged to the content class
        for p in passes:
            if bad:
                break
            tpre, tpost = classify(p['pre'], seeded=seeded), classify(p['post'], seeded=seeded)
            sig = {'clause': 'seeded-blobs-class', 'net': p['net'], 'limit': p['limit'],
                   'case': hashlib.sha1(vlib.canon(case).encode()).hexdigest()[:12]}
            if not p['net'] and p['deleted'] and tpre['used'][False] <= p['limit']:
                bad = (f"the content pass deleted {len(p['deleted'])} blob(s) although content usage is {tpre['used'][False]} MB "
                       f"<= limit {p['limit']} MB: {classify(p['pre'])['used'][False]} MB are charged to the content class, "
                       f"network-seeded blobs among them", sig)
            elif p['net'] and tpre['used'][True] > p['limit'] and well_formed(p['pre']) and \
                    sum(mb(r[1]) for r in tpre['removable'][True]) >= tpre['used'][True] - p['limit'] and \
                    tpost['used'][True] > p['limit']:
                bad = (f"after the network pass {tpost['used'][True]} MB of network-seeded blobs are stored, limit {p['limit']} MB, "
                       f"although all of them are removable (the pass saw {classify(p['pre'])['used'][True]} MB of network usage)", sig)
    for c in impl['cleans']:
        cp = classify(c['pre'])
        if cp['used'][False] > c['cl'] != 0 and cp['used'][True] > c['nl']:
            run.count('clean(): both classes over their limit')
        m = monitor_clean(c)
        if m and not bad:
            bad = (m[0], {'clause': m[1], 'op': c['op'], 'case': hashlib.sha1(vlib.canon(case).encode()).hexdigest()[:12]})
    # the property over the whole history: a blob the user published (its row was created with is_mine=1) is never
    # deleted by a cleanup pass, whatever happened in between (restarts, re-registration, status changes)
    # and: what is charged to a class is what is stored.  A restart (BlobManager.setup) reconciles the table with the blob
    # directory; rows still 'finished' after it although their file was not there are phantoms: a pass must not delete
    # anything while the usage WITHOUT them is within the limit
    published = set(case['published']) if 'published' in case else {b[0] for b in start_blobs if b[3]}
    present = {b[0] for b in start_blobs}
    phantom = set()
    uncharged = {}       # complete blob files the last restart saw in the directory but did not record as finished
    legacy_ids = {r[0] for r in case['db'].get('legacy', [])}
    pi = 0
    for i, o in enumerate(case['ops']):
        if o[0] == 'add' and o[1][0] not in present:
            (published.add if o[1][3] else published.discard)(o[1][0])
        elif o[0] == 'delete':
            published -= set(o[1])
        if o[0] == 'add':
            phantom.discard(o[1][0])
            uncharged.pop(o[1][0], None)
        elif o[0] == 'restore':
            phantom -= set(o[1])
        elif o[0] in ('hide', 'delete'):
            for h in o[1]:
                uncharged.pop(h, None)
        elif o[0] == 'setup' and i < len(impl['steps']):
            on_disk = set(impl['steps'][i]['disk'])
            phantom = {b[0] for b in impl['steps'][i]['blobs'] if b[4] and b[0] not in on_disk}
            if phantom:
                run.count('restart left finished rows without a file')
            fin_rows = {b[0] for b in impl['steps'][i]['blobs'] if b[4]}
            uncharged = {h: sz for h, sz in o[2] if h in on_disk and h not in fin_rows}
            if len(o[2]) > 500:
                run.count('restart found more than 500 blob files in the directory')
        for p in passes[pi:pi + {'pass': 1, 'clean': 2}.get(o[0], 0)]:
            if phantom and p['deleted'] and not bad:
                real = classify(p['pre'], ignore=phantom)['used'][p['net']]
                if real <= p['limit']:
                    charged = classify(p['pre'])['used'][p['net']]
                    bad = (f"{len(p['deleted'])} blob(s) deleted by the {'network' if p['net'] else 'content'} pass of operation {i} "
                           f"although what is stored ({real} MB) is within the limit ({p['limit']} MB): {charged} MB are charged, "
                           f"{len(phantom)} 'finished' row(s) belong to blobs that were already gone at the last restart",
                           {'clause': 'within-limit-stored', 'op': i,
                            'case': hashlib.sha1(vlib.canon(case).encode()).hexdigest()[:12]})
            if uncharged and not bad and (p['net'] or p['limit'] != 0) and well_formed(p['pre']):
                # usage = what is stored: a complete blob file that start-up found in the directory is stored, recorded or not
                def stored(s):
                    on, have = set(s.disk), {b[0] for b in s.blobs}
                    return s._replace(blobs=[(b[0], b[1], b[2], b[3], True) if b[0] in uncharged and b[0] in on else b
                                             for b in s.blobs]
                                      + [(h, sz, 0, False, True) for h, sz in sorted(uncharged.items()) if h in on and h not in have])
                tpre, tpost = classify(stored(p['pre'])), classify(stored(p['post']))
                excess = tpre['used'][p['net']] - p['limit']
                if excess > 0 and sum(mb(r[1]) for r in tpre['removable'][p['net']]) >= excess and tpost['used'][p['net']] > p['limit']:
                    left = sorted(h for h in uncharged if h in set(p['post'].disk))
                    bad = (f"after the {'network' if p['net'] else 'content'} pass of operation {i} {tpost['used'][p['net']]} MB of this "
                           f"class are stored, limit {p['limit']} MB, although enough removable blobs existed: the pass saw "
                           f"{classify(p['pre'])['used'][p['net']]} MB; {len(left)} complete blob file(s) found in the blob directory at "
                           f"the last start-up ({len([x for x in case['ops'][:i] if x[0] == 'setup'][-1][2])} files) were never recorded "
                           f"as finished: {left[:3]}",
                           {'clause': 'limit-not-reached-stored', 'op': i,
                            'case': hashlib.sha1(vlib.canon(case).encode()).hexdigest()[:12]})
            lost = [h for h in p['deleted'] if h in published]
            if lost and not bad:
                how = ('was stored before the upgrade from db_revision 14 (the 14->15 migration marks such blobs the user\'s own)'
                       if lost[0] in legacy_ids else 'was published by the user (its row was created with is_mine=1)')
                bad = (f"blob {lost[0]} {how} and was deleted by the "
                       f"{'network' if p['net'] else 'content'} pass of operation {i}",
                       ({'site': 'SQLiteStorage.recover_streams', 'clause': 'published-deleted-after-recovery'}
                        if any(x[0] == 'recover' and x[1] for x in case['ops'][:i]) else
                        {'clause': 'published-deleted', 'op': i,
                         'case': hashlib.sha1(vlib.canon(case).encode()).hexdigest()[:12]}))
        pi += {'pass': 1, 'clean': 2}.get(o[0], 0)
        if i < len(impl['steps']):
            present = {b[0] for b in impl['steps'][i]['blobs']}
    if any(o[0] == 'setup' for o in case['ops']):
        run.count('histories with a restart (BlobManager.setup)')
    run.count('ops=%d' % len(case['ops']))
    nb = len(start_blobs)
    run.count('blobs=%s' % ('0' if not nb else '1-5' if nb <= 5 else '6-15' if nb <= 15 else '16-30' if nb <= 30 else
                            '31-100' if nb <= 100 else '>5000' if nb > 5000 else '101+'))
    if case['db'].get('legacy'):
        run.count('start state: revision 14 database upgraded by migrate_db')
    if any_del:
        run.count('cases with a deletion')
    if bad:
        run.violation(case, bad[0], signature=bad[1])
        return
    compare(run, case, impl, mod)
    # the Config layers (lbry/conf.py) against the model's [effective] / [assign]: the limit in force after every assignment
    env = (case.get('conf') or {}).get('env')
    for net in (False, True):
        if impl['config']['sets'][net] or env:
            want = model.call('effective', env=env[1 if net else 0] if env else None, sets=impl['config']['sets'][net])
            run.compare('C19.config_layers', dict(case, cls='network' if net else 'content'),
                        [int(x) for x in impl['config']['log'][net]], [int(x) for x in want])
    # the whole history through one call of the extracted [run]
    whole = model.call('run_whole', db=mdb, ops=case['ops'])
    flat = [dl for s in mod['steps'] for dl in s['deleted']]
    run.compare('C19.run_whole', case, {'trace': flat, 'blobs': mod['steps'][-1]['blobs'] if mod['steps'] else mod['initial']['blobs']},
                {'trace': whole['trace'], 'blobs': whole['blobs']})


def load_corpus():
    out = []
    for p in sorted(glob.glob(os.path.join(CORPUS, '*.json'))):
        with open(p) as f:
            c = json.load(f)
        c['corpus'] = os.path.basename(p)
        out.append(c)
    return out


def exhaustive_cases():
    """small scope: one downloaded stream (0..2 blobs), one own blob, one network blob; every combination of a
    few sizes and limits, both passes, each pass twice"""
    sizes = [MIB - 1, MIB, 2 * MIB]
    for s1 in sizes:
        for s2 in [None] + sizes:
            for own in (None, MIB + 1):
                for netb in (None, MIB - 1, 2 * MIB):
                    for has_file in (True, False):
                        blobs = [[1, 300, 1, False, True], [2, s1, 2, False, True]]
                        sb = [[100, 2]]
                        if s2 is not None:
                            blobs.append([3, s2, 3, False, True])
                            sb.append([100, 3])
                        if own is not None:
                            blobs.append([4, own, 4, True, True])
                        if netb is not None:
                            blobs.append([5, netb, 5, False, True])
                        db = {'blobs': blobs, 'sblobs': sb, 'streams': [[100, 1]], 'files': [100] if has_file else [],
                              'disk': [b[0] for b in blobs]}
                        for lim in (0, 1, 2, 3, 4, 6):
                            yield {'db': db, 'ops': [['pass', False, lim], ['pass', False, lim],
                                                     ['pass', True, lim], ['pass', True, lim]]}


def main(run):
    model = vlib.Model('C19')
    rng = run.rng
    n_cases = vlib.scaled(run.tier, 600, 8000)
    max_blobs = vlib.scaled(run.tier, 30, 60)
    run.rule = ('(0) one LARGE instance in both tiers: 5200 downloaded 2 MiB blobs in 4 streams (sparse files), limit 100 MB, one '
                'pass must evict 5150 blobs (full model comparison, costs a few seconds); 10% of the row-level states start as a '
                'revision 14 database (table blob without added_on / is_mine) upgraded by the real migrate_db(conf, 14, 16); '
                'histories include a restart on a completely emptied blob directory followed by new blobs and a pass whose '
                'limit is what is really stored; (a) states produced by the application itself: StreamDescriptor.create_stream + store_stream + '
                'save_published_file + update_blob_ownership for 1..4 published / downloaded streams of 0.3..6.5 MB and 0..3 '
                'network blobs written through BlobFile + blob_completed; (b) database states built row by row (tables blob, stream, stream_blob, file + blob files): streams that are '
                'own / downloaded with file / downloaded without file, orphan network blobs, network sd blobs, own orphans; '
                'sizes from profiles full(2 MiB) / sub-MiB / MiB edges +-1 / random <3 MiB / rare huge; pending rows, missing '
                'files, blobs loaded in BlobManager; 25% of states deliberately outside the schema\'s normal shape (duplicate '
                'file rows, sd blob >= 1 MiB, shared blobs, dangling rows, mixed ownership); 12% with ORDER BY ties. '
                'histories on ONE DiskSpaceManager object: content pass / network pass / clean(), limits chosen relative to the '
                'usage at that moment (0, equal, +-1, below, above, negative); between passes usage rises (pending blobs of '
                'a stream being downloaded complete, blobs reappear, new network blobs: storage.add_blobs) or drops (the user '
                'removes blobs through blob_manager.delete_blobs), status reads (get_space_used_mb / get_free_space_mb) '
                'fill the manager\'s cache, and the previous pass is run again after such changes or immediately. distinct = distinct (state, resolved history); '
                'non-trivial = at least one blob row and one pass.')
    for c in load_corpus():
        check_case(run, model, c, 'corpus')
    if run.tier == 'thorough':
        for c in exhaustive_cases():
            check_case(run, model, c, 'exhaustive')
        run.exhaustive = True
    for _ in range(vlib.scaled(run.tier, 3, 40)):
        check_case(run, model, gen_seeded(rng), 'real-api-seeded')
    for _ in range(vlib.scaled(run.tier, 4, 40)):
        check_case(run, model, gen_multi_recover(rng), 'real-api-recover')
    for _ in range(vlib.scaled(run.tier, 25, 400)):
        check_case(run, model, gen_real(rng), 'real-api')
        run.count('state built through the application API')
    check_case(run, model, large_case(), 'large')
    for _ in range(n_cases):
        small = rng.random() < 0.3
        db, loaded, ties, nid = gen_db(rng, 6 if small else max_blobs)
        ops = gen_ops(rng, db, nid)
        case = {'db': db, 'ops': ops, 'loaded': loaded, 'ties': ties, 'added_mode': 'float' if rng.random() < 0.25 else 'int'}
        if rng.random() < 0.2:
            # limits also come from the environment layer of the Config; what the user assigns later must win
            case['conf'] = {'env': [rng.randrange(1, 12), rng.randrange(1, 12)], 'update': rng.random() < 0.5}
            if rng.random() < 0.5:   # ... in particular "unlimited" (0, the default) for content storage
                case['ops'] = case['ops'] + [['pass', False, ['zero', 0]], ['clean', ['zero', 0], ['below', rng.randrange(1000)]]]
        if rng.random() < 0.1:
            case['db'], case['added_mode'] = make_legacy(rng, db), 'int'
            if rng.random() < 0.7:      # the first thing after the upgrade is a content pass far over its limit
                case['ops'] = [['pass', False, rng.choice([['below', rng.randrange(1000)], ['abs', 1], ['neg', 0]])]] + ops
        check_case(run, model, case, 'generated')
    # round 8 (drawn after everything else, so the older streams of cases per seed are unchanged): passes that run while
    # peers read blobs being evicted, and start-ups that find more than 500 unrecorded blob files
    for _ in range(vlib.scaled(run.tier, 12, 200)):
        check_case(run, model, gen_serving(rng), 'pass-while-serving')
        run.count('pass while a peer reads a blob (open reader_context)')
    for n in [501 + rng.randrange(1, 4), 1002 + rng.randrange(1, 40)] + \
            [rng.randrange(502, 1600) for _ in range(vlib.scaled(run.tier, 0, 6))]:
        check_case(run, model, gen_backlog(rng, n), 'startup-backlog')
    # the repaired defect, as a statement about the OLD expression (model side; Props has the theorem)
    old = model.call('pass_old', net=False, limit=100,
                     db={'blobs': [[1, 3 * MIB, 1, False, True], [2, 200, 2, False, True]], 'sblobs': [[10, 1]],
                         'streams': [[10, 2]], 'files': [10], 'disk': [1, 2]})
    run.supporting['old_condition_model_deletes'] = old['deleted']
    meta = json.load(open(os.path.join(os.path.dirname(os.path.abspath(__file__)), 'c19.meta.json')))
    run.partial = meta.get('partial', [])
    run.notes.append({'reading': meta.get('reading', '')})
    model.close()


def replay(run, case):
    if case.get('origin'):           # a state built through the application API is rebuilt the same way
        case = dict(case, real=case['origin'])
        case.pop('db', None)
        case.pop('published', None)
        case.pop('seeded', None)
    model = vlib.Model('C19')
    check_case(run, model, case, case.get('kind', 'replay'))
    model.close()
