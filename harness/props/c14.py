"""C14  no double spend under concurrent builds.

2..12 real Transaction.create calls run concurrently on one event loop against one real Ledger + sqlite Database;
the generator chooses the task start order and how many times each task yields around every database call, which
induces the completion order of the database calls.  Every lock acquisition / database operation is recorded in the
order the single database writer thread executed it; that event list IS a schedule of Model/C14.v, which is then run
through the extracted model (whose chooser is Model/C03's selection) and must predict every build's inputs, phase and
the is_reserved column.  The monitor states the property on the implementation alone."""
import asyncio
import contextvars
import json
import os
import random

import lbry.wallet  # noqa: F401
from lbry.wallet import Transaction, Output, Input
from lbry.error import InsufficientFundsError
from lbry.wallet import coinselection
from lbry.wallet.manager import WalletManager
from lbry.wallet.usage_payment import WalletServerPayer
from lbry.wallet.stream import StreamController
from lbry.wallet.dewies import dewies_to_lbc
from binascii import unhexlify
import logging
from lbry.wallet.network import Network, ClientSession
from lbry.wallet.rpc.jsonrpc import RPCError
from lbry.wallet.account import AddressManager

import vlib
from props import c03

cur_build = contextvars.ContextVar('cur_build', default=None)
op_label = contextvars.ContextVar('op_label', default=None)


class RecLock(asyncio.Lock):
    def __init__(self, events):
        super().__init__()
        self.events = events

    async def acquire(self):
        r = await super().acquire()
        self.events.append(('lock', cur_build.get(), None))
        return r

    def release(self):
        self.events.append(('unlock', cur_build.get(), None))
        super().release()


class Instrument:
    """wraps the ledger/database entry points of one World for one concurrent case; undone by restore()"""

    def __init__(self, world, events, yields):
        self.world, self.events, self.yields = world, events, yields
        self.saved = []
        self.asked = {}          # build -> [amount per round]
        self.released = {}       # build -> txo ids handed to release_outputs
        self.pre_done = set()    # builds whose first reserve_outputs call (the pre-chosen inputs) has completed
        self.barrier = None      # optional coroutine function awaited before a build asks the ledger for funds
        self.after_read = None   # optional coroutine function awaited right after a build has read the wallet

    async def pause(self):
        b = cur_build.get()
        if b is None:
            return
        seq = self.yields.get(b)
        k = seq.pop(0) if seq else 0
        for _ in range(k):
            await asyncio.sleep(0)

    def patch(self, obj, name, new):
        had_own = name in getattr(obj, '__dict__', {})
        self.saved.append((obj, name, obj.__dict__.get(name) if had_own else None, had_own))
        setattr(obj, name, new)

    def install(self):
        ledger = self.world.ledger
        aio = ledger.db.db
        events = self.events
        orig_run = aio.run

        async def run(fun, *args, **kwargs):
            label = op_label.get()

            def wrapped(conn, *a, **k):
                res = fun(conn, *a, **k)
                if label is not None and label[1] is not None:
                    snap = None
                    if label[0] != 'read':
                        # the is_reserved column right after this operation, inside the same database transaction
                        snap = frozenset(r['txoid'] for r in conn.execute(
                            "SELECT txoid FROM txo WHERE is_reserved AND txoid NOT IN (SELECT txoid FROM txi)").fetchall())
                    events.append((label[0], label[1], snap))
                return res
            return await orig_run(wrapped, *args, **kwargs)
        self.patch(aio, 'run', run)

        def labelled(kind, orig):
            async def f(*args, **kwargs):
                await self.pause()
                tok = op_label.set((kind, cur_build.get()))
                try:
                    return await orig(*args, **kwargs)
                finally:
                    op_label.reset(tok)
                    await self.pause()
            return f
        lab_read = labelled('read', ledger.get_effective_amount_estimators)

        async def read(accounts):
            r = await lab_read(accounts)
            if self.after_read is not None:
                await self.after_read()
            return r
        self.patch(ledger, 'get_effective_amount_estimators', read)
        lab_reserve = labelled('reserve', ledger.reserve_outputs)

        async def reserve(txos):
            r = await lab_reserve(txos)       # handed on as it came (it may be a generator)
            self.pre_done.add(cur_build.get())
            return r
        self.patch(ledger, 'reserve_outputs', reserve)
        orig_rel = labelled('release', ledger.release_outputs)

        async def rel(txos):
            txos = list(txos)
            self.released.setdefault(cur_build.get(), []).extend(t.id for t in txos)
            return await orig_rel(txos)
        self.patch(ledger, 'release_outputs', rel)
        self.patch(ledger.db, 'get_spendable_utxos', labelled('sqlite', ledger.db.get_spendable_utxos))
        orig_gsu = ledger.get_spendable_utxos

        async def gsu(amount, funding_accounts, *a, **k):
            self.asked.setdefault(cur_build.get(), []).append(amount)
            if self.barrier is not None:
                await self.barrier()
            await self.pause()
            return await orig_gsu(amount, funding_accounts, *a, **k)
        self.patch(ledger, 'get_spendable_utxos', gsu)
        self.patch(ledger, '_utxo_reservation_lock', RecLock(events))

    def restore(self):
        for obj, name, old, had_own in reversed(self.saved):
            if had_own:
                setattr(obj, name, old)
            else:
                try:
                    delattr(obj, name)
                except AttributeError:
                    pass
        self.saved = []


_DAEMON = []


def daemon_class():
    """lbry.extras.daemon.daemon.Daemon, imported with in-process mock objects for the third-party modules that are
    absent here (aioupnp, libtorrent; only unrelated components use them); None if even that fails"""
    if not _DAEMON:
        try:
            import sys
            from unittest import mock
            for name in ('aioupnp', 'aioupnp.upnp', 'aioupnp.fault', 'libtorrent'):
                if name not in sys.modules:
                    stub = mock.MagicMock()
                    stub.__version__ = '0'
                    sys.modules[name] = stub
            from lbry.extras.daemon.daemon import Daemon
            _DAEMON.append(Daemon)
        except Exception:  # noqa
            _DAEMON.append(None)
    return _DAEMON[0]


class FakeSession:
    """the wallet-server session underneath the REAL lbry.wallet.network.Network (and so underneath the real
    WalletManager / Ledger / WalletServerPayer / Account.fund): per build the server accepts the broadcast, rejects it
    (RPCError), never answers (the pending call is then cancelled by the caller), or the connection is down; for the
    periodic payer the connection is lost during its first send and is back afterwards.  Outside a build (the reconnect
    handler) the session is closed, so that ledger.join_network() needs no server."""

    def __init__(self, behaviour, events):
        self.behaviour = behaviour        # build -> 'accept' | 'reject' | 'hang' | 'down' | 'payer'
        self.events = events
        self.attempts = {}
        self.features = {}
        self.payers = {}
        self.server = ('fake', 50001)

    def is_closing(self):
        mode = self.behaviour.get(cur_build.get())
        return mode is None or mode == 'down'

    async def send_request(self, method, args=()):
        b = cur_build.get()
        if method == 'server.features':
            if b in self.payers:
                self.payers[b].running = False       # one payment per case: the pay loop ends after this round
            return self.features
        if method != 'blockchain.transaction.broadcast':
            raise RPCError(-32601, 'unknown method ' + method)
        raw = args[0]
        mode = self.behaviour.get(b, 'accept')
        self.attempts[b] = self.attempts.get(b, 0) + 1
        await asyncio.sleep(0)
        if mode == 'payer' and self.attempts[b] == 1:
            raise ConnectionError('connection to the wallet server lost')
        if mode == 'reject':
            raise RPCError(1, 'the transaction was rejected by network rules.')
        if mode == 'hangup':
            # the hub closes the connection in an orderly way (EOF, no error) while the broadcast is pending - a hub
            # restarting: the request goes through a REAL ClientSession / RPCSession / JSONRPCConnection whose transport
            # swallows the bytes and then reports the clean close
            real = ClientSession(network=None, server=self.server)

            class HangupTransport:
                def write(self_, data):
                    asyncio.get_event_loop().call_soon(real.connection_lost, None)

                def get_extra_info(self_, name, default=None):
                    return ('127.0.0.1', 50001) if name == 'peername' else default

                def is_closing(self_):
                    return False

                def close(self_):
                    pass

                def abort(self_):
                    pass
            real.connection_made(HangupTransport())
            return await real.send_request(method, args)
        if mode == 'hang':
            await asyncio.Event().wait()
        # accepted: from now on the network knows this transaction and will confirm it
        ids = [t.txo_ref.id for t in Transaction(unhexlify(raw)).inputs]
        self.events.append(('sent', b, ('inputs', ids)))
        return 'accepted'


async def run_concurrent(world, case):
    """runs the case on the implementation; returns (impl observables, obs for the monitor)"""
    ledger = world.ledger
    made = await c03.prepare(world, case)
    ledger.coin_selection_strategy = case['strategy']
    funding = [world.accounts[i] for i in case['funding']]
    change_acc = world.accounts[case['change']]

    def funding_of(d):
        # builds may list the same accounts in a different order
        return [world.accounts[i] for i in d.get('funding', case['funding'])]
    rows_before = await world.rows(funding)
    orders = {}
    for b, d in enumerate(case['builds']):
        if 'funding' in d:
            orders[b] = [r['rid'] for r in c03.spendable_rows(await world.rows(funding_of(d)))]
    rid_of = {r['txoid']: r['rid'] for r in await world.sql("SELECT rowid AS rid, txoid FROM txo")}
    c03.RecordingRandom.log = []
    c03.RecordingRandom.source = random.Random(case.get('seed', 0))
    c03.RecordingRandom.tagger = cur_build.get
    events = []
    yields = {b: list(d.get('yields', [])) for b, d in enumerate(case['builds'])}
    ins = Instrument(world, events, yields)
    results = {}
    old_network = ledger.network

    orig_change_address = AddressManager.get_or_create_usable_address
    at_change = {}

    async def change_address(self_):
        d_ = case['builds'][cur_build.get()] if isinstance(cur_build.get(), int) else {}
        if d_.get('action') == 'cancel_change':
            at_change[cur_build.get()] = True
            await asyncio.sleep(3600)          # the caller cancels the build here
        return await orig_change_address(self_)
    AddressManager.get_or_create_usable_address = change_address

    async def mark_spent(b, tx):
        tok = op_label.set(('spend', b))
        try:
            def mark(conn):
                for t in tx.inputs:
                    if t.txo_ref.id not in rid_of:
                        continue
                    conn.execute("INSERT OR IGNORE INTO txi (txid, txoid, address, position) VALUES (?, ?, ?, ?)",
                                 ('sp%d' % b, t.txo_ref.id, 'x', t.position)).fetchall()
            await ledger.db.db.run(mark)
        finally:
            op_label.reset(tok)

    async def job(b, d):
        cur_build.set(b)
        for _ in range(d.get('delay', 0)):
            await asyncio.sleep(0)
        async def until(cond, limit=3000):
            # scheduling aid of hand-made cases: never waits for ever
            for _ in range(limit):
                if cond():
                    return
                await asyncio.sleep(0.001)

        def over(x_):
            return 'status' in results.get(x_, {})
        if d.get('after_sync') is not None:
            await until(lambda: d['after_sync'] in synced)
        if d.get('after_done_of') is not None:
            await until(lambda: over(d['after_done_of']))
        if d.get('after_tx_of') is not None:
            await until(lambda: 'tx' in results.get(d['after_tx_of'], {}) or over(d['after_tx_of']))
        if d.get('after_read_of') is not None:
            await until(lambda: any(k in ('read', 'sqlite') and x == d['after_read_of'] for k, x, _ in events)
                        or over(d['after_read_of']) or 'tx' in results.get(d['after_read_of'], {}))
        if d.get('after_payer_fail') is not None:
            await until(lambda: (hub.attempts.get(d['after_payer_fail']) and ins.released.get(d['after_payer_fail']) is not None)
                        or over(d['after_payer_fail']))
        if d.get('payer'):
            # the real periodic WalletServerPayer makes this payment: it builds, signs and sends through
            # ledger.broadcast_or_release; the hub connection is lost during the send
            outs = c03.make_outputs(d['outs'])
            res = {'pre_desc': [], 'outs': outs, 'pre_wallet': [], 'payer': True}
            results[b] = res
            payer = WalletServerPayer(payment_period=0, max_fee='9999999999.0')
            hub.payers[b] = payer
            hub.features = {'payment_address': ledger.hash160_to_address(bytes([d['outs'][0].get('tag', 7)]) * 20),
                                       'daily_fee': dewies_to_lbc(d['outs'][0]['amount'])}
            await payer.start(ledger, world.wallet)
            payers.append(payer)
            for _ in range(5000):
                if payer.task.done() or (hub.attempts.get(b) and ins.released.get(b) is not None):
                    break
                await asyncio.sleep(0.001)
            res['status'] = 'released' if hub.attempts.get(b) else ('failed' if ins.asked.get(b) else 'prelock')
            return
        if d.get('fund'):
            # the real Account.fund: an amount to another account of the wallet, or everything; it builds, signs and
            # broadcasts by itself
            outs = c03.make_outputs(d['outs'])
            res = {'pre_desc': [], 'outs': outs, 'pre_wallet': []}
            results[b] = res
            try:
                if d['fund'] == 'everything':
                    tx = await world.accounts[0].fund(world.accounts[1], everything=True, broadcast=True)
                else:
                    tx = await world.accounts[0].fund(world.accounts[1], amount=d['outs'][0]['amount'], broadcast=True)
            except InsufficientFundsError:
                res['status'] = 'failed'
                return
            except (ConnectionError, RPCError):
                res['status'] = 'released'       # fund failed to send: the caller has no transaction, it is abandoned
                res['fund_failed'] = True
                return
            res['tx'] = tx
            n_pre = len(tx.inputs) if d['fund'] == 'everything' else 0
            res['pre_wallet'] = [rid_of.get(t.txo_ref.id, -1) for t in tx.inputs[:n_pre]]
            res['pre_desc'] = [[rid_of.get(t.txo_ref.id, -1), t.amount, 148] for t in tx.inputs[:n_pre]]
            res['added'] = [rid_of.get(t.txo_ref.id, -1) for t in tx.inputs[n_pre:]]
            extra = list(tx.outputs)[len(outs):]
            res['change'] = extra[0].amount if len(extra) == 1 else (None if not extra else [o.amount for o in extra])
            await ins.pause()
            await mark_spent(b, tx)
            res['status'] = 'broadcast'
            return
        pre, pre_desc = c03.make_pre(world, d, made, rid_of)
        outs = c03.make_outputs(d['outs'])
        res = {'pre_desc': pre_desc, 'outs': outs, 'pre_wallet': [x[0] for x in pre_desc if x[0] < c03.EXTERNAL_BASE]}
        results[b] = res
        if d.get('action') == 'cancel_change':
            # the caller cancels the build while it waits for its change address (request timeout, shutdown): the
            # build has failed, whatever it had reserved has to be released
            inner = asyncio.ensure_future(Transaction.create(pre, outs, funding_of(d), change_acc, sign=False))
            while not inner.done() and not at_change.get(b):
                await asyncio.sleep(0.001)
            if not inner.done():
                inner.cancel()
                try:
                    await inner
                except asyncio.CancelledError:
                    pass
                res['status'] = 'failed'
                res['cancelled'] = True
                return
            d = dict(d, action='release')
            create_result = inner
        else:
            create_result = None
        signing = bool(d.get('sign'))
        fault = signing and (bool(case.get('locked')) or c03.GHOST in case['funding'])
        try:
            if create_result is not None:
                tx = await create_result
            else:
                tx = await Transaction.create(pre, outs, funding_of(d), change_acc, sign=signing)
        except InsufficientFundsError:
            res['status'] = 'failed'
            return
        except Exception as e:  # noqa
            if fault:
                # injected fault at the signing step (locked account / no key for the address): a failed build
                res['status'] = 'failed'
                res['signfail'] = True
            else:
                res['status'] = 'EXC ' + type(e).__name__ + ':' + str(e)[:80]
            return
        res['tx'] = tx
        res['added'] = [rid_of.get(t.txo_ref.id, -1) for t in tx.inputs[len(pre):]]
        extra = list(tx.outputs)[len(outs):]
        res['change'] = extra[0].amount if len(extra) == 1 else (None if not extra else [o.amount for o in extra])
        for _ in range(d.get('hold_yields', 0)):
            await asyncio.sleep(0)
        act = d['action']
        if act == 'release':
            await ledger.release_tx(tx)
            res['status'] = 'released'
        elif act == 'broadcast_fail':
            try:
                await manager.broadcast_or_release(tx)
            except (ConnectionError, RPCError):
                pass
            res['status'] = 'released'      # the server rejected it: it will never confirm, it is abandoned
        elif act == 'broadcast_cancel':
            # the server never answers; the caller gives up (wait_for timeout / task.cancel): the transaction was never
            # sent, it is abandoned
            pending = asyncio.ensure_future(manager.broadcast_or_release(tx))
            for _ in range(d.get('cancel_after', 2)):
                await asyncio.sleep(0)
            pending.cancel()
            try:
                await pending
                res['status'] = 'EXC cancelled broadcast returned'
            except asyncio.CancelledError:
                res['status'] = 'released'
        elif act == 'broadcast_hangup':
            # the hub hangs up cleanly while the broadcast is pending: the transaction was not sent, whatever the call
            # reports; it is abandoned and its inputs have to be released
            try:
                await manager.broadcast_or_release(tx)
            except (ConnectionError, RPCError, asyncio.TimeoutError):
                pass
            res['status'] = 'released'
        elif act == 'broadcast_down':
            # the connection to the wallet server is down when the transaction is handed over: it cannot be sent, so it
            # has to be released
            try:
                await manager.broadcast_or_release(tx)
                res['status'] = 'EXC broadcast without a connection returned'
            except ConnectionError:
                res['status'] = 'released'
        elif act == 'broadcast':
            # accepted by the network through the real broadcast_or_release; what the ledger then records: inputs spent
            await manager.broadcast_or_release(tx)
            await ins.pause()
            await mark_spent(b, tx)
            res['status'] = 'broadcast'
        else:
            res['status'] = 'finish'        # still in flight when the case ends

    ins.install()
    debug_state = None
    if case.get('debug_log'):
        # the ledger logger at DEBUG (nothing is printed): logging must not change what is reserved
        lg = logging.getLogger('lbry.wallet.ledger')
        debug_state = (logging.root.manager.disable, lg.level, lg.propagate, list(lg.handlers), list(logging.root.handlers))
        logging.root.handlers = [logging.NullHandler()]      # everything else stays silent as well
        logging.disable(logging.NOTSET)
        lg.setLevel(logging.DEBUG)
        lg.propagate = False
        lg.handlers = [logging.NullHandler()]
    with_pre = [b for b, d in enumerate(case['builds']) if any(p['kind'] == 'wallet' for p in d.get('pre', []))]

    async def barrier():
        # callers hand in their pre-chosen wallet outputs before anybody funds (unless the case says otherwise): wait
        # until each of those builds has reserved them - or is over
        if not case.get('barrier', False):
            return
        for _ in range(20000):
            if all(p in ins.pre_done or 'status' in results.get(p, {}) or 'tx' in results.get(p, {}) for p in with_pre):
                return
            await asyncio.sleep(0)
    ins.barrier = barrier

    async def after_read():
        d = case['builds'][cur_build.get()]
        p = d.get('after_read_wait_for_pre')
        for _ in range(100):
            if p is None or p in ins.pre_done or 'status' in results.get(p, {}):
                break
            await asyncio.sleep(0.001)
    ins.after_read = after_read
    hub = FakeSession({b: {'broadcast_fail': 'reject', 'broadcast_cancel': 'hang', 'broadcast_down': 'down',
                           'payer_down': 'payer', 'fund_reject': 'reject', 'broadcast_hangup': 'hangup'}.get(d['action'], 'accept')
                       for b, d in enumerate(case['builds'])}, events)
    ledger.network = Network(ledger)          # the real Network; only its session is fake
    ledger.network.client = hub
    manager = WalletManager(wallets=[world.wallet], ledgers={type(ledger): ledger})
    payers = []

    async def release_other(k, rd):
        # the reservations of a DIFFERENT account are released (utxo_release for that account): nothing held by builds
        # that are funded from this account may change
        for _ in range(rd.get('delay', 0)):
            await asyncio.sleep(0)
        if rd.get('after') is not None:
            for _ in range(3000):
                if 'tx' in results.get(rd['after'], {}) or 'status' in results.get(rd['after'], {}):
                    break
                await asyncio.sleep(0.001)
        tok = op_label.set(('sync', 'relother%d' % k))
        try:
            if rd.get('via') == 'utxo_release' and daemon_class() is not None:
                # the daemon command `utxo_release` for this wallet (accounts 0 and 1); the builds of such a case are
                # funded from an account that is on the same ledger but belongs to no account list of this wallet
                from unittest import mock
                dm = mock.MagicMock()
                dm.wallet_manager.get_wallet_or_default.return_value = world.wallet
                dm.ledger = ledger
                await daemon_class().jsonrpc_utxo_release(dm)
            else:
                await ledger.db.release_all_outputs(world.accounts[1])
        finally:
            op_label.reset(tok)
        synced.add('o%d' % k)

    synced = set()

    async def sync(k, sd):
        # the wallet sync stores a funding transaction again for each of its addresses (it does when the transaction
        # moves from the mempool into a block); nothing about reservations may change
        for _ in range(sd.get('delay', 0)):
            await asyncio.sleep(0)
        if sd.get('after') is not None:
            # wait until that build holds its inputs (its transaction has been returned)
            for _ in range(3000):
                if 'tx' in results.get(sd['after'], {}) or 'status' in results.get(sd['after'], {}):
                    break
                await asyncio.sleep(0.001)
        for ti in sd['txs']:
            ftx, hashes = world.funding_txs[ti]
            for h in hashes:
                tok = op_label.set(('sync', 'sync%d' % k))
                try:
                    await ledger.db.save_transaction_io(ftx, ledger.hash160_to_address(h), h, '')
                finally:
                    op_label.reset(tok)
                for _ in range(sd.get('gap', 0)):
                    await asyncio.sleep(0)
        synced.add(k)
    if case.get('locked'):
        for acc in funding:
            acc.encrypt('password')      # wallet locked: funding works, signing cannot
    try:
        async def reconnect(k, rd):
            # the connection to the wallet server drops and comes back: the network emits on_connected and the ledger runs
            # its handler, the real Ledger.join_network; nothing about reservations may change
            for _ in range(rd.get('delay', 0)):
                await asyncio.sleep(0)
            if rd.get('after') is not None:
                for _ in range(3000):
                    if 'tx' in results.get(rd['after'], {}) or 'status' in results.get(rd['after'], {}):
                        break
                    await asyncio.sleep(0.001)
            tok = op_label.set(('sync', 'reconnect%d' % k))
            try:
                ledger.network._on_connected_controller.add(True)   # the network emits on_connected ...
                await ledger.join_network(True)               # ... and the ledger runs its handler
                await ledger.db.db.run(lambda conn: None)      # a point at which the is_reserved column is sampled
            finally:
                op_label.reset(tok)
            synced.add('r%d' % k)

        async def guarded(b, d):
            try:
                await job(b, d)
            except Exception as e:  # noqa  (reported by the monitor as a failure of that build)
                results.setdefault(b, {})['status'] = 'EXC ' + type(e).__name__ + ':' + str(e)[:80]
        tasks = [asyncio.ensure_future(guarded(b, case['builds'][b])) for b in case['start_order']]
        tasks += [asyncio.ensure_future(sync(k, sd)) for k, sd in enumerate(case.get('syncs', []))]
        tasks += [asyncio.ensure_future(reconnect(k, rd)) for k, rd in enumerate(case.get('reconnects', []))]
        tasks += [asyncio.ensure_future(release_other(k, rd)) for k, rd in enumerate(case.get('release_others', []))]
        await asyncio.gather(*tasks)
        if payers:
            await asyncio.sleep(0.05)          # a payer that (wrongly) waited for the reconnect gets to send now
            for p_ in payers:
                p_.running = False
                if p_.task is not None and not p_.task.done():
                    p_.task.cancel()
                    try:
                        await p_.task
                    except BaseException:  # noqa
                        pass
    finally:
        ins.restore()
        AddressManager.get_or_create_usable_address = orig_change_address
        if debug_state is not None:
            lg = logging.getLogger('lbry.wallet.ledger')
            lg.setLevel(debug_state[1])
            lg.propagate = debug_state[2]
            lg.handlers = debug_state[3]
            logging.root.handlers = debug_state[4]
            logging.disable(debug_state[0])
        if case.get('locked'):
            for acc in funding:
                acc.decrypt('password')
        c03.RecordingRandom.tagger = None
        ledger.network = old_network
        ledger._utxo_reservation_lock = asyncio.Lock()
    rows_after = await world.rows(funding)
    # a broadcast input keeps its flag but is spent: it is no longer an output anybody could select
    reserved_after = sorted(r['rid'] for r in rows_after if r['is_reserved'] and not r['spent'])
    shuffles = [[[rid_of[i] for i in a], [rid_of[i] for i in b]] for a, b, _ in c03.RecordingRandom.log]
    shuffles_by = {}
    for a, b, who in c03.RecordingRandom.log:
        shuffles_by.setdefault(who, []).append([[rid_of[i] for i in a], [rid_of[i] for i in b]])
    obs = {'rows_before': rows_before, 'rows_after': rows_after, 'events': events, 'results': results, 'orders': orders,
           'asked': ins.asked, 'shuffles': shuffles, 'shuffles_by': shuffles_by, 'rid_of': rid_of,
           'unsignable': [r['rid'] for r in await world.rows([world.accounts[c03.GHOST]])]}
    impl = {'builds': [], 'reserved': reserved_after,
            'wallet': sorted(r['rid'] for r in c03.spendable_rows(rows_after))}
    for b in range(len(case['builds'])):
        r = results.get(b, {})
        pw = r.get('pre_wallet', [])
        if r.get('status') == 'failed' or r.get('payer') or r.get('fund_failed'):
            took = [rid_of[t] for t in ins.released.get(b, []) if t in rid_of]
        else:
            took = pw + r.get('added', [])
        impl['builds'].append({'phase': r.get('status', 'never-ran'),
                               'held': took if r.get('status') == 'finish' else [],
                               'rounds': len(ins.asked.get(b, [])) - (1 if r.get('status') == 'failed' and not r.get('signfail') and not r.get('cancelled') else 0),
                               'took': took})
    return impl, obs


def schedule_of(events, n, twice=(), cancelled=()):
    """the model schedule induced by the observed events: one entry per model step.
    A build's first critical section is the reservation of its pre-chosen inputs (PreLock, Pre, PreUnlock); every later
    one is a funding round (Lock, Read, Select, Reserve, Unlock)."""
    sched, in_round, marks = [], {}, {}
    holding, pre_over = set(), set()
    skipping, skipped = set(), set()
    for kind, b, _ in events:
        if kind == 'sync':
            sched.append(n)       # Model/C14.step ignores indices that are no build: a no-op on the wallet and on reserved
            continue
        if not isinstance(b, int) or kind == 'sent':
            continue
        if b in twice and b in pre_over and b not in skipped and (kind == 'lock' or b in skipping):
            # Account.fund(everything=True) has picked and reserved its outputs under the lock itself; create then
            # reserves the same pre-chosen inputs once more: nothing changes, not a step of the model
            if kind == 'lock':
                skipping.add(b)
            elif kind == 'unlock':
                skipping.discard(b)
                skipped.add(b)
            continue
        if kind == 'lock':
            holding.add(b)
            sched.append(b)
            in_round[b] = 1
        elif b not in pre_over and b in holding:
            if kind == 'reserve':
                sched.append(b)                       # Pre
            elif kind == 'unlock':
                holding.discard(b)
                pre_over.add(b)
                sched.append(b)                       # PreUnlock
        elif kind == 'read':
            if in_round.get(b, 0) >= 3:
                continue                              # the second account's rows of the same Read
            sched += [b, b]
            in_round[b] = in_round.get(b, 0) + 2
        elif kind == 'sqlite':
            sched += [b, b, b]
            in_round[b] = in_round.get(b, 0) + 3
        elif kind == 'reserve':
            if b in holding:
                sched.append(b)
                in_round[b] = in_round.get(b, 0) + 1
        elif kind == 'unlock':
            holding.discard(b)
            pad = max(0, 4 - in_round.get(b, 0))
            sched += [b] * (pad + 1)
            in_round[b] = 0
        elif kind in ('release', 'spend'):
            marks[b] = len(sched)          # position of the step that ends the build
            if b in cancelled:
                sched.append(b)            # the cancellation itself: the build leaves its program for Abort
            sched.append(b)
    return sched, marks


def model_run(model, case, obs, sched, upto=None):
    builds = []
    for b, d in enumerate(case['builds']):
        builds.append({'strategy': case['strategy'], 'amounts': obs['asked'].get(b, []),
                       'broadcast': d['action'] in ('broadcast', 'fund_amount', 'fund_everything'),
                       'sign': bool(d.get('sign')) or bool(d.get('payer')) or bool(d.get('fund')),
                       'quits': [len(obs['asked'].get(b, []))] if obs['results'].get(b, {}).get('cancelled') else None,
                       'order': obs['orders'].get(b), 'pre': obs['results'].get(b, {}).get('pre_wallet', []),
                       'start': bool(obs['asked'].get(b))})
    return model.call('run', fpb=case['fpb'], shuffles=obs['shuffles'], builds=builds,
                      sched=sched if upto is None else sched[:upto], wallet=c03.model_wallet(obs['rows_before']),
                      use_lock=True, locked=bool(case.get('locked')), unsignable=obs['unsignable'])


def monitor(case, impl, obs):
    """C14's own statement on the implementation's behaviour: the is_reserved column is sampled inside every
    reserving / releasing database transaction and followed through the whole run"""
    events = obs['events']
    rid_of = obs['rid_of']
    n = len(case['builds'])
    for b, r in obs['results'].items():
        st = r.get('status', '')
        if st.startswith('EXC'):
            return 'build %d failed with %s' % (b, st)
    held = {b: set() for b in range(n)}
    got = {b: set() for b in range(n)}
    prev = set()
    pre_checked = set()
    for kind, b, snap in events:
        if kind == 'sent':
            ids = {rid_of[t] for t in snap[1] if t in rid_of}
            if not ids <= held.get(b, set()):
                others = {x: sorted(h & ids) for x, h in held.items() if x != b and h & ids}
                return ('the transaction of build %s was sent to the network although its inputs %s were no longer held by '
                        'it (never reserved, or already released; now held by %s): only a transaction that still holds its inputs may be sent' % (
                            b, sorted(ids - held.get(b, set())), others))
            continue
        if snap is None or b is None:
            continue
        cur = {rid_of[t] for t in snap}
        if kind == 'sync':
            if cur != prev:
                holders = {x: sorted(h & (prev - cur)) for x, h in held.items() if h & (prev - cur)}
                what = ('a reconnect (ledger.join_network)' if str(b).startswith('reconnect') else
                        'releasing the reservations of another account' if str(b).startswith('relother') else
                        're-saving the funding transaction')
                return (what + ' changed is_reserved: %s became available while held by %s '
                        '(an output must stay unavailable until its holder is broadcast or abandoned)' % (
                            sorted(prev - cur), holders))
            continue
        if not isinstance(b, int):
            continue
        if kind == 'reserve' and b not in pre_checked:
            # the build's first reservation is the one of its pre-chosen inputs: the caller has to hand in outputs
            # that nobody holds (the code does not refuse them); if that is broken nothing below is the wallet's fault
            pre_checked.add(b)
            want = set(obs['results'].get(b, {}).get('pre_wallet', []))
            if want - (cur - prev):
                if case['builds'][b].get('fund') == 'everything':
                    # here the caller is the wallet's own Account.fund: picking outputs that are free is its job, so no
                    # exemption - the clauses below judge the run (its later funding rounds may add further inputs)
                    pass
                else:
                    return 'PREMISE'
        if kind in ('reserve', 'sqlite'):
            if prev - cur:
                return 'a reservation by build %d cleared the flag of %s' % (b, sorted(prev - cur))
            new = cur - prev
            held[b] |= new
            got[b] |= new
        else:
            gone = prev - cur
            if cur - prev:
                return 'a release by build %d set the flag of %s' % (b, sorted(cur - prev))
            if gone != held[b]:
                return 'build %d finished holding %s but %s became available' % (b, sorted(held[b]), sorted(gone))
            held[b] = set()
        union = set()
        for x in held.values():
            if union & x:
                return 'an output is held by two builds: %s' % sorted(union & x)
            union |= x
        if union != cur:
            return 'is_reserved column %s differs from the union of the inputs in flight %s' % (sorted(cur), sorted(union))
        prev = cur
    for b in range(n):
        if impl['builds'][b]['phase'] in ('failed', 'released', 'broadcast') and held[b]:
            return 'build %d has %s but the outputs %s it reserved were never released: they stay unavailable' % (
                b, impl['builds'][b]['phase'], sorted(held[b]))
    by_rid = {r['rid']: r for r in obs['rows_before']}
    for b in range(n):
        took = impl['builds'][b]['took']
        if len(set(took)) != len(took):
            return 'build %d uses an output twice: %s' % (b, took)
        for a in took:
            if a not in by_rid or by_rid[a]['spent'] or by_rid[a]['is_reserved']:
                return 'build %d spends %s which is not an unspent unreserved output of the wallet' % (b, a)
        if set(took) - got[b]:
            stale = set(took) - got[b]
            others = sorted(b2 for b2 in range(n) if b2 != b and stale & set(impl['builds'][b2]['took']))
            if not others:
                return ('build %d spends %s without ever having reserved it: the output stays available to the other '
                        'builds while this transaction holds it' % (b, sorted(stale)))
            return ('builds %d and %s both spend outpoint(s) %s: build %d selected an output that was already reserved '
                    '(no output may be selected by more than one build)' % (b, others, sorted(stale), b))
        if set(took) != got[b]:
            return ('build %d uses %s but the outputs it newly reserved are %s: it selected an output that was '
                    'not available' % (b, sorted(took), sorted(got[b])))
    in_flight = set()
    for b in range(n):
        if impl['builds'][b]['phase'] == 'finish':
            in_flight |= set(impl['builds'][b]['took'])
    if set(impl['reserved']) != in_flight:
        return 'is_reserved column %s differs from the inputs of the builds still in flight %s' % (
            impl['reserved'], sorted(in_flight))
    spent = set()
    for b in range(n):
        if impl['builds'][b]['phase'] == 'broadcast':
            spent |= set(impl['builds'][b]['took'])
    before = {r['rid'] for r in c03.spendable_rows(obs['rows_before'])}
    if set(impl['wallet']) != before - spent:
        return 'the set of unspent outputs is not the original one minus the broadcast inputs'
    if all(impl['builds'][b]['phase'] in ('released', 'failed') for b in range(n)):
        flags_b = sorted((r['rid'], r['is_reserved'], r['spent']) for r in obs['rows_before'])
        flags_a = sorted((r['rid'], r['is_reserved'], r['spent']) for r in obs['rows_after'])
        if flags_a != flags_b:
            return 'all builds failed or were abandoned but the wallet is not back to its initial state'
    return None



def linearize(c03_model, case, impl, obs):
    """replays the builds one after the other, in the order in which they entered the critical section, through
    Model/C03's create: returns (what the implementation's builds did, what the sequential model run predicts) or
    None when some build entered the critical section more than once (then only Model/C14's run applies)"""
    n = len(case['builds'])
    if any(len(obs['asked'].get(b, [])) > 1 for b in range(n)):
        return None
    wallet = c03.model_wallet(obs['rows_before'])
    got, want = {}, {}
    taken = {}
    started = set()
    pre_marked = set()
    for kind, b, _ in obs['events']:
        if not isinstance(b, int) or kind == 'sent':
            continue
        if kind == 'read' and b in started:
            continue
        if kind == 'reserve' and b not in started and b not in pre_marked:
            # the pre-chosen wallet inputs become reserved; a build they fully fund never reads the wallet
            pre_marked.add(b)
            pw = set(obs['results'][b].get('pre_wallet', []))
            taken[b] = set(pw)
            for e in wallet:
                if e[0][0] in pw:
                    e[1] = True
            if obs['asked'].get(b):
                continue
        if kind in ('read', 'sqlite') or (kind == 'reserve' and b in pre_marked and b not in started and not obs['asked'].get(b)):
            started.add(b)
            # the moment the build reads the wallet inside its critical section
            d = case['builds'][b]
            r = obs['results'][b]
            view = wallet
            if b in obs['orders']:
                pos = {u: i for i, u in enumerate(obs['orders'][b])}
                view = sorted(wallet, key=lambda e: pos.get(e[0][0], len(pos)))
            req = dict(fpb=case['fpb'], fpnc=case['fpnc'], strategy=case['strategy'], shuffles=obs['shuffles_by'].get(b, []),
                       pre=r['pre_desc'], outs=[c03.out_desc(o, None) for o in r['outs']], wallet=view,
                       sign=bool(d.get('sign')) or bool(r.get('cancelled')),
                       locked=bool(case.get('locked')) or bool(r.get('cancelled')),     # cancelled = fails after funding
                       unsignable=obs['unsignable'])
            try:
                m = c03_model.call('create', **req)
            except vlib.ModelError as e:
                m = {'result': 'MODELERROR ' + str(e)}
            if m.get('result') == 'ok':
                want[b] = {'result': 'ok', 'added': m['added'], 'change': m['change']}
                taken[b] = taken.get(b, set()) | set(m['added'])
                for e in wallet:
                    if e[0][0] in taken[b]:
                        e[1] = True
            elif m.get('result') == 'SignFails':
                # funded, then tx.sign raises: the inputs stay reserved until the handler's release_tx runs
                want[b] = {'result': 'SignFails'}
                taken[b] = taken.get(b, set()) | set(m['held'])
                for e in wallet:
                    if e[0][0] in taken[b]:
                        e[1] = True
            else:
                want[b] = {'result': m.get('result')}
            if r.get('cancelled'):
                got[b] = {'result': 'SignFails'}
            elif (r.get('payer') or r.get('fund_failed')) and r.get('status') != 'failed':
                # the payer does not hand out its transaction: only its inputs are known (what it released)
                got[b] = {'result': 'ok', 'added': impl['builds'][b]['took']}
                want[b].pop('change', None)
            elif r.get('signfail'):
                got[b] = {'result': 'SignFails'}
            elif r.get('status') == 'failed':
                got[b] = {'result': 'InsufficientFundsError'}
            else:
                got[b] = {'result': 'ok', 'added': r.get('added'), 'change': r.get('change')}
            if case['strategy'] == 'sqlite':
                for x in (got[b], want[b]):
                    if 'added' in x:
                        x['added'] = sorted(x['added'])
        elif kind == 'release' and b in taken:
            for e in wallet:
                if e[0][0] in taken[b]:
                    e[1] = False
            taken[b] = set()
        elif kind == 'spend' and b in taken:
            wallet = [e for e in wallet if e[0][0] not in taken[b]]
            taken[b] = set()
    return got, want

# ----------------------------------------------------------------------------------------------
def gen_case(rng, tier):
    strategy = rng.choice(c03.strategies())
    fpb = rng.choice([1, 10, 50, 50, 50, 1000])
    n_utxo = rng.choice([1, 2, 3, 4, 6, 8, 12, 16, 24])
    txs = c03.gen_wallet(rng, fpb, 1, n_utxo)
    for t in txs:
        t.pop('purchase', None)
    amounts = [o['amount'] - 148 * fpb for t in txs for o in t['outs']]
    total = sum(a for a in amounts if a > 0)
    n = rng.randrange(2, 13)
    fund = c03.GHOST if rng.random() < 0.15 else 0       # the ghost account: no key can be found for its addresses
    for t in txs:
        for o in t['outs']:
            o['acct'] = fund
    locked = rng.random() < 0.25
    builds = []
    for b in range(n):
        c = rng.random()
        outs = [{'kind': 'pay', 'amount': 1}]
        if c < 0.5 and amounts:
            want = max(1, rng.choice(amounts) - rng.choice([0, 46 * fpb, 56 * fpb + 1001, rng.randrange(0, 5000)]))
        elif c < 0.8:
            want = max(1, total // rng.choice([1, 2, 3, 5, 8, 13]))
        elif c < 0.9:
            want = total + rng.randrange(1, 10 ** 6)
        else:
            want = int(10 ** rng.uniform(2, 9))
        outs[0]['amount'] = max(1, want - 44 * fpb)
        pre = []
        if rng.random() < 0.1:
            outs = []
            pre = [{'kind': 'external', 'amount': max(1, 148 * fpb + rng.choice([1, 10 * fpb, 56 * fpb, 56 * fpb + 1000]))}]
        builds.append({'outs': outs, 'pre': pre, 'sign': (not pre) and rng.random() < 0.5,
                       'action': rng.choice(['release', 'release', 'broadcast', 'broadcast', 'broadcast_fail', 'hold']),
                       'delay': rng.choice([0, 0, 0, 1, 2, 5]),
                       'hold_yields': rng.choice([0, 0, 1, 3, 10, 30]),
                       'yields': [rng.choice([0, 0, 0, 1, 1, 2, 3, 7]) for _ in range(40)]})
    # builds that are handed a plain wallet output as pre-chosen input (sweep / txo_spend / consolidation): it covers
    # the cost, or needs topping up; other builds want the same output
    refs = [(ti, k) for ti, t in enumerate(txs) for k in range(len(t['outs']))]
    rng.shuffle(refs)
    for d in builds:
        if refs and not d['pre'] and rng.random() < 0.15:
            ti, k = refs.pop()
            amt = txs[ti]['outs'][k]['amount']
            d['pre'] = [{'kind': 'wallet', 'ref': [ti, k]}]
            d['sign'] = False
            c = rng.random()
            if c < 0.5:
                d['outs'] = []
            elif c < 0.8:
                d['outs'] = [{'kind': 'pay', 'amount': max(1, (amt - 148 * fpb) // rng.choice([2, 3, 10]))}]
            else:
                d['outs'] = [{'kind': 'pay', 'amount': amt + rng.randrange(0, 5000)}]
    two = fund == 0 and not locked and rng.random() < 0.18
    syncs = []
    if two:
        # the same two accounts, listed in a different order by different callers; everything stays in flight so
        # that the rows read under the lock form one snapshot
        for t in txs:
            for o in t['outs']:
                o['acct'] = rng.randrange(2)
        for d in builds:
            d['funding'] = rng.choice([[0, 1], [1, 0]])
            d['action'] = 'hold'
            d['pre'] = []
            if not d['outs']:
                d['outs'] = [{'kind': 'pay', 'amount': max(1, total // rng.choice([2, 3, 5, 8]))}]
    elif rng.random() < 0.4:
        for _ in range(rng.choice([1, 1, 2])):
            syncs.append({'delay': rng.choice([0, 3, 10, 25, 60]), 'gap': rng.choice([0, 1, 4]),
                          'txs': sorted(rng.sample(range(len(txs)), rng.randrange(1, len(txs) + 1)))})
    for d in builds:
        if fund == 0 and not two and not locked and not d['pre'] and d['outs'] and rng.random() < 0.1:
            # the real Account.fund(to_account, amount, broadcast=True); sometimes the server rejects the transaction
            d.update(fund='amount', action=rng.choice(['fund_amount', 'fund_amount', 'fund_reject']), sign=False)
        elif not two and d['outs'] and not d['pre'] and rng.random() < 0.08:
            # the caller cancels the build while it waits for its change address
            d.update(action='cancel_change', sign=False)
    if fund == 0 and not two and not locked and rng.random() < 0.08:
        # Account.fund(everything=True) sweeps the account while payments are being built
        builds.append({'outs': [], 'pre': [], 'fund': 'everything', 'action': 'fund_everything', 'sign': False,
                       'delay': rng.choice([0, 0, 1, 3, 8]), 'hold_yields': 0, 'yields': [rng.choice([0, 0, 1, 2]) for _ in range(40)]})
        n = len(builds)
        # half of the time aimed at the window: a payment has read the wallet and waits (inside its critical section)
        # while the sweep starts; a sweep that does not take the reservation lock would grab what the payment then selects
        payers_ = [i for i, d in enumerate(builds[:-1]) if d['outs'] and not d['pre'] and not d.get('fund') and not d.get('payer')
                   and d['action'] != 'cancel_change']
        if payers_ and rng.random() < 0.5:
            x = rng.choice(payers_)
            builds[x]['after_read_wait_for_pre'] = n - 1
            builds[x]['delay'] = 0
            builds[-1]['after_read_of'] = x
    release_others = []
    if fund == 0 and not two and rng.random() < 0.25:
        for _ in range(rng.choice([1, 1, 2])):
            release_others.append({'delay': rng.choice([0, 5, 15, 40, 80])})
    elif fund == c03.GHOST and rng.random() < 0.6:
        # `utxo_release` of the wallet while builds funded from an account outside that wallet are pending
        for _ in range(rng.choice([1, 1, 2])):
            release_others.append({'delay': rng.choice([0, 5, 15, 40, 80]), 'via': 'utxo_release'})
    for d in builds:
        if d['action'] in ('broadcast_fail', 'broadcast') and rng.random() < 0.2:
            d['action'] = rng.choice(['broadcast_down', 'broadcast_down', 'broadcast_hangup'])
    reconnects = []
    if fund == 0 and not two and not locked and rng.random() < 0.12:
        # the periodic wallet-server payer pays its fee: the hub is lost during the send, another build runs in the gap,
        # then the connection comes back
        p_ = len(builds)
        builds.append({'outs': [{'kind': 'pay', 'amount': max(1000, total // rng.choice([2, 3, 5, 20])), 'tag': 11}], 'pre': [],
                       'payer': True, 'sign': False, 'funding': [0, 1], 'action': 'payer_down', 'delay': rng.choice([0, 2, 10]),
                       'hold_yields': 0, 'yields': [rng.choice([0, 0, 1, 2]) for _ in range(40)]})
        builds.append({'outs': [{'kind': 'pay', 'amount': max(1000, total // rng.choice([2, 3, 5]))}], 'pre': [], 'sign': False,
                       'action': rng.choice(['hold', 'broadcast', 'release']), 'delay': 0, 'hold_yields': 0, 'after_payer_fail': p_,
                       'yields': [rng.choice([0, 0, 1, 2]) for _ in range(40)]})
        reconnects.append({'delay': 0, 'after': p_ + 1})
        n = len(builds)
    if rng.random() < 0.3:
        for _ in range(rng.choice([1, 1, 2])):
            reconnects.append({'delay': rng.choice([0, 5, 15, 40, 80])})
    for d in builds:
        if d['action'] == 'broadcast_fail' and rng.random() < 0.5:
            d['action'] = 'broadcast_cancel'
            d['cancel_after'] = rng.choice([1, 2, 5])
    order = list(range(n))
    rng.shuffle(order)
    return {'kind': 'concurrent', 'fpb': fpb, 'fpnc': 0, 'strategy': strategy, 'funding': [0, 1] if two else [fund],
            'change': fund, 'txs': txs, 'locked': locked, 'syncs': syncs, 'reconnects': reconnects, 'release_others': release_others,
            'debug_log': rng.random() < 0.15,
            'reserved': [], 'builds': builds, 'start_order': order, 'seed': rng.getrandbits(32)}


async def check_concurrent(run, world, model, case, kind, c03_model=None):
    impl, obs = await run_concurrent(world, case)
    n = len(case['builds'])
    sched, marks = schedule_of(obs['events'], n, twice={b for b, d in enumerate(case['builds']) if d.get('fund') == 'everything'},
                               cancelled={b for b, r in obs['results'].items() if r.get('cancelled')})
    run.case(dict(case, origin=kind), nontrivial=sum(1 for b in impl['builds'] if b['took']) >= 2)
    run.count('builds:%d' % n)
    run.count('strategy:%s' % case['strategy'])
    if case.get('locked'):
        run.count('locked-account')
    if case.get('syncs'):
        run.count('sync re-saves funding transactions', sum(1 for k, b, _ in obs['events'] if k == 'sync' and str(b).startswith('sync')))
    if case.get('debug_log'):
        run.count('ledger logger at DEBUG')
    run.count('Account.fund(amount, broadcast=True) builds', sum(1 for d in case['builds'] if d.get('fund') == 'amount'))
    run.count('Account.fund(everything=True) builds', sum(1 for d in case['builds'] if d.get('fund') == 'everything'))
    run.count('builds cancelled by their caller', sum(1 for r in obs['results'].values() if r.get('cancelled')))
    if case.get('release_others'):
        run.count('release_all_outputs(another account) during the builds', len(case['release_others']))
        run.count('... of which through Daemon.jsonrpc_utxo_release', sum(1 for r_ in case['release_others'] if r_.get('via')))
    run.count('hub hangs up cleanly during the broadcast', sum(1 for d in case['builds'] if d['action'] == 'broadcast_hangup'))
    run.count('broadcast with the connection down', sum(1 for d in case['builds'] if d['action'] == 'broadcast_down'))
    run.count('WalletServerPayer payments losing the hub', sum(1 for d in case['builds'] if d.get('payer')))
    if case.get('reconnects'):
        run.count('reconnects (ledger.join_network) during the builds', len(case['reconnects']))
    if len(case['funding']) > 1:
        run.count('two accounts listed in different orders')
    run.count('builds with pre-chosen wallet outputs', sum(1 for r in obs['results'].values() if r.get('pre_wallet')))
    run.count('... of which never needed the lock', sum(1 for b, r in obs['results'].items() if r.get('pre_wallet') and not obs['asked'].get(b)))
    run.count('broadcast cancelled while pending', sum(1 for d in case['builds'] if d['action'] == 'broadcast_cancel'))
    if c03.GHOST in case['funding']:
        run.count('keys-not-found account')
    run.count('builds failing while signing', sum(1 for r in obs['results'].values() if r.get('signfail')))
    for b in impl['builds']:
        run.count('phase:%s' % b['phase'].split(' ')[0])
    waits = 0
    holder = None
    for kind_, b, _ in obs['events']:
        if kind_ == 'lock':
            holder = b
        elif kind_ == 'unlock':
            holder = None
        elif kind_ in ('release', 'spend') and holder is not None and holder != b:
            waits += 1
    if waits:
        run.count('release-or-spend-inside-another-critical-section')
    bad = monitor(case, impl, obs)
    if bad == 'PREMISE':
        run.count('caller premise broken: a pre-chosen output was already held (monitor not applicable, model still compared)')
        bad = None
    if bad:
        run.violation(dict(case, sched=sched, events=[[k, b] for k, b, _ in obs['events']]), bad,
                      signature={'case': vlib.canon(case)})
        return
    if any(d.get('fund') == 'everything' for d in case['builds']):
        # what Account.fund(everything=True) sweeps is whatever is free when it gets the lock: that set is not an input
        # of the model's build description, so these runs are judged by the monitor alone
        run.count('runs with Account.fund(everything=True): monitor only')
        return
    try:
        mod = model_run(model, case, obs, sched)
        took = []
        for b in range(n):
            if b in marks:
                m = model_run(model, case, obs, sched, upto=marks[b])
                took.append(m['builds'][b]['held'])
            else:
                took.append(mod['builds'][b]['held'])
        for b in range(n):
            mod['builds'][b]['took'] = took[b]
        mod.pop('lock', None)
        mod['reserved'] = sorted(mod['reserved'])
        mod['wallet'] = sorted(mod['wallet'])
    except vlib.ModelError as e:
        mod = 'MODELERROR ' + str(e)
    if case['strategy'] == 'sqlite' and isinstance(mod, dict):
        for d in (impl, mod):
            for b in d['builds']:
                b['took'] = sorted(b['took'])
                b['held'] = sorted(b['held'])
    if not run.compare('C14.run', dict(case, sched=sched), impl, mod):
        return
    if c03_model is not None:
        lin = linearize(c03_model, case, impl, obs)
        if lin is None:
            run.count('multi-round (no sequential replay)')
        else:
            run.count('sequential replay through C03.create')
            run.compare('C14.linearizable', case, {str(k): v for k, v in lin[0].items()}, {str(k): v for k, v in lin[1].items()})


def corpus_cases():
    d = os.path.join(vlib.VERIF, 'harness', 'corpus', 'C14')
    out = []
    if os.path.isdir(d):
        for nm in sorted(os.listdir(d)):
            if nm.endswith('.json'):
                body = json.load(open(os.path.join(d, nm)))
                out.extend(body if isinstance(body, list) else [body])
    return out


async def amain(run, only=None):
    model = vlib.Model('C14')
    c03_model = vlib.Model('C03')
    world = c03.World(asyncio.get_event_loop())
    await world.open()
    try:
        if only is not None:
            await check_concurrent(run, world, model, only, 'replay', c03_model)
            return
        for case in corpus_cases():
            case = dict(case)
            case.pop('origin', None)
            case.pop('sched', None)
            await check_concurrent(run, world, model, case, 'corpus', c03_model)
        for _ in range(vlib.scaled(run.tier, 600, 24000)):
            await check_concurrent(run, world, model, gen_case(run.rng, run.tier), 'generated', c03_model)
    finally:
        model.close()
        c03_model.close()
        await world.close()


RULE = ('2..12 concurrent real Transaction.create calls on one ledger (every strategy of STRATEGIES and the unset '
        'default, one per case), wallets of 1..24 outputs (C03 amount generator), each build asks for about one output, '
        'a fraction of the total, more than the total, or has no requested outputs (multi-round loop); afterwards each '
        'build abandons (release_tx), broadcasts (inputs spent), fails to broadcast (broadcast_or_release) or stays in '
        'flight; task start order, start delays and the number of event-loop yields around every database call are '
        'generated, which fixes the completion order of the database calls.  distinct = distinct case; non-trivial = at '
        'least two builds obtained inputs.')


def main(run):
    run.rule = RULE
    loop = asyncio.new_event_loop()
    asyncio.set_event_loop(loop)
    try:
        loop.run_until_complete(amain(run))
    finally:
        loop.close()


def replay(run, case):
    case = dict(case)
    case.pop('origin', None)
    case.pop('sched', None)
    case.pop('events', None)
    loop = asyncio.new_event_loop()
    asyncio.set_event_loop(loop)
    try:
        loop.run_until_complete(amain(run, only=case))
    finally:
        loop.close()
