"""C03  transaction funding: conservation, bounded fee, change, refusal only when insufficient, release on failure.

Correspondence of Model/C03.v (create / spendable / select / sqlite_select) with the real
lbry.wallet.Transaction.create running on a real Ledger + sqlite Database + Account(s) in a temp dir, and with the
real CoinSelector directly (larger lists, MAXIMUM_TRIES exhaustion), plus the property monitor evaluated on the
implementation's behaviour with independent oracles (raw SQL on the wallet database, sizes of the real serialized
objects, brute-force / closed-form coverage predicates)."""
import asyncio
import contextvars
import itertools
import json
import os
import random
import shutil
import tempfile

import lbry.wallet  # noqa: F401  (import order)
from lbry.wallet import Wallet, Account, Ledger, Database, Headers, Transaction, Output, Input
from lbry.wallet.constants import COIN, NULL_HASH32, DUST
from lbry.wallet import coinselection
from lbry.wallet.coinselection import CoinSelector
from lbry.schema.purchase import Purchase
from lbry.error import InsufficientFundsError
from lbry.wallet.account import AddressManager

import vlib

SEEDS = [
    "carbon smart garage balance margin twelve chest sword toast envelope bottom stomach absent",
    "icon spin mask slight caught sudden wear uniform trouble duty dwarf trap minute gravity",
    "ankle ramp tobacco civil merit bounce rival cable erupt pony absent tornado",
]
GHOST = 2      # account 2 funds like the others but is not listed in wallet.accounts: tx.sign finds no key for its addresses
pair_tag = contextvars.ContextVar('pair_tag', default=None)
EXTERNAL_BASE = 1000000          # uid space of pre-chosen inputs that are not wallet rows
SQLITE_REACH = 92233720368       # every amount below this is inside a window the sqlite chooser visits
CLAIM_ID = '63f2da17b0d90042c559cc73b6b17f853945c43e'


def strategies():
    """every strategy the configuration allows: coinselection.STRATEGIES and the unset default"""
    return list(coinselection.STRATEGIES) + [None]


# ----------------------------------------------------------------------------------------------
# observing Random.shuffle inside CoinSelector
# ----------------------------------------------------------------------------------------------
class RecordingRandom(random.Random):
    log = []
    source = random.Random(0)
    tagger = None        # optional callable naming who shuffles (C14: the build)

    def __init__(self, seed=None):
        super().__init__(RecordingRandom.source.getrandbits(64) if seed is None else seed)

    def shuffle(self, x):
        before = [e.txo.id for e in x]
        super().shuffle(x)
        RecordingRandom.log.append((before, [e.txo.id for e in x], RecordingRandom.tagger() if RecordingRandom.tagger else None))


coinselection.Random = RecordingRandom


# ----------------------------------------------------------------------------------------------
# the world: one real ledger + database + accounts, reused between cases (tables are emptied)
# ----------------------------------------------------------------------------------------------
class World:
    def __init__(self, loop):
        self.loop = loop
        self.dir = tempfile.mkdtemp(prefix='verif_c03_')
        self.ledger = None
        self.accounts = []
        self.recv = []      # per account: list of hash160 on the receiving chain
        self.change = []    # per account: set of hash160 on the change chain

    async def open(self):
        self.ledger = Ledger({'db': Database(os.path.join(self.dir, 'blockchain.db')), 'headers': Headers(':memory:')})
        await self.ledger.db.open()
        wallet = Wallet()
        for seed in SEEDS:
            acc = Account.from_dict(self.ledger, wallet, {"seed": seed})
            await acc.ensure_address_gap()
            self.accounts.append(acc)
            self.recv.append([self.ledger.address_to_hash160(a) for a in await acc.receiving.get_addresses()])
            self.change.append({self.ledger.address_to_hash160(a) for a in await acc.change.get_addresses()})
        self.wallet = wallet
        wallet.accounts.remove(self.accounts[GHOST])

    async def reset(self):
        def wipe(conn):
            conn.execute("DELETE FROM txi").fetchall()
            conn.execute("DELETE FROM txo").fetchall()
            conn.execute("DELETE FROM tx").fetchall()
            conn.execute("UPDATE pubkey_address SET history = NULL, used_times = 0").fetchall()
        await self.ledger.db.db.run(wipe)
        self.ledger._utxo_reservation_lock = asyncio.Lock()

    async def close(self):
        try:
            await self.ledger.db.close()
        finally:
            shutil.rmtree(self.dir, ignore_errors=True)

    async def sql(self, q, params=()):
        return await self.ledger.db.db.execute_fetchall(q, params)

    # -- building the wallet ---------------------------------------------------------------------
    async def build(self, case):
        """insert the funding transactions of the case; returns {(tx_idx, out_idx): Output}"""
        ledger = self.ledger
        made = {}
        self.funding_txs = []
        for ti, t in enumerate(case['txs']):
            outs = []
            for o in t['outs']:
                h = self.recv[o['acct']][o['addr'] % len(self.recv[o['acct']])]
                if o.get('kind', 'p2pkh') == 'claim':
                    outs.append(Output.pay_claim_name_pubkey_hash(o['amount'], o.get('name', 'name%d' % ti), b'\x01\x02', h))
                else:
                    outs.append(Output.pay_pubkey_hash(o['amount'], h))
            if t.get('purchase'):
                outs.insert(1, Output.add_purchase_data(Purchase(CLAIM_ID)))
            src = Transaction().add_outputs([Output.pay_pubkey_hash(COIN + ti, NULL_HASH32)]).outputs[0]
            ftx = Transaction(is_verified=bool(t['verified']), height=t['height']).add_inputs([Input.spend(src)]).add_outputs(outs)
            await ledger.db.insert_transaction(ftx)
            seen = set()
            for o in ftx.outputs:
                if o.script.is_pay_pubkey_hash:
                    ph = o.script.values['pubkey_hash']
                    if ph not in seen:
                        seen.add(ph)
                        await ledger.db.save_transaction_io(ftx, ledger.hash160_to_address(ph), ph, '')
            self.funding_txs.append((ftx, sorted(seen)))
            k = 0
            for pos, o in enumerate(ftx.outputs):
                if t.get('purchase') and pos == 1:
                    continue
                made[(ti, k)] = o
                k += 1
        res = [made[tuple(r)] for r in case.get('reserved', [])]
        if res:
            await ledger.reserve_outputs(res)
        return made

    async def rows(self, accounts):
        """independent view of the spendable rows of the given accounts, in account.get_utxos order, with flags"""
        out = []
        for acc in accounts:
            got = await self.sql(
                "SELECT txo.rowid AS rid, txo.txoid AS txoid, txo.amount AS amount, txo.txo_type AS txo_type, "
                "txo.is_reserved AS is_reserved, tx.height AS height, tx.is_verified AS is_verified, "
                "(SELECT COUNT(*) FROM txi WHERE txi.txoid = txo.txoid) AS spent "
                "FROM txo JOIN tx ON (tx.txid = txo.txid) "
                "WHERE txo.address IN (SELECT address FROM account_address WHERE account = ?) "
                "ORDER BY tx.height in (0, -1) DESC, tx.height DESC, tx.position DESC, txo.position, txo.txo_type, txo.rowid", (acc.id,))
            out.extend(dict(r) for r in got)
        return out

    async def reserved_txoids(self):
        return sorted(r['txoid'] for r in await self.sql("SELECT txoid FROM txo WHERE is_reserved"))


def spendable_rows(rows):
    return [r for r in rows if not r['spent'] and r['txo_type'] in (0, 4)]


def model_wallet(rows):
    return [[[r['rid'], r['amount'], r['height'], bool(r['is_verified']), r['txo_type'] == 0, r['rid']],
             bool(r['is_reserved'])] for r in spendable_rows(rows)]


# ----------------------------------------------------------------------------------------------
# requested outputs / pre-chosen inputs from their JSON description
# ----------------------------------------------------------------------------------------------
def make_outputs(descs):
    outs = []
    for d in descs:
        k = d['kind']
        if k == 'pay':
            outs.append(Output.pay_pubkey_hash(d['amount'], bytes([d.get('tag', 7)]) * 20))
        elif k == 'script_hash':
            outs.append(Output.pay_script_hash(d['amount'], bytes([d.get('tag', 9)]) * 20))
        elif k == 'claim':
            outs.append(Output.pay_claim_name_pubkey_hash(d['amount'], d['name'], b'\x07' * d['payload'], b'\x05' * 20))
        elif k == 'update':
            outs.append(Output.pay_update_claim_pubkey_hash(d['amount'], d['name'], CLAIM_ID, b'\x07' * d['payload'], b'\x05' * 20))
        elif k == 'support':
            outs.append(Output.pay_support_pubkey_hash(d['amount'], d['name'], CLAIM_ID, b'\x05' * 20))
        elif k == 'purchase':
            outs.append(Output.pay_pubkey_hash(d['amount'], b'\x06' * 20))
            outs.append(Output.add_purchase_data(Purchase(CLAIM_ID)))
        else:
            raise ValueError(k)
    return outs


def out_desc(o, ledger):
    """(amount, size, claim_name length or None) as the model wants it, measured on the real object"""
    name_len = len(o.script.values['claim_name']) if o.script.is_claim_name else None
    return [o.amount, o.size, name_len]


def real_out_fee(o, fpb, fpnc):
    nf = len(o.script.values['claim_name']) * fpnc if o.script.is_claim_name else 0
    return max(nf, o.size * fpb)


# ----------------------------------------------------------------------------------------------
# running one create() on the implementation
# ----------------------------------------------------------------------------------------------
async def prepare(world, case):
    await world.reset()
    ledger = world.ledger
    ledger.fee_per_byte = case['fpb']
    ledger.fee_per_name_char = case['fpnc']
    made = await world.build(case)
    return made


def make_pre(world, case, made, rid_of):
    pre, pre_desc = [], []
    for i, p in enumerate(case.get('pre', [])):
        if p['kind'] == 'external':
            txo = Transaction(height=5).add_outputs([Output.pay_pubkey_hash(p['amount'], bytes([i + 1]) * 20)]).outputs[0]
            txi = Input.spend(txo)
            uid = EXTERNAL_BASE + i
        else:
            txo = made[tuple(p['ref'])]
            txi = Input.spend(txo)
            uid = rid_of[txo.id]
        pre.append(txi)
        pre_desc.append([uid, txo.amount, txi.size])
    return pre, pre_desc



def new_claim(title):
    from lbry.schema.claim import Claim
    c = Claim()
    c.stream.title = title
    return c


def via_constructor(world, case, made, rid_of, funding, change_acc):
    """the case goes through one of Transaction's own constructors (pay, claim_create, claim_update, support, purchase)
    instead of create: returns (awaitable, the outputs as requested - built independently here -, pre, pre_desc)"""
    ledger = world.ledger
    d = case['outs'][0]
    via = case['via']
    addr = lambda h: ledger.hash160_to_address(h)      # noqa
    pre, pre_desc = [], []
    if via == 'pay':
        h = bytes([d.get('tag', 7)]) * 20
        want = [Output.pay_pubkey_hash(d['amount'], h)]
        call = Transaction.pay(d['amount'], addr(h), funding, change_acc)
    elif via == 'purchase':
        want = [Output.pay_pubkey_hash(d['amount'], b'\x06' * 20), Output.add_purchase_data(Purchase(CLAIM_ID))]
        call = Transaction.purchase(CLAIM_ID, d['amount'], addr(b'\x06' * 20), funding, change_acc)
    elif via == 'support':
        want = [Output.pay_support_pubkey_hash(d['amount'], d['name'], CLAIM_ID, b'\x05' * 20)]
        call = Transaction.support(d['name'], CLAIM_ID, d['amount'], addr(b'\x05' * 20), funding, change_acc)
    elif via == 'claim_create':
        claim = new_claim('created')
        want = [Output.pay_claim_name_pubkey_hash(d['amount'], d['name'], claim, b'\x05' * 20)]
        call = Transaction.claim_create(d['name'], claim, d['amount'], addr(b'\x05' * 20), funding, change_acc)
    elif via == 'claim_update':
        prev = made[tuple(d['prev_ref'])]
        claim = new_claim('second version')
        # what was requested: the same name, byte for byte, and the same claim id
        name = case['txs'][d['prev_ref'][0]]['outs'][d['prev_ref'][1]]['name']
        want = [Output.pay_update_claim_pubkey_hash(d['amount'], name, prev.claim_id, claim, b'\x05' * 20)]
        call = Transaction.claim_update(prev, claim, d['amount'], addr(b'\x05' * 20), funding, change_acc)
        txi = Input.spend(prev)
        pre, pre_desc = [txi], [[rid_of[prev.id], prev.amount, txi.size]]
    else:
        raise ValueError(via)
    return call, want, pre, pre_desc


async def run_create(world, case, made=None):
    """returns (impl, obs): impl = canonical observables compared with the model; obs = everything the monitor needs"""
    ledger = world.ledger
    if made is None:
        made = await prepare(world, case)
    ledger.coin_selection_strategy = case['strategy']
    funding = [world.accounts[i] for i in case['funding']]
    change_acc = world.accounts[case['change']]
    if case.get('confirm'):
        # the wallet has looked at its outputs while these transactions were unconfirmed (any coin selection / balance
        # does); then they confirm (the sync updates the transaction's height); then the build runs
        await ledger.get_effective_amount_estimators(list(dict.fromkeys(funding)))
        for ti in case['confirm']:
            ftx = world.funding_txs[ti][0]
            ftx.height, ftx.is_verified = 20 + ti, True
            await ledger.db.update_transaction(ftx)
    rows_before = await world.rows(list(dict.fromkeys(funding)))     # an account listed twice owns each output once
    all_rows = await world.sql("SELECT rowid AS rid, txoid FROM txo")
    rid_of = {r['txoid']: r['rid'] for r in all_rows}
    est = await ledger.get_effective_amount_estimators(funding)
    est_order = [rid_of[e.txo.id] for e in est]
    call = None
    if case.get('via'):
        call, outs, pre, pre_desc = via_constructor(world, case, made, rid_of, funding, change_acc)
    else:
        pre, pre_desc = make_pre(world, case, made, rid_of)
        outs = make_outputs(case['outs'])
    outs_before = [(o.amount, bytes(o.script.source)) for o in outs]
    RecordingRandom.log = []
    RecordingRandom.source = random.Random(case.get('seed', 0))
    res_before = await world.reserved_txoids()
    if case.get('change_used'):
        # every address of the change chain has been used and the receiving chain needs topping up as well
        await world.sql("UPDATE pubkey_address SET used_times = 1, history = 'x:1:' WHERE address IN "
                        "(SELECT address FROM account_address WHERE account = ? AND chain = 1)", (change_acc.id,))
        await world.sql("UPDATE pubkey_address SET used_times = 1, history = 'x:1:' WHERE address IN "
                        "(SELECT address FROM account_address WHERE account = ? AND chain = 0 ORDER BY n DESC LIMIT 3)",
                        (change_acc.id,))
    offered_twice = sorted({x for x in est_order if est_order.count(x) > 1})
    tx, exc = None, None
    # injected faults at the signing step: a locked (encrypted) account, or inputs of the ghost account
    fault = bool(case.get('sign')) and (bool(case.get('locked')) or GHOST in case['funding'])
    if case.get('locked'):
        for acc in dict.fromkeys(funding):
            acc.encrypt('password')
    cancelled = False
    try:
        if case.get('cancel'):
            # the caller cancels the build while it waits for its change address (request timeout, shutdown)
            orig_ca, reached = AddressManager.get_or_create_usable_address, []

            async def slow(self_):
                reached.append(1)
                await asyncio.sleep(3600)
            AddressManager.get_or_create_usable_address = slow
            try:
                inner = asyncio.ensure_future(Transaction.create(pre, outs, funding, change_acc, sign=False))
                while not inner.done() and not reached:
                    await asyncio.sleep(0)
                if not inner.done():
                    inner.cancel()
                    cancelled = True
                try:
                    tx = await inner
                except asyncio.CancelledError:
                    exc = 'SignFails'        # the model's outcome "fails after funding": everything is released
            finally:
                AddressManager.get_or_create_usable_address = orig_ca
        elif call is not None:
            tx = await call
        else:
            tx = await Transaction.create(pre, outs, funding, change_acc, sign=bool(case.get('sign')))
    except InsufficientFundsError:
        exc = 'InsufficientFundsError'
    except Exception as e:  # noqa
        exc = 'SignFails' if fault else type(e).__name__ + ':' + str(e)[:80]
        obs_exc = type(e).__name__
    finally:
        if case.get('locked'):
            for acc in dict.fromkeys(funding):
                acc.decrypt('password')
    change_chain = None
    if tx is not None and len(tx.outputs) > len(outs):
        cho = list(tx.outputs)[len(outs)]
        if cho.script.is_pay_pubkey_hash:
            got = await world.sql("SELECT chain, account FROM account_address WHERE address = ?",
                                  (ledger.hash160_to_address(cho.script.values['pubkey_hash']),))
            change_chain = [(r['chain'], r['account']) for r in got]
    ghost_rows = await world.rows([world.accounts[GHOST]])
    res_after = await world.reserved_txoids()
    shuffles = [[[rid_of[i] for i in a], [rid_of[i] for i in b]] for a, b, _ in RecordingRandom.log]
    obs = {'rows_before': rows_before, 'rid_of': rid_of, 'est_order': est_order, 'pre_desc': pre_desc, 'outs': outs,
           'cancelled': cancelled, 'offered_twice': offered_twice, 'change_chain': change_chain, 'outs_before': outs_before, 'tx': tx, 'exc': exc, 'res_before': res_before, 'res_after': res_after,
           'shuffles': shuffles, 'funding': funding, 'change_acc': change_acc, 'pre': pre,
           'unsignable': [r['rid'] for r in ghost_rows]}
    known = {r['rid'] for r in spendable_rows(rows_before)}
    impl = {'result': 'ok' if tx is not None else exc,
            'reserved': sorted(rid_of[t] for t in res_after if rid_of[t] in known)}
    obs['reserved_all'] = sorted(rid_of[t] for t in res_after)
    if tx is not None:
        n_pre = len(pre)
        added = []
        for txi in tx.inputs[n_pre:]:
            added.append(rid_of.get(txi.txo_ref.id, -1))
        impl['added'] = added
        extra = list(tx.outputs)[len(outs):]
        impl['change'] = extra[0].amount if len(extra) == 1 else (None if not extra else [o.amount for o in extra])
        fpb, fpnc = case['fpb'], case['fpnc']
        amount_in = sum(d[1] for d in pre_desc)
        by_rid = {r['rid']: r for r in rows_before}
        amount_in += sum(by_rid[a]['amount'] for a in added if a in by_rid)
        fee = amount_in - sum(o.amount for o in tx.outputs)
        impl['fee'] = fee
        fresh_in = Input.spend(Transaction().add_outputs([Output.pay_pubkey_hash(1, b'\x01' * 20)]).outputs[0]).size
        unsigned_base = 8 + cs_len(len(tx.inputs)) + cs_len(len(tx.outputs))
        obs['base_size'] = unsigned_base
        impl['required'] = (unsigned_base * fpb + sum(d[2] for d in pre_desc) * fpb + len(added) * fresh_in * fpb
                            + sum(real_out_fee(o, fpb, fpnc) for o in tx.outputs))
    return impl, obs


def cs_len(n):
    """length of a Bitcoin compact size, straight from the protocol definition (independent of lbry and the model)"""
    return 1 if n < 0xfd else 3 if n <= 0xffff else 5 if n <= 0xffffffff else 9


def model_create(model, case, obs):
    rows = obs['rows_before']
    req = dict(fpb=case['fpb'], fpnc=case['fpnc'], strategy=case['strategy'], shuffles=obs['shuffles'],
               pre=obs['pre_desc'], outs=[out_desc(o, None) for o in obs['outs']], wallet=model_wallet(rows),
               sign=bool(case.get('sign')) or obs['cancelled'], locked=bool(case.get('locked')) or obs['cancelled'],
               unsignable=obs['unsignable'])
    try:
        m = model.call('create', **req)
    except vlib.ModelError as e:
        return {'result': 'MODELERROR ' + str(e)}
    return m


def canon_pair(case, impl, mod):
    """order of the added inputs: exact for CoinSelector strategies; the sqlite chooser returns them grouped by
    funding transaction (a dict keyed by raw tx), so compare as sets there"""
    i, m = dict(impl), dict(mod)
    if isinstance(m.get('reserved'), list):
        m['reserved'] = sorted(m['reserved'])
    m.pop('held', None)
    if case['strategy'] == 'sqlite':
        for d in (i, m):
            if 'added' in d:
                d['added'] = sorted(d['added'])
    return i, m


# ----------------------------------------------------------------------------------------------
# the property's own statement, evaluated on the implementation
# ----------------------------------------------------------------------------------------------
def coverage(strategy, effs, confirmed_effs, deficit, fee46, amounts_type0=None):
    """may the strategy spend enough?  (DESIGN.md section 7); None = no closed form applicable"""
    if strategy in (None, 'standard', 'prefer_confirmed'):
        return sum(effs) >= deficit
    if strategy == 'only_confirmed':
        return sum(confirmed_effs) >= deficit
    if strategy == 'closest_match':
        return any(e >= deficit + fee46 for e in effs) and sum(effs) >= deficit
    if strategy == 'random_draw':
        return sum(effs) >= deficit + fee46
    if strategy == 'branch_and_bound':
        if len(effs) > 14:
            return None
        for r in range(1, len(effs) + 1):
            for c in itertools.combinations(effs, r):
                if deficit <= sum(c) <= deficit + fee46:
                    return True
        return False
    return None


def monitor(world, case, impl, obs):
    """returns None or a description of how the implementation broke C03 on this case"""
    fpb, fpnc = case['fpb'], case['fpnc']
    rows = obs['rows_before']
    by_rid = {r['rid']: r for r in rows}
    rid_of = obs['rid_of']
    pre_ids = [d[0] for d in obs['pre_desc']]
    res_before = sorted(rid_of[t] for t in obs['res_before'])
    res_after = obs['reserved_all']
    fresh_in = Input.spend(Transaction().add_outputs([Output.pay_pubkey_hash(1, b'\x01' * 20)]).outputs[0]).size
    fee46 = Output.pay_pubkey_hash(COIN, NULL_HASH32).size * fpb
    # what the balancing loop may pick from: unreserved rows that are not pre-chosen inputs (those are reserved first)
    free = [r for r in spendable_rows(rows) if not r['is_reserved'] and r['rid'] not in pre_ids]
    if case['strategy'] == 'sqlite':
        free = [r for r in free if r['txo_type'] == 0]
    all_positive = all(r['amount'] - fresh_in * fpb > 0 for r in free)

    if obs.get('offered_twice'):
        return ('the funding accounts offer output(s) %s more than once to the coin selection (an account listed twice): '
                'one outpoint could be spent twice in one transaction' % obs['offered_twice'])
    if impl['result'] not in ('ok', 'InsufficientFundsError', 'SignFails'):
        return 'create failed with %s (only InsufficientFundsError is allowed)' % impl['result']

    base0 = 8 + cs_len(len(pre_ids)) + cs_len(len(obs['outs']))
    cost0 = base0 * fpb + sum(o.amount + real_out_fee(o, fpb, fpnc) for o in obs['outs'])
    payment0 = sum(d[1] - d[2] * fpb for d in obs['pre_desc'])
    deficit0 = cost0 - payment0

    if impl['result'] in ('InsufficientFundsError', 'SignFails'):
        # after ANY failure nothing the build touched stays reserved, everything else keeps its flag
        expect = sorted(set(res_before) - set(pre_ids))
        if res_after != expect:
            return 'after the failure (%s) reserved=%s, expected %s (before %s minus the inputs of the tx)' % (
                'cancelled by the caller' if obs.get('cancelled') else impl['result'], res_after, expect, res_before)
    if impl['result'] == 'SignFails':
        return None        # an injected fault; whether signing had to fail is the model's prediction
    if impl['result'] == 'InsufficientFundsError':
        # refusal only when the strategy really cannot cover the cost
        if deficit0 <= 0 and obs['outs']:
            return 'refused although the pre-chosen inputs already cover the cost'
        if obs['outs'] and all_positive:
            effs = [r['amount'] - fresh_in * fpb for r in free]
            conf = [r['amount'] - fresh_in * fpb for r in free if r['height'] > 0]
            if case['strategy'] == 'sqlite':
                if all(r['amount'] < SQLITE_REACH for r in free) and sum(effs) >= deficit0 + fee46:
                    return 'sqlite chooser refused although reachable outputs worth %d cover %d' % (sum(effs), deficit0 + fee46)
            else:
                cov = coverage(case['strategy'], effs, conf, deficit0, fee46)
                if cov:
                    return 'refused although strategy %s can cover deficit %d (effective amounts %s)' % (case['strategy'], deficit0, effs[:20])
        return None

    tx = obs['tx']
    n_req = len(obs['outs'])
    outs_now = [(o.amount, bytes(o.script.source)) for o in tx.outputs]
    if outs_now[:n_req] != obs['outs_before']:
        detail = ''
        for want, got in zip(obs['outs'], list(tx.outputs)[:n_req]):
            if (want.amount, bytes(want.script.source)) != (got.amount, bytes(got.script.source)):
                wn = want.script.values.get('claim_name') if hasattr(want.script, 'values') else None
                gn = got.script.values.get('claim_name') if hasattr(got.script, 'values') else None
                detail = ': requested amount %s name %r, on the wire amount %s name %r' % (want.amount, wn, got.amount, gn)
                break
        return 'the requested outputs are not the unchanged prefix of the transaction outputs' + detail
    try:
        again = Transaction(tx.raw)
        wire = [(o.amount, bytes(o.script.source)) for o in again.outputs]
        wire_in = len(again.inputs)
    except Exception as e:  # noqa
        return 'the built transaction cannot be parsed back from its own bytes: %s' % type(e).__name__
    if wire[:n_req] != obs['outs_before'] or len(wire) != len(tx.outputs) or wire_in != len(tx.inputs):
        lens = [len(sc) for _, sc in obs['outs_before']]
        return ('on the wire (tx.raw parsed again) the requested outputs are not there unchanged: %d outputs / %d inputs '
                'instead of %d / %d; requested script lengths %s' % (len(wire), wire_in, len(tx.outputs), len(tx.inputs), lens))
    n_pre = len(pre_ids)
    if [t.txo_ref.id for t in tx.inputs[:n_pre]] != [t.txo_ref.id for t in obs['pre']]:
        return 'the pre-chosen inputs are not the unchanged prefix of the transaction inputs'
    added = impl['added']
    if len(set(added)) != len(added):
        return 'an output was added twice as input: %s' % added
    for a in added:
        r = by_rid.get(a)
        if r is None:
            return 'added input %s is not an output of the funding accounts' % a
        if r['spent']:
            return 'added input %s is already spent' % a
        if r['is_reserved']:
            return 'added input %s was reserved by somebody else' % a
        if r['txo_type'] not in (0, 4):
            return 'added input %s is not a plain spendable output (type %s)' % (a, r['txo_type'])
        if a in pre_ids:
            return 'added input %s was already a pre-chosen input' % a
    # the pre-chosen inputs that are rows of this wallet are reserved as well (repaired behaviour)
    expect = sorted(set(res_before) | set(added) | (set(pre_ids) & set(rid_of.values())))
    if res_after != expect:
        return 'after success reserved=%s, expected %s' % (res_after, expect)
    all_inputs = [t.txo_ref.id for t in tx.inputs]
    if len(set(all_inputs)) != len(all_inputs):
        return 'the transaction spends an outpoint twice: %s' % all_inputs
    extra = list(tx.outputs)[n_req:]
    if len(extra) > 1:
        return 'more than one change output'
    fee, required = impl['fee'], impl['required']
    if tx.fee != fee:
        return 'tx.fee %d differs from inputs minus outputs %d computed from the database' % (tx.fee, fee)
    small = len(tx.inputs) <= 252 and len(tx.outputs) <= 252
    base = obs['base_size']
    coc = (base + 46) * fpb
    if small:
        if fee < required:
            return 'fee %d is below the size/name fee %d' % (fee, required)
        bound = required + (coc + DUST if n_req else 5 * coc + DUST + 4)
        if fee > bound:
            return 'fee %d exceeds the size/name fee %d by more than allowed (%d)' % (fee, required, bound - required)
    if extra:
        ch = extra[0]
        if not ch.script.is_pay_pubkey_hash or obs['change_chain'] != [(1, obs['change_acc'].id)]:
            return ('the change output does not pay the change chain of the change account (its address is on %s; '
                    '1 = change chain)' % (obs['change_chain'],))
        if ch.amount <= DUST:
            return 'change output of %d is not above the dust threshold' % ch.amount
    elif small:
        # no change: the surplus left to the miner must be small
        if fee - required > (coc + DUST if n_req else 5 * coc + DUST + 4):
            return 'surplus %d was not returned as change' % (fee - required)
    if case.get('sign') and small:
        if len(tx.raw) * fpb > fee and not any(o.script.is_claim_name for o in tx.outputs):
            return 'signed transaction of %d bytes pays only %d' % (len(tx.raw), fee)
    # added inputs must have been needed: the pre-chosen inputs alone did not cover the cost
    if added and n_req and deficit0 <= 0:
        return 'inputs were added although the pre-chosen inputs covered the cost'
    return None


# ----------------------------------------------------------------------------------------------
# generators
# ----------------------------------------------------------------------------------------------
FEE_RATES = [0, 1, 2, 10, 50, 50, 50, 100, 1000, 10000]


def gen_amount(rng, fpb):
    f = 148 * fpb
    c = rng.random()
    if c < 0.15:
        return max(1, f + rng.randrange(-5, 6))                      # worth about its own input fee
    if c < 0.3:
        return f + rng.randrange(1, 3000)                            # dust-adjacent
    if c < 0.45:
        return f + rng.choice([DUST, DUST + 1, 46 * fpb, 56 * fpb, 56 * fpb + DUST, 56 * fpb + DUST + 1]) + rng.randrange(0, 3)
    if c < 0.9:
        return int(10 ** rng.uniform(3, 10)) + f
    if c < 0.97:
        return int(10 ** rng.uniform(10, 13))
    return rng.choice([99, 100, 10 ** 6 - 1, 10 ** 6, SQLITE_REACH - 1, SQLITE_REACH, 10 ** 12, 2 * 10 ** 14])


def gen_wallet(rng, fpb, n_accounts, size=None):
    n = size if size is not None else rng.choice([0, 1, 1, 2, 2, 3, 3, 4, 5, 6, 8, 10, 12, 16, 24])
    amounts = []
    style = rng.random()
    while len(amounts) < n:
        a = gen_amount(rng, fpb)
        if style < 0.3 and amounts and rng.random() < 0.6:
            a = rng.choice(amounts)                                   # equal amounts
        amounts.append(a)
    txs = []
    i = 0
    while i < len(amounts):
        k = min(len(amounts) - i, rng.choice([1, 1, 1, 2, 3]))
        h = rng.choice([-1, 0, 0, 3, 5, 5, 9, 9, 9, 12])
        c = rng.random()
        verified = (h > 0) if c < 0.85 else (not (h > 0))
        t = {'height': h, 'verified': verified,
             'outs': [{'amount': amounts[i + j], 'acct': rng.randrange(n_accounts), 'addr': rng.randrange(20)} for j in range(k)]}
        if k == 1 and rng.random() < 0.08:
            t['purchase'] = True
        txs.append(t)
        i += k
    return txs



def tune_script_length(d, target):
    """adjusts the payload (or the name) of a claim / update / support description until its script is exactly
    [target] bytes long; returns False when that length cannot be hit"""
    for _ in range(600):
        n = len(make_outputs([d])[0].script.source)
        if n == target:
            return True
        if d['kind'] == 'support':
            k = len(d['name']) + (target - n)
            if k < 1 or k > 255:
                return False
            d['name'] = 'n' * k
        else:
            p = d.get('payload', 0) + (target - n)
            if p < 0:
                return False
            d['payload'] = p
    return False


def out_fee_guess(d, fpb, fpnc):
    o = make_outputs([d])
    return sum(real_out_fee(x, fpb, fpnc) for x in o), len(o)


def gen_case(rng, strategy, tier):
    fpb = rng.choice(FEE_RATES)
    fpnc = rng.choice([0, 0, 1000, 200000, 200000])
    n_accounts = rng.choice([1, 1, 1, 1, 2, 2, 3])
    if n_accounts == 3:
        funding = rng.choice([[0, GHOST], [GHOST, 0], [GHOST], [1, GHOST, 0]])
    else:
        funding = [0] if n_accounts == 1 else rng.choice([[0, 1], [1, 0], [0], [1]])
    size = None
    if rng.random() < 0.04:
        size = rng.choice([40, 60, 100])
    txs = gen_wallet(rng, fpb, n_accounts, size)
    case = {'kind': 'create', 'fpb': fpb, 'fpnc': fpnc, 'strategy': strategy, 'funding': funding,
            'change': rng.choice(funding), 'txs': txs, 'reserved': [], 'pre': [], 'outs': [], 'seed': rng.getrandbits(32),
            'sign': False}
    refs = [(ti, k) for ti, t in enumerate(txs) for k in range(len(t['outs']))]
    mine = [(ti, k) for (ti, k) in refs if txs[ti]['outs'][k]['acct'] in funding]
    # a claim output of ours that can be passed as a pre-chosen input (claim update / abandon)
    claim_ref = None
    if rng.random() < 0.15:
        txs.append({'height': 7, 'verified': True,
                    'outs': [{'amount': int(10 ** rng.uniform(3, 9)), 'acct': funding[0], 'addr': 3, 'kind': 'claim'}]})
        claim_ref = (len(txs) - 1, 0)
    # outputs already held by another transaction being built
    if mine and rng.random() < 0.3:
        for r in rng.sample(mine, rng.randrange(1, min(3, len(mine)) + 1)):
            case['reserved'].append(list(r))
    # pre-chosen inputs
    c = rng.random()
    if c < 0.12:
        case['pre'].append({'kind': 'external', 'amount': gen_amount(rng, fpb)})
    elif c < 0.2 and claim_ref:
        case['pre'].append({'kind': 'wallet', 'ref': list(claim_ref)})
    elif c < 0.27 and case['reserved']:
        case['pre'].append({'kind': 'wallet', 'ref': case['reserved'][0]})
    elif c < 0.3:
        for _ in range(rng.randrange(2, 4)):
            case['pre'].append({'kind': 'external', 'amount': gen_amount(rng, fpb)})
    elif c < 0.42 and mine:
        # plain wallet outputs handed in without reserving them first (daemon txo_spend does that)
        cand = [list(r) for r in mine if list(r) not in case['reserved']]
        for r in rng.sample(cand, min(len(cand), rng.choice([1, 1, 2, 3]))):
            case['pre'].append({'kind': 'wallet', 'ref': r})
    # requested outputs
    kinds = rng.choice([['pay'], ['pay'], ['pay'], ['pay', 'pay'], ['claim'], ['support'], ['purchase'], ['update'],
                        ['script_hash'], ['pay', 'claim', 'pay'], [], []])
    if case['pre'] and case['pre'][0]['kind'] == 'wallet' and rng.random() < 0.5:
        kinds = []
    if not kinds and not case['pre'] and rng.random() < 0.7:
        case['pre'].append({'kind': 'external', 'amount': gen_amount(rng, fpb)})
    for k in kinds:
        d = {'kind': k, 'amount': 1}
        if k in ('claim', 'update', 'support'):
            d['name'] = rng.choice(['n' * rng.choice([1, 3, 12, 40]), 'na\u00efve-caf\u00e9', '\u540d\u524d' * rng.choice([1, 4, 10]),
                                    '\U0001f600' * rng.choice([1, 5, 12]), '\u00e9' * rng.choice([2, 20, 60])])
        if k in ('claim', 'update'):
            d['payload'] = rng.choice([0, 10, 200, 300, 4000])
        if k in ('claim', 'update', 'support') and rng.random() < 0.35:
            # script lengths at the edge of the one-byte compact size (252 / 253 / 254 bytes)
            if k == 'support' or d['name'].isascii():
                tune_script_length(d, rng.choice([252, 253, 253, 254, 255]))
        case['outs'].append(d)
    # choose the amounts so that the deficit lands on an interesting value
    chosen = [p['ref'] for p in case['pre'] if p['kind'] == 'wallet']
    free = [txs[ti]['outs'][k]['amount'] - 148 * fpb for (ti, k) in mine
            if [ti, k] not in case['reserved'] and [ti, k] not in chosen and not txs[ti]['outs'][k].get('kind')]
    total = sum(free)
    pre_eff = 0
    for p in case['pre']:
        amt = p['amount'] if p['kind'] == 'external' else txs[p['ref'][0]]['outs'][p['ref'][1]]['amount']
        pre_eff += amt - 148 * fpb
    if case['outs']:
        fees, n_out = 0, 0
        for d in case['outs']:
            f, n = out_fee_guess(d, fpb, fpnc)
            fees += f
            n_out += n
        fixed = (8 + cs_len(len(case['pre'])) + cs_len(n_out)) * fpb + fees - pre_eff
        c = rng.random()
        if free and strategy == 'sqlite' and c < 0.25:
            # the sqlite chooser accumulates in ascending amount order: land exactly on (or next to) a prefix sum
            asc = sorted(free)
            k = rng.randrange(1, len(asc) + 1)
            want = sum(asc[:k]) - 46 * fpb + rng.choice([0, 0, 0, 1, -1])
        elif free and c < 0.35:
            sub = rng.sample(free, rng.randrange(1, len(free) + 1))
            want = sum(sub) - rng.choice([0, 0, 1, 46 * fpb, 46 * fpb + 1, 46 * fpb - 1, 56 * fpb, 56 * fpb + DUST,
                                           56 * fpb + DUST + 1, 102 * fpb + DUST, 102 * fpb + DUST + 1, rng.randrange(0, 5000)])
        elif c < 0.5:
            want = total - rng.choice([0, 1, -1, 46 * fpb, 46 * fpb + 1, 46 * fpb - 1, rng.randrange(0, 2000)])
        elif c < 0.6:
            want = total + rng.randrange(1, 10 ** 6)
        elif free and c < 0.75:
            want = max(free) - rng.choice([0, 46 * fpb, 46 * fpb + 1, 46 * fpb - 1, 56 * fpb + DUST, rng.randrange(0, 10 ** 4)])
        else:
            want = int(10 ** rng.uniform(2, 11))
        per = max(1, (want - fixed)) // len(case['outs'])
        rem = max(1, (want - fixed)) - per * len(case['outs'])
        for j, d in enumerate(case['outs']):
            d['amount'] = max(0, per + (rem if j == 0 else 0))
    if rng.random() < 0.12:
        # through one of Transaction's own constructors, with names that are not in normalised form
        via = rng.choice(['pay', 'purchase', 'support', 'claim_create', 'claim_update', 'claim_update'])
        name = rng.choice(['Big-Buck-Bunny', '\u00c9t\u00e9-\u00e0-Paris', 'plain-lower-case', '\u00c9COLE', 'MiXeD\u00dc'])
        amount = max(1000, case['outs'][0]['amount'] if case['outs'] else int(10 ** rng.uniform(3, 8)))
        case['pre'] = []
        case['outs'] = [{'kind': via, 'amount': amount, 'name': name}]
        case['via'] = via
        if via == 'claim_update':
            txs.append({'height': 7, 'verified': True,
                        'outs': [{'amount': int(10 ** rng.uniform(3, 9)), 'acct': funding[0], 'addr': 3, 'kind': 'claim', 'name': name}]})
            case['outs'][0]['prev_ref'] = [len(txs) - 1, 0]
        case['sign'] = via in ('pay', 'purchase')
    if rng.random() < 0.1:
        case['change_used'] = True
    if not case.get('via') and rng.random() < 0.07:
        case['cancel'] = True
    unconf = [ti for ti, t in enumerate(txs) if t['height'] <= 0]
    if unconf and rng.random() < 0.2:
        case['confirm'] = unconf if rng.random() < 0.7 else rng.sample(unconf, rng.randrange(1, len(unconf) + 1))
    if rng.random() < 0.05:
        case['funding'] = case['funding'] + [case['funding'][0]]        # the same account listed twice
    if case.get('via'):
        pass
    elif (not any(p['kind'] == 'external' for p in case['pre']) and rng.random() < 0.3
            and all(txs[p['ref'][0]]['outs'][p['ref'][1]].get('kind') != 'claim' for p in case['pre'])):
        case['sign'] = True
    elif GHOST in funding and not any(p['kind'] == 'external' for p in case['pre']) \
            and all(txs[p['ref'][0]]['outs'][p['ref'][1]].get('kind') != 'claim' for p in case['pre']):
        case['sign'] = rng.random() < 0.8
    if case.get('cancel'):
        case['sign'] = False
    elif rng.random() < (0.3 if case['sign'] else 0.05):
        case['locked'] = True           # wallet locked: funding works, signing cannot
    return case


def gen_select_case(rng, strategy, tier):
    """a direct CoinSelector.select case (no database): larger lists, equal amounts, MAXIMUM_TRIES exhaustion"""
    fpb = rng.choice([1, 10, 50, 50, 1000])
    f = 148 * fpb
    style = rng.random()
    if style < 0.25:
        n = rng.randrange(18, 34)
        amounts = [f + 10 ** 6 + rng.randrange(10 ** 9) * 2 + 1 for _ in range(n)]      # odd: no exact match on an even target
    elif style < 0.5:
        n = rng.randrange(2, 40)
        base = rng.randrange(1, 10 ** 6)
        amounts = [f + base * rng.choice([1, 1, 2, 3]) for _ in range(n)]
    else:
        n = rng.randrange(0, 30)
        amounts = [gen_amount(rng, fpb) for _ in range(n)]
    heights = [rng.choice([-1, 0, 5, 5, 9]) for _ in range(n)]
    effs = [a - f for a in amounts]
    coc = rng.choice([0, 46 * fpb, 46 * fpb, 1, 10 ** 4])
    c = rng.random()
    if effs and c < 0.4:
        sub = rng.sample(effs, rng.randrange(1, len(effs) + 1))
        target = sum(sub) - rng.choice([0, 0, 1, coc, coc + 1, rng.randrange(0, 1000)])
    elif c < 0.6:
        target = sum(effs) - rng.choice([0, 1, -1, coc, coc + 1, coc - 1])
    elif c < 0.7 and style < 0.25:
        target = 2 * rng.randrange(sum(effs) // 4, sum(effs) // 2 + 1)
    else:
        target = int(10 ** rng.uniform(0, 10))
    return {'kind': 'select', 'fpb': fpb, 'strategy': strategy, 'amounts': amounts, 'heights': heights,
            'target': target, 'coc': coc, 'seed': rng.getrandbits(32)}


class _FakeLedger:
    def __init__(self, fpb):
        self.fee_per_byte = fpb
        self.fee_per_name_char = 0


def run_select(case):
    ledger = _FakeLedger(case['fpb'])
    ests = []
    for i, (a, h) in enumerate(zip(case['amounts'], case['heights'])):
        txo = Transaction(height=h).add_outputs([Output.pay_pubkey_hash(a, i.to_bytes(20, 'big'))]).outputs[0]
        ests.append(txo.get_estimator(ledger))
    ident = {id(e): i for i, e in enumerate(ests)}
    shuffles = []

    class R(random.Random):
        def shuffle(self, x):
            before = [ident[id(e)] for e in x]
            super().shuffle(x)
            shuffles.append([before, [ident[id(e)] for e in x]])
    sel = CoinSelector(case['target'], case['coc'])
    sel.random = R(case['seed'])
    try:
        got = sel.select(list(ests), case['strategy'])
        impl = [ident[id(e)] for e in got]
    except Exception as e:  # noqa
        impl = 'EXC ' + type(e).__name__
    return impl, shuffles, sel.tries


def monitor_select(case, impl):
    if isinstance(impl, str):
        return 'CoinSelector.select raised ' + impl
    f = 148 * case['fpb']
    effs = [a - f for a in case['amounts']]
    if len(set(impl)) != len(impl) or any(i < 0 or i >= len(effs) for i in impl):
        return 'selection %s is not a duplicate-free sub-list of the offered outputs' % impl
    if impl and sum(effs[i] for i in impl) < case['target']:
        return 'selection worth %d does not cover the target %d' % (sum(effs[i] for i in impl), case['target'])
    if case['strategy'] == 'only_confirmed' and any(case['heights'][i] <= 0 for i in impl):
        return 'only_confirmed selected an unconfirmed output'
    if all(e > 0 for e in effs) and case['target'] > 0 and effs:
        conf = [e for e, h in zip(effs, case['heights']) if h > 0]
        cov = coverage(case['strategy'], effs, conf, case['target'], case['coc'])
        if cov is True and not impl:
            return 'strategy %s returned nothing although it can cover %d' % (case['strategy'], case['target'])
        if cov is False and impl:
            return 'strategy %s returned %s although its coverage predicate is false' % (case['strategy'], impl)
    return None


# ----------------------------------------------------------------------------------------------
# one case end to end
# ----------------------------------------------------------------------------------------------
def histogram(run, case, impl, obs):
    run.count('strategy:%s' % case['strategy'])
    run.count('result:%s' % impl['result'])
    if impl['result'] == 'ok':
        run.count('added:%s' % min(len(impl['added']), 9))
        run.count('change:%s' % ('yes' if impl.get('change') is not None else 'no'))
        if not case['outs']:
            run.count('no-requested-outputs')
    if obs['shuffles']:
        run.count('shuffled')
    if case.get('sign'):
        run.count('signed')
    if case.get('locked'):
        run.count('locked-account')
    if case.get('via'):
        run.count('via Transaction.%s' % case['via'])
    if case.get('change_used'):
        run.count('all change addresses used before the build')
    if obs.get('cancelled'):
        run.count('build cancelled while waiting for its change address')
    if case.get('confirm'):
        run.count('outputs seen unconfirmed, confirmed before the build')
    if len(set(case['funding'])) != len(case['funding']):
        run.count('an account listed twice among the funding accounts')
    for o in obs['outs']:
        if 252 <= len(o.script.source) <= 255:
            run.count('requested script of %d bytes' % len(o.script.source))
        if o.script.is_claim_name:
            nm = o.script.values['claim_name']
            if len(nm) != len(nm.decode()):
                run.count('claim name longer in bytes than in characters')
                if len(nm) * case['fpnc'] > o.size * case['fpb']:
                    run.count('... and its name fee exceeds the size fee')
    if case.get('pre'):
        run.count('pre-chosen-inputs')


async def check_create(run, world, model, case, kind):
    impl, obs = await run_create(world, case)
    mod = model_create(model, case, obs)
    nontrivial = impl['result'] == 'ok' and (bool(impl.get('added')) or impl.get('change') is not None) or \
        (impl['result'] != 'ok' and bool(spendable_rows(obs['rows_before'])))
    run.case(dict(case, origin=kind), nontrivial=nontrivial)
    histogram(run, case, impl, obs)
    # the order in which the model sees the wallet must be the order the implementation enumerates it
    bad = monitor(world, case, impl, obs)
    if bad:
        sig = {'case': vlib.canon(case)}
        run.violation(case, bad, signature=sig)
        return
    free_order = [r['rid'] for r in spendable_rows(obs['rows_before']) if not r['is_reserved']]
    if free_order != obs['est_order']:
        run.disagreement('C03.utxo_order', case, obs['est_order'], free_order)
        return
    i, m = canon_pair(case, impl, mod)
    run.compare('C03.create', case, i, m)


def check_select(run, model, case, kind):
    impl, shuffles, tries = run_select(case)
    txos = [[i, a, h, h > 0, True, i] for i, (a, h) in enumerate(zip(case['amounts'], case['heights']))]
    try:
        mod = model.call('select', fpb=case['fpb'], shuffles=shuffles, target=case['target'], coc=case['coc'],
                         strategy=case['strategy'], txos=txos)
    except vlib.ModelError as e:
        mod = 'MODELERROR ' + str(e)
    run.case(dict(case, origin=kind), nontrivial=bool(case['amounts']))
    run.count('select:%s:%s' % (case['strategy'], 'hit' if impl else 'empty'))
    if tries >= coinselection.MAXIMUM_TRIES:
        run.count('select:tries-exhausted')
    bad = monitor_select(case, impl)
    if bad:
        run.violation(case, bad, signature={'case': vlib.canon(case)})
    else:
        run.compare('C03.select', case, impl, mod)



# ----------------------------------------------------------------------------------------------
# two or three builds at the same time on one ledger: "every added input is an unspent, UNRESERVED output"
# must also hold against what the other builds have just taken (the schedule-level statement is C14)
# ----------------------------------------------------------------------------------------------
def gen_pair_case(rng, strategy):
    fpb = rng.choice([1, 10, 50, 50, 1000])
    txs = gen_wallet(rng, fpb, 1, rng.choice([1, 2, 3, 4, 6, 8]))
    for t in txs:
        t.pop('purchase', None)
    effs = [o['amount'] - 148 * fpb for t in txs for o in t['outs']]
    builds = []
    for _ in range(rng.choice([2, 2, 3])):
        want = max(1, rng.choice(effs) - rng.choice([0, 46 * fpb, 56 * fpb + 1001, rng.randrange(0, 3000)])) \
            if rng.random() < 0.7 else max(1, sum(e for e in effs if e > 0) // rng.choice([1, 2, 3]))
        builds.append({'outs': [{'kind': 'pay', 'amount': max(1, want - 44 * fpb)}]})
    return {'kind': 'pair', 'fpb': fpb, 'fpnc': 0, 'strategy': strategy, 'funding': [0], 'change': 0, 'txs': txs,
            'reserved': [], 'builds': builds, 'seed': rng.getrandbits(32), 'change_used': rng.random() < 0.3}


async def check_pair(run, world, model, case, kind):
    ledger = world.ledger
    await prepare(world, case)
    ledger.coin_selection_strategy = case['strategy']
    funding = [world.accounts[i] for i in case['funding']]
    rows_before = await world.rows(funding)
    rid_of = {r['txoid']: r['rid'] for r in await world.sql("SELECT rowid AS rid, txoid FROM txo")}
    by_rid = {r['rid']: r for r in rows_before}
    RecordingRandom.log = []
    RecordingRandom.source = random.Random(case.get('seed', 0))
    RecordingRandom.tagger = pair_tag.get
    if case.get('change_used'):
        await world.sql("UPDATE pubkey_address SET used_times = 1, history = 'x:1:' WHERE address IN "
                        "(SELECT address FROM account_address WHERE account = ? AND chain = 1)", (funding[0].id,))

    async def one(i, d):
        pair_tag.set(i)
        outs = make_outputs(d['outs'])
        try:
            tx = await Transaction.create([], outs, funding, funding[0], sign=False)
        except InsufficientFundsError:
            return {'result': 'InsufficientFundsError'}, None, outs
        except Exception as e:  # noqa
            return {'result': type(e).__name__ + ':' + str(e)[:60]}, None, outs
        extra = list(tx.outputs)[len(outs):]
        return ({'result': 'ok', 'added': [rid_of.get(t.txo_ref.id, -1) for t in tx.inputs],
                 'change': extra[0].amount if len(extra) == 1 else (None if not extra else [o.amount for o in extra])}, tx, outs)
    resave_changed = None
    try:
        if case.get('sequential'):
            # one build after the other, each kept (not released); in between the wallet sync stores every funding
            # transaction again (as it does when one moves from the mempool into a block)
            got = []
            for i, d in enumerate(case['builds']):
                got.append(await one(i, d))
                before = await world.reserved_txoids()
                for ftx, hashes in world.funding_txs:
                    for h in hashes:
                        await ledger.db.save_transaction_io(ftx, ledger.hash160_to_address(h), h, '')
                after = await world.reserved_txoids()
                if before != after and resave_changed is None:
                    resave_changed = (sorted(rid_of.get(t, t) for t in before), sorted(rid_of.get(t, t) for t in after))
        else:
            got = await asyncio.gather(*(one(i, d) for i, d in enumerate(case['builds'])))
    finally:
        RecordingRandom.tagger = None
    reserved_mid = sorted(rid_of[t] for t in await world.reserved_txoids())
    for _, tx, _ in got:
        if tx is not None:
            await ledger.release_tx(tx)
    reserved_end = sorted(rid_of[t] for t in await world.reserved_txoids())
    run.case(dict(case, origin=kind), nontrivial=sum(1 for g, _, _ in got if g['result'] == 'ok') >= 2)
    run.count(('sequential-with-resave:%s' if case.get('sequential') else 'concurrent-pair:%s') % case['strategy'])
    # monitor
    bad = None
    if resave_changed:
        bad = ('re-saving the funding transactions changed the reserved outputs from %s to %s while the transactions '
               'holding them were neither broadcast nor abandoned' % resave_changed)
    seen = {}
    for i, (g, tx, _) in enumerate(got):
        if g['result'] not in ('ok', 'InsufficientFundsError'):
            bad = 'build %d failed with %s' % (i, g['result'])
        for a in g.get('added', []):
            r = by_rid.get(a)
            if r is None or r['spent'] or r['is_reserved']:
                bad = 'build %d added %s which is not an unspent unreserved output' % (i, a)
            if a in seen:
                bad = ('builds %d and %d were both handed output %s: the second one added an input that was already '
                       'reserved' % (seen[a], i, a))
            seen[a] = i
    if not bad and reserved_mid != sorted(seen):
        bad = 'with both builds in flight reserved=%s but their inputs are %s' % (reserved_mid, sorted(seen))
    if not bad and reserved_end != []:
        bad = 'after abandoning every build %s is still reserved' % reserved_end
    if bad:
        run.violation(case, bad, signature={'case': vlib.canon(case)})
        return
    # some sequential order of Model/C03's create must explain the outcome
    shuffles_by = {}
    for a, b, who in RecordingRandom.log:
        shuffles_by.setdefault(who, []).append([[rid_of[i] for i in a], [rid_of[i] for i in b]])
    impl = [g for g, _, _ in got]
    if case['strategy'] == 'sqlite':
        for g in impl:
            if 'added' in g:
                g['added'] = sorted(g['added'])
    first = None
    for order in ([tuple(range(len(got)))] if case.get('sequential') else itertools.permutations(range(len(got)))):
        wallet = model_wallet(rows_before)
        mod = [None] * len(got)
        for i in order:
            try:
                m = model.call('create', fpb=case['fpb'], fpnc=0, strategy=case['strategy'], shuffles=shuffles_by.get(i, []),
                               pre=[], outs=[out_desc(o, None) for o in got[i][2]], wallet=wallet)
            except vlib.ModelError as e:
                m = {'result': 'MODELERROR ' + str(e)}
            if m.get('result') == 'ok':
                mod[i] = {'result': 'ok', 'added': sorted(m['added']) if case['strategy'] == 'sqlite' else m['added'],
                          'change': m['change']}
                for e in wallet:
                    if e[0][0] in m['added']:
                        e[1] = True
            else:
                mod[i] = {'result': m.get('result')}
        if first is None:
            first = mod
        if vlib.canon(mod) == vlib.canon(impl):
            first = mod
            break
    run.compare('C03.linearizable', case, impl, first)


async def check_sweep(run, world, model, case, kind):
    """an ordinary payment is already past its first lock section and asks for the reservation lock while
    Account.fund(everything=True) holds it to read the account's outputs: reading and reserving must be one step, else the
    payment (next in the queue) selects an output the sweep is about to spend.  Both are real calls; only their timing
    is arranged.  Judged by the property's clause: every added input is unreserved and no output ends in both."""
    ledger = world.ledger
    await prepare(world, case)
    ledger.coin_selection_strategy = case['strategy']
    acc, other = world.accounts[0], world.accounts[1]
    rid_of = {r['txoid']: r['rid'] for r in await world.sql("SELECT rowid AS rid, txoid FROM txo")}
    state = {'pay_pre_done': False, 'sweep_reading': False}
    orig_reserve, orig_gsu, orig_get_utxos = ledger.reserve_outputs, ledger.get_spendable_utxos, acc.get_utxos

    async def reserve(txos):
        r = await orig_reserve(txos)
        if pair_tag.get() == 'pay':
            state['pay_pre_done'] = True
        return r

    async def gsu(amount, accounts, *a, **k):
        if pair_tag.get() == 'pay':
            for _ in range(2000):                      # wait until the sweep holds the lock, then queue for it
                if state['sweep_reading']:
                    break
                await asyncio.sleep(0.001)
        return await orig_gsu(amount, accounts, *a, **k)

    async def get_utxos(**constraints):
        if pair_tag.get() == 'sweep':
            state['sweep_reading'] = True
            for _ in range(2000):                      # keep the lock until the payment is queued behind us
                if getattr(ledger._utxo_reservation_lock, '_waiters', None):
                    break
                await asyncio.sleep(0.001)
        return await orig_get_utxos(**constraints)
    ledger.reserve_outputs, ledger.get_spendable_utxos, acc.get_utxos = reserve, gsu, get_utxos

    async def pay():
        pair_tag.set('pay')
        try:
            return await Transaction.create([], make_outputs(case['outs']), [acc], acc, sign=False)
        except InsufficientFundsError:
            return None

    async def sweep():
        pair_tag.set('sweep')
        for _ in range(2000):
            if state['pay_pre_done']:
                break
            await asyncio.sleep(0.001)
        try:
            return await acc.fund(other, everything=True, broadcast=False)
        except InsufficientFundsError:
            return None
    try:
        ptx, stx = await asyncio.gather(pay(), sweep())
    finally:
        del ledger.reserve_outputs, ledger.get_spendable_utxos, acc.get_utxos
        ledger._utxo_reservation_lock = asyncio.Lock()
    if ptx is not None:
        await ledger.release_tx(ptx)
    left = sorted(rid_of.get(t, t) for t in await world.reserved_txoids())
    run.case(dict(case, origin=kind), nontrivial=ptx is not None or stx is not None)
    run.count('payment queued for the lock while fund(everything) reads')
    pin = [rid_of.get(t.txo_ref.id, -1) for t in ptx.inputs] if ptx is not None else []
    sin = [rid_of.get(t.txo_ref.id, -1) for t in stx.inputs] if stx is not None else []
    bad = None
    if set(pin) & set(sin):
        bad = ('the payment and Account.fund(everything=True) both spend output(s) %s: the payment was handed an output '
               'the sweep had already picked' % sorted(set(pin) & set(sin)))
    elif left:
        bad = 'after both builds were abandoned %s is still reserved' % left
    if bad:
        run.violation(case, bad, signature={'case': vlib.canon(case)})


async def check_change_race(run, world, case, kind):
    """every change address is used; k callers ask for a usable change address at once, as concurrent builds that all
    need change do: none may fail (create would fail with it: 'never fails in any other way') and every address has to
    be on the change chain"""
    await world.reset()
    acc = world.accounts[case['account']]
    await world.sql("UPDATE pubkey_address SET used_times = 1, history = 'x:1:' WHERE address IN "
                    "(SELECT address FROM account_address WHERE account = ? AND chain = 1)", (acc.id,))
    got = await asyncio.gather(*[acc.change.get_or_create_usable_address() for _ in range(case['callers'])],
                               return_exceptions=True)
    run.case(dict(case, origin=kind), nontrivial=True)
    run.count('concurrent change-address callers')
    bad = None
    for g in got:
        if isinstance(g, Exception):
            bad = 'asking for a usable change address failed with %s: a build that needs change would fail with it' % type(g).__name__
        else:
            rows = await world.sql("SELECT chain, account FROM account_address WHERE address = ?", (g,))
            if [(r['chain'], r['account']) for r in rows] != [(1, acc.id)]:
                bad = 'the change address %s is not on the change chain of the account' % g
    if bad:
        run.violation(case, bad, signature={'case': vlib.canon(case)})


def check_sizes(run, model):
    """micro-correspondence: every size constant of the model against the real serialized objects"""
    txo = Transaction().add_outputs([Output.pay_pubkey_hash(COIN, b'\x01' * 20)]).outputs[0]
    for n_in, n_out in [(0, 0), (1, 1), (1, 2), (252, 1), (253, 1), (1, 252), (1, 253), (300, 300)]:
        tx = Transaction().add_inputs([Input.spend(txo) for _ in range(n_in)]) \
            .add_outputs([Output.pay_pubkey_hash(1, b'\x02' * 20) for _ in range(n_out)])
        impl = {'in': Input.spend(txo).size, 'p2pkh': txo.size, 'change_est': Output.pay_pubkey_hash(COIN, NULL_HASH32).size,
                'dust': DUST, 'tries': coinselection.MAXIMUM_TRIES, 'maxint': lbry.wallet.database.SQLITE_MAX_INTEGER,
                'base': tx.base_size}
        mod = model.call('sizes', n_in=n_in, n_out=n_out)
        case = {'kind': 'sizes', 'n_in': n_in, 'n_out': n_out}
        run.case(case, nontrivial=True, sample=False)
        run.count('sizes')
        run.compare('C03.sizes', case, impl, mod)


def corpus_cases():
    d = os.path.join(vlib.VERIF, 'harness', 'corpus', 'C03')
    out = []
    if os.path.isdir(d):
        for nm in sorted(os.listdir(d)):
            if nm.endswith('.json'):
                body = json.load(open(os.path.join(d, nm)))
                out.extend(body if isinstance(body, list) else [body])
    return out


async def amain(run, only=None):
    loop = asyncio.get_event_loop()
    model = vlib.Model('C03')
    world = World(loop)
    await world.open()
    try:
        if only is not None:
            if only.get('kind') == 'select':
                check_select(run, model, only, 'replay')
            elif only.get('kind') == 'sizes':
                check_sizes(run, model)
            elif only.get('kind') == 'pair':
                await check_pair(run, world, model, only, 'replay')
            elif only.get('kind') == 'change_race':
                await check_change_race(run, world, only, 'replay')
            elif only.get('kind') == 'sweep':
                await check_sweep(run, world, model, only, 'replay')
            else:
                await check_create(run, world, model, only, 'replay')
            return
        rng = run.rng
        check_sizes(run, model)
        for case in corpus_cases():
            case = dict(case)
            case.pop('origin', None)
            if case.get('kind') == 'select':
                check_select(run, model, case, 'corpus')
            elif case.get('kind') == 'pair':
                await check_pair(run, world, model, case, 'corpus')
            elif case.get('kind') == 'change_race':
                await check_change_race(run, world, case, 'corpus')
            elif case.get('kind') == 'sweep':
                await check_sweep(run, world, model, case, 'corpus')
            else:
                await check_create(run, world, model, case, 'corpus')
        n_create = vlib.scaled(run.tier, 190, 4000)
        n_select = vlib.scaled(run.tier, 120, 1500)
        strats = strategies()
        for k in range(n_create):
            for s in strats:
                await check_create(run, world, model, gen_case(rng, s, run.tier), 'generated')
        for k in range(vlib.scaled(run.tier, 3, 60)):
            for s_ in strats:
                pc = gen_pair_case(rng, s_)
                await check_sweep(run, world, model, {'kind': 'sweep', 'fpb': pc['fpb'], 'fpnc': 0, 'strategy': s_, 'funding': [0],
                                                      'change': 0, 'txs': pc['txs'], 'reserved': [], 'outs': pc['builds'][0]['outs'],
                                                      'seed': pc['seed']}, 'generated')
        for k in range(vlib.scaled(run.tier, 6, 100)):
            await check_change_race(run, world, {'kind': 'change_race', 'account': rng.randrange(3), 'callers': rng.choice([2, 2, 3, 5])}, 'generated')
        for k in range(vlib.scaled(run.tier, 12, 300)):
            for s in strats:
                await check_pair(run, world, model, gen_pair_case(rng, s), 'generated')
                await check_pair(run, world, model, dict(gen_pair_case(rng, s), sequential=True), 'generated')
        sel_strats = [s for s in strats if s != 'sqlite']
        for k in range(n_select):
            for s in sel_strats:
                check_select(run, model, gen_select_case(rng, s, run.tier), 'generated')
    finally:
        model.close()
        await world.close()


RULE = ('create: a real wallet database is filled with 0..24 (sometimes 40-100) outputs whose amounts cluster around '
        'the input fee, the dust threshold and the change cost, repeat (equal amounts), or are log-uniform up to 1e13 '
        '(plus the sqlite window edges), confirmed / mempool / unverified mixes, one or two accounts, some outputs '
        'already reserved; requested outputs are payments, claims (name fee), updates, supports, purchases, script '
        'hashes or none; pre-chosen inputs are external, reserved wallet outputs or claim outputs; the amounts are '
        'chosen so that the deficit lands on a subset sum, the total, the largest output, each +- the change cost / '
        'dust boundary, or beyond the total; fee rates 0..10000; every strategy of STRATEGIES and the unset default; '
        'select: CoinSelector.select directly on up to 40 outputs incl. sets that exhaust MAXIMUM_TRIES. '
        'distinct = distinct case description; non-trivial = inputs were added / change made / refusal with a '
        'non-empty wallet.')


def main(run):
    run.rule = RULE
    loop = asyncio.new_event_loop()
    asyncio.set_event_loop(loop)
    try:
        loop.run_until_complete(amain(run))
    finally:
        loop.close()
    run.partial = ['C03_bnb_complete_partial', 'C03_sqlite_complete_partial']


def replay(run, case):
    case = dict(case)
    case.pop('origin', None)
    loop = asyncio.new_event_loop()
    asyncio.set_event_loop(loop)
    try:
        loop.run_until_complete(amain(run, only=case))
    finally:
        loop.close()
