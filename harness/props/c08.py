"""C08  SPV: a transaction is marked verified only with a Merkle proof to its header.

Implementation under test (run for real on every case):
  lbry.wallet.ledger.Ledger.maybe_verify_transaction / get_root_of_merkle_tree with a fake network object and a
  real header store (subclass of UnvalidatedHeaders with genesis_hash=None, checkpoints={}) filled through the
  real Headers.connect() with a linked chain of 112-byte headers carrying the chosen Merkle roots.
Model: Model/C08.v (extracted), hash answered by hashlib through the oracle protocol.
Monitor: the property's own statement, with a textbook Merkle tree/verifier written here on hashlib.
Call sites run as well: Ledger._single_batch and WalletManager.get_transaction (both build fresh Transaction objects).
Legacy lbry.wallet.claim_proofs.verify_proof: correspondence only (no theorem) against a checker written here and
against the extracted Gallina model Model/C08_Claim.v.
"""
import asyncio
import binascii
import hashlib
import json
import os
import random
import struct

import lbry.wallet  # noqa: F401  (must be the first lbry import)
from lbry.wallet import Ledger, Database, Transaction, Wallet, Account
from lbry.wallet.manager import WalletManager
from lbry.wallet.header import Headers, UnvalidatedHeaders
import lbry.wallet.ledger as ledger_mod
from lbry.wallet import claim_proofs

import vlib

CORPUS = os.path.join(os.path.dirname(os.path.abspath(__file__)), '..', 'corpus', 'C08')


# ------------------------------------------------------------------------------------------------
# independent oracle: textbook Bitcoin Merkle tree on hashlib
# ------------------------------------------------------------------------------------------------
def H(b):
    return hashlib.sha256(hashlib.sha256(b).digest()).digest()


def weak_hash(b):
    """a deliberately weak 32-byte hash (8 bits of entropy) to exhibit explicit collisions"""
    return hashlib.sha256(b).digest()[:1] * 32


def ref_levels(leaves, h=H):
    levels = [list(leaves)]
    while len(levels[-1]) > 1:
        cur = levels[-1]
        if len(cur) % 2:
            cur = cur + [cur[-1]]
        levels.append([h(cur[i] + cur[i + 1]) for i in range(0, len(cur), 2)])
    return levels


def ref_root(leaves, h=H):
    return ref_levels(leaves, h)[-1][0]


def ref_branch(levels, idx):
    out = []
    for lvl in levels[:-1]:
        sib = idx ^ 1
        out.append(lvl[sib] if sib < len(lvl) else lvl[idx])
        idx //= 2
    return out


def ref_path(branch, index, leaf, h=H):
    """running hashes of a textbook verifier, index consumed bit by bit; returns [leaf, ..., root]"""
    out = [leaf]
    cur = leaf
    for sib in branch:
        cur = h(sib + cur) if index % 2 else h(cur + sib)
        index //= 2
        out.append(cur)
    return out


def ref_check(branch, index, leaf, root, h=H):
    return ref_path(branch, index, leaf, h)[-1] == root


HEXDIGITS = set('0123456789abcdefABCDEF')


def strict_unhex(s):
    """own hex decoder for the monitor (None = not a hex string)"""
    if isinstance(s, (bytes, bytearray)):
        try:
            s = bytes(s).decode('ascii')
        except UnicodeDecodeError:
            return None
    if len(s) % 2 or any(c not in HEXDIGITS for c in s):
        return None
    return bytes(int(s[i:i + 2], 16) for i in range(0, len(s), 2))


def wire(h):
    return h[::-1].hex()


# ------------------------------------------------------------------------------------------------
# inputs: transactions, blocks, header tables
# ------------------------------------------------------------------------------------------------
def make_tx(rng):
    prev = rng.randbytes(32)
    script = bytes([72]) + rng.randbytes(72) + bytes([33]) + b'\x02' + rng.randbytes(32)
    out_script = b'\x76\xa9\x14' + rng.randbytes(20) + b'\x88\xac'
    raw = struct.pack('<I', 1) + b'\x01' + prev + struct.pack('<I', rng.randrange(4)) + bytes([len(script)]) + script
    raw += struct.pack('<I', 0xffffffff)
    raw += b'\x01' + struct.pack('<Q', rng.randrange(1, 10 ** 12)) + bytes([len(out_script)]) + out_script
    raw += struct.pack('<I', rng.randrange(0, 500000))
    return raw


def cs(n):
    """Bitcoin compact size, canonical"""
    if n < 253:
        return bytes([n])
    if n <= 0xffff:
        return b'\xfd' + struct.pack('<H', n)
    if n <= 0xffffffff:
        return b'\xfe' + struct.pack('<I', n)
    return b'\xff' + struct.pack('<Q', n)


def ser_tx(fields, flag=None, wits=None):
    """fields = (version, [(prev32, index, script, sequence)], [(amount, script)], locktime); flag/wits given ->
    the witness encoding (marker 00, flag, ..., per input: items), otherwise the legacy encoding"""
    version, ins, outs, locktime = fields
    body = cs(len(ins)) + b''.join(p + struct.pack('<I', i) + cs(len(sc)) + sc + struct.pack('<I', sq) for p, i, sc, sq in ins)
    body += cs(len(outs)) + b''.join(struct.pack('<Q', a) + cs(len(sc)) + sc for a, sc in outs)
    if flag is None:
        return struct.pack('<I', version) + body + struct.pack('<I', locktime)
    w = b''.join(cs(len(items)) + b''.join(cs(len(x)) + x for x in items) for items in wits)
    return struct.pack('<I', version) + bytes([0, flag]) + body + w + struct.pack('<I', locktime)


def ref_txid_preimage(raw):
    """own reader: the bytes whose double SHA-256 is the transaction id (witness encoding -> legacy encoding).
    Returns None when this reader cannot make sense of the bytes."""
    try:
        if len(raw) < 6 or raw[4] != 0 or raw[5] == 0:
            return raw
        pos = [6]

        def take(k):
            if pos[0] + k > len(raw):
                raise ValueError('short')
            out = raw[pos[0]:pos[0] + k]
            pos[0] += k
            return out

        def rcs():
            b = take(1)[0]
            if b < 253:
                return b
            return int.from_bytes(take({253: 2, 254: 4, 255: 8}[b]), 'little')
        nin = rcs()
        ins = []
        for _ in range(nin):
            prev, idx = take(32), struct.unpack('<I', take(4))[0]
            sc = take(rcs())
            ins.append((prev, idx, sc, struct.unpack('<I', take(4))[0]))
        outs = []
        for _ in range(rcs()):
            amount = struct.unpack('<Q', take(8))[0]
            outs.append((amount, take(rcs())))
        for _ in range(nin):
            for _ in range(rcs()):
                take(rcs())
        locktime = struct.unpack('<I', take(4))[0]
        return ser_tx((struct.unpack('<I', raw[:4])[0], ins, outs, locktime))
    except Exception:
        return None


def alter_tx_bytes(rng, raw):
    """one byte of the output amount / output script hash / locktime changed: still parses, different txid"""
    j = rng.choice(list(range(154, 162)) + list(range(166, 186)) + list(range(188, 192)))
    return raw[:j] + bytes([raw[j] ^ (1 << rng.randrange(8))]) + raw[j + 1:]


def make_block(n, seed):
    rng = random.Random(f'block:{seed}:{n}')
    return [make_tx(rng) for _ in range(n)]


def build_header_chain(roots):
    """112-byte headers, linked by previous-hash, carrying the given Merkle roots (internal byte order)"""
    out = []
    prev = b'0' * 64
    for h, root in enumerate(roots):
        raw = Headers.serialize({
            'version': 1, 'prev_block_hash': prev, 'merkle_root': binascii.hexlify(root[::-1]),
            'claim_trie_root': b'0' * 64, 'timestamp': 1500000000 + 150 * h, 'bits': 0x207fffff, 'nonce': h})
        assert len(raw) == 112
        prev = binascii.hexlify(H(raw)[::-1])
        out.append(raw)
    return out


class Hd(UnvalidatedHeaders):
    genesis_hash = None
    checkpoints = {}


class FakeNetwork:
    def __init__(self, response):
        self.response = response
        self.calls = []

    def retriable_call(self, function, *args, **kwargs):
        return function(*args, **kwargs)

    async def get_merkle(self, txid, height):
        self.calls.append([txid, height])
        return self.response

    async def get_transaction_and_merkle(self, txid, known_height=None):
        return self.batch[txid]

    async def get_transaction_batch(self, txids, restricted):
        self.batch_calls = getattr(self, 'batch_calls', []) + [[list(txids), restricted]]
        return {txid: self.batch[txid] for txid in txids}


class World:
    """one event loop, header stores cached by their roots"""

    def __init__(self):
        self.loop = asyncio.new_event_loop()
        self.cache = {}

    def ledger_for(self, roots):
        key = b''.join(roots)
        hit = self.cache.get(key)
        if hit is not None:
            return hit
        raws = build_header_chain(roots)
        hd = Hd(':memory:')
        self.loop.run_until_complete(hd.open())
        added = self.loop.run_until_complete(hd.connect(0, b''.join(raws)))
        if added != len(roots) or len(hd) != len(roots):
            raise RuntimeError(f'header store holds {len(hd)} headers, {added} added, {len(roots)} wanted')
        ledger = Ledger({'db': Database(':memory:'), 'headers': hd})
        if len(self.cache) > 64:
            self.cache.clear()
        self.cache[key] = (ledger, raws)
        return ledger, raws

    def manager(self):
        """a WalletManager over one ledger with an opened in-memory database (for WalletManager.get_transaction)"""
        if getattr(self, '_manager', None) is None:
            ledger = Ledger({'db': Database(':memory:'), 'headers': Hd(':memory:')})
            self.loop.run_until_complete(ledger.db.open())
            wallet = Wallet()
            Account.from_dict(ledger, wallet, {'seed': 'carbon smart garage balance margin twelve chest sword toast '
                                                       'envelope bottom stomach absent'})
            self._manager = WalletManager(wallets=[wallet])
        return self._manager

    def close(self):
        if getattr(self, '_history', None) is not None:
            self.loop.run_until_complete(self._history['db'].close())
        if getattr(self, '_manager', None) is not None:
            self.loop.run_until_complete(self._manager.ledger.db.close())
        self.loop.close()


def decode_arg(a):
    """case JSON -> the object handed to the real code.  {'none': true} -> None; 'merkle' elements are
    {'s': text} (str) or {'b': hex} (bytes)"""
    if a is None or a.get('none'):
        return None
    d = {}
    for k, v in a.items():
        if k == 'merkle':
            d['merkle'] = [(bytes.fromhex(e['b']) if 'b' in e else e['s']) for e in v]
        elif k != 'none':
            d[k] = v
    return d


def model_resp(a):
    """case JSON -> the model's merkle_resp (elements as hex of their ASCII bytes)"""
    out = {}
    if 'merkle' in a:
        out['merkle'] = [(e['b'] if 'b' in e else e['s'].encode('ascii').hex()) for e in a['merkle']]
    if 'pos' in a:
        out['pos'] = a['pos']
    return out


def is_falsy(a):
    return a is None or a.get('none') or not [k for k in a if k != 'none']


def run_impl(world, case):
    roots = [bytes.fromhex(r) for r in case['roots']]
    ledger, raws = world.ledger_for(roots)
    raw = bytes.fromhex(case['raw'])
    try:
        tx = Transaction(raw)
        tx.hash   # a witness-flagged mutant may parse with missing fields and fail when its id is computed
    except Exception as e:  # the mutated transaction does not even parse: nothing to verify
        return {'unparseable': type(e).__name__}, raws
    prior = case.get('prior') or {}
    if prior:
        tx.height, tx.position, tx.is_verified = prior['height'], prior['position'], prior['verified']
    net = FakeNetwork(decode_arg(case['net']))
    ledger.network = net
    try:
        ret = world.loop.run_until_complete(ledger.maybe_verify_transaction(tx, case['height'], decode_arg(case['arg'])))
        outcome = 'tx' if ret is tx else ('none' if ret is None else 'other')
    except KeyError:
        outcome = 'KeyError'
    except binascii.Error:
        outcome = 'binascii.Error'
    except Exception as e:
        outcome = type(e).__name__
    obs = {'height': tx.height, 'position': tx.position, 'verified': tx.is_verified, 'outcome': outcome,
           'fetched': bool(net.calls)}
    extra = {'net_calls': net.calls, 'txid': tx.id, 'hash': tx.hash, 'len_headers': len(ledger.headers)}
    return (obs, extra), raws


def run_model(model, case, raws):
    prior = case.get('prior') or {'height': -2, 'position': -1, 'verified': False}
    arg = None if is_falsy(case['arg']) else model_resp(case['arg'])
    return model.call('maybe_verify_raw', headers=[r.hex() for r in raws], st=prior, raw=case['raw'],
                      height=case['height'], arg=arg, net=model_resp(case['net'] or {}))


# ------------------------------------------------------------------------------------------------
# monitor: the property's statement on what the implementation did
# ------------------------------------------------------------------------------------------------
def monitor(case, obs, extra):
    roots = [bytes.fromhex(r) for r in case['roots']]
    raw = bytes.fromhex(case['raw'])
    h = case['height']
    prior = case.get('prior') or {'height': -2, 'position': -1, 'verified': False}
    eff = case['net'] if is_falsy(case['arg']) else case['arg']
    eff = eff or {}
    # always from the bytes of the transaction object that came back, never from an id; for a witness-serialised
    # transaction the id preimage is its legacy encoding (own reader above)
    pre = ref_txid_preimage(raw)
    leaf = H(pre if pre is not None else raw)
    if extra['len_headers'] != len(roots):
        return f'header store reports {extra["len_headers"]} headers, {len(roots)} were connected'
    if obs['height'] != h:
        return f'tx.height is {obs["height"]} after verification at height {h}'
    has_header = 0 <= h < len(roots)
    # what a textbook verifier says about the presented proof
    ref_ok = False
    decoded = None
    if has_header and 'merkle' in eff and 'pos' in eff:
        decoded = [strict_unhex(bytes.fromhex(e['b']) if 'b' in e else e['s']) for e in eff['merkle']]
        if all(d is not None for d in decoded):
            decoded = [d[::-1] for d in decoded]
            # a position the branch cannot address is not a proof (0 <= pos < 2^len(branch))
            ref_ok = 0 <= eff['pos'] < (1 << len(decoded)) and ref_check(decoded, eff['pos'], leaf, roots[h])
    newly = obs['verified'] and not prior['verified']
    evaluated = obs['outcome'] == 'tx' and 0 < h < len(roots)
    if obs['verified'] and (newly or evaluated):
        if not has_header:
            return f'verified at height {h} but the wallet has only headers 0..{len(roots) - 1}'
        if not ref_ok:
            return (f'verified at height {h} although the branch/position/transaction do not hash up to the '
                    f'Merkle root of that header' + (' (the raw bytes returned by the server are not the requested '
                                                     'transaction; only its id and proof are genuine)'
                                                     if case.get('requested_txid') else ''))
    if pre is not None and (extra['hash'] != leaf or extra['txid'] != wire(leaf)):
        return ('tx.hash / tx.id of the returned transaction is not the double SHA-256 of its txid preimage '
                '(the raw bytes, or their legacy re-encoding for a witness-serialised transaction)')
    if not has_header and obs['verified'] != prior['verified']:
        return f'verified flag changed at unknown height {h}'
    if evaluated and isinstance(eff.get('pos'), int) and 'merkle' in eff:
        fits = 0 <= eff['pos'] < (1 << len(eff['merkle']))
        if fits and obs['position'] != eff['pos']:
            return f'position recorded as {obs["position"]}, supplied {eff["pos"]}'
        if not fits and obs['position'] == eff['pos'] and eff['pos'] != prior['position']:
            return (f'position {eff["pos"]} recorded although a branch of {len(eff["merkle"])} siblings cannot address it')
    if obs['fetched']:
        if extra['net_calls'] != [[wire(leaf), h]]:
            return f'network asked {extra["net_calls"]}, expected one get_merkle({wire(leaf)}, {h})'
    exp = case.get('expect')
    if exp in ('accept', 'accept-dup', 'accept-highbit', 'accept-same-root'):
        if not ref_ok:
            return f'harness error: expectation {exp} but the reference verifier rejects'   # never on a sane generator
        if not obs['verified'] or obs['outcome'] != 'tx':
            return f'{case["kind"]}: a proof that hashes up to the header root at known height {h} was not accepted ({obs})'
        if 'idx' in case and exp == 'accept' and obs['position'] != case['idx']:
            return f'genuine proof accepted but position {obs["position"]} recorded for index {case["idx"]}'
    elif exp == 'reject':
        if obs['verified']:
            return f'{case["kind"]}: altered proof still verified at height {h}'
    return None


def check_expectation_against_block(case):
    """replays and corpus: the expectation stored in a case is re-derived from the block, never trusted"""
    if 'block_seed' not in case or case.get('kind') != 'genuine':
        return None
    raws = make_block(case['n'], case['block_seed'])
    leaves = [H(r) for r in raws]
    levels = ref_levels(leaves)
    if raws[case['idx']].hex() != case['raw']:
        return 'case is not the genuine transaction of its block'
    if [e.get('s') for e in case['arg'].get('merkle', [])] != [wire(b) for b in ref_branch(levels, case['idx'])]:
        return 'case does not carry the genuine branch of its block'
    return None


# ------------------------------------------------------------------------------------------------
# one case through implementation, model and monitor
# ------------------------------------------------------------------------------------------------
def do_case(run, world, model, case):
    res, raws = run_impl(world, case)
    if isinstance(res, dict):
        run.count('unparseable-mutant')
        # the model's reader must refuse these bytes as well (Wire/Tx.v, shared with C05)
        run.compare('C08.txid_preimage of bytes the implementation cannot parse', {'kind': case['kind'], 'raw': case['raw']},
                    None, model.call('txid_preimage', raw=case['raw']))
        return
    obs, extra = res
    evaluated = obs['outcome'] == 'tx' and 0 < case['height'] < len(case['roots'])
    run.case(case, nontrivial=evaluated or obs['outcome'] != 'tx')
    run.count('kind:' + case['kind'])
    run.count('outcome:' + obs['outcome'] + (':verified' if obs['verified'] else ''))
    if 'n' in case:
        run.count('block-size:%s' % ('1' if case['n'] == 1 else '2-8' if case['n'] <= 8 else '9-64' if case['n'] <= 64 else '65+'))
    bad = monitor(case, obs, extra)
    if bad:
        sig = {k: case.get(k) for k in ('kind', 'n', 'idx', 'block_seed', 'height', 'mutation')}
        run.violation(case, bad, signature=sig)
        return
    mod = run_model(model, case, raws)
    run.compare('C08.maybe_verify', case, obs, mod)


def text_elems(branch):
    return [{'s': wire(b)} for b in branch]


def fresh_roots(rng, size, at, root):
    roots = [rng.randbytes(32) for _ in range(size)]
    roots[at] = root
    return roots


def block_cases(rng, n, seed, indices, thorough):
    """genuine proofs of a block and every single mutation of them"""
    raws = make_block(n, seed)
    leaves = [H(r) for r in raws]
    levels = ref_levels(leaves)
    root = levels[-1][0]
    size = rng.randrange(3, 10)
    at = rng.choice([1, size - 1, rng.randrange(1, size)])
    roots = fresh_roots(rng, size, at, root)
    base = {'n': n, 'block_seed': seed, 'roots': [r.hex() for r in roots], 'net': {}, 'height': at}
    for idx in indices:
        branch = ref_branch(levels, idx)
        path = ref_path(branch, idx, leaves[idx])
        assert path[-1] == root
        L = len(branch)

        def mk(kind, expect, mutation=None, **over):
            c = dict(base, kind=kind, idx=idx, raw=raws[idx].hex(), expect=expect,
                     arg={'merkle': text_elems(branch), 'pos': idx})
            if mutation is not None:
                c['mutation'] = mutation
            c.update(over)
            # server format: the reply also NAMES the block ('block_height'); by default it names the block the
            # proof was built for (height `at`), whatever height the wallet is asked to record
            if rng.random() < 0.85:
                for key in ('arg', 'net'):
                    d = c.get(key)
                    if isinstance(d, dict) and 'merkle' in d and 'block_height' not in d:
                        c[key] = dict(d, block_height=at)
            return c

        yield mk('genuine', 'accept')
        # the same dict delivered by the network instead of the caller
        if rng.random() < 0.15 or thorough:
            yield mk('genuine-fetched', 'accept', arg=rng.choice([None, {}, {'none': True}]),
                     net={'merkle': text_elems(branch), 'pos': idx})
        # --- every branch element ---
        for k in range(L):
            reps = 3 if thorough else 1
            for _ in range(reps):
                j = rng.randrange(32)
                mask = rng.choice([1, 2, 4, 8, 16, 32, 64, 128, rng.randrange(1, 256)])
                b2 = list(branch)
                b2[k] = b2[k][:j] + bytes([b2[k][j] ^ mask]) + b2[k][j + 1:]
                yield mk('mut:branch-elem', 'reject', {'level': k, 'byte': j, 'xor': mask},
                         arg={'merkle': text_elems(b2), 'pos': idx})
        if L >= 2 and (thorough or rng.random() < 0.3):
            a, b = rng.sample(range(L), 2)
            if branch[a] != branch[b]:
                b2 = list(branch)
                b2[a], b2[b] = b2[b], b2[a]
                yield mk('mut:branch-swap', 'reject', {'swap': [a, b]}, arg={'merkle': text_elems(b2), 'pos': idx})
        # --- every position bit below the branch length (and one above) ---
        for k in range(L):
            dup = branch[k] == path[k]
            yield mk('mut:pos-bit-dup-sibling' if dup else 'mut:pos-bit', 'accept-dup' if dup else 'reject',
                     {'bit': k}, arg={'merkle': text_elems(branch), 'pos': idx ^ (1 << k)})
        hb = L + rng.randrange(0, 4)
        yield mk('mut:pos-high-bit', 'reject', {'bit': hb},
                 arg={'merkle': text_elems(branch), 'pos': idx | (1 << hb)})
        if n > 1:
            other = rng.choice([i for i in range(1 << L) if i != idx])
            differing = [k for k in range(L) if (other ^ idx) >> k & 1]
            dup = all(branch[k] == path[k] for k in differing)
            yield mk('mut:pos-other-dup' if dup else 'mut:pos-other', 'accept-dup' if dup else 'reject', {'pos': other},
                     arg={'merkle': text_elems(branch), 'pos': other})
        # --- branch length +-1 ---
        extra = rng.choice([rng.randbytes(32), root, leaves[idx], branch[-1] if L else leaves[idx]])
        yield mk('mut:len+1', 'reject', {'append': extra.hex()}, arg={'merkle': text_elems(branch + [extra]), 'pos': idx})
        if thorough or rng.random() < 0.3:
            yield mk('mut:len+1-front', 'reject', {'prepend': extra.hex()},
                     arg={'merkle': text_elems([extra] + branch), 'pos': idx})
        if L:
            yield mk('mut:len-1', 'reject', {'drop': 'last'}, arg={'merkle': text_elems(branch[:-1]), 'pos': idx})
            if L > 1 or thorough:
                yield mk('mut:len-1-front', 'reject', {'drop': 'first'}, arg={'merkle': text_elems(branch[1:]), 'pos': idx})
        # --- a byte of the transaction ---
        for _ in range(4 if thorough else 1):
            j = rng.randrange(len(raws[idx]))
            mask = rng.choice([1, 2, 4, 8, 16, 32, 64, 128, rng.randrange(1, 256)])
            r2 = raws[idx][:j] + bytes([raws[idx][j] ^ mask]) + raws[idx][j + 1:]
            yield mk('mut:tx-byte', 'reject', {'byte': j, 'xor': mask}, raw=r2.hex())
        if n > 1:
            j = rng.choice([i for i in range(n) if i != idx])
            if leaves[j] != leaves[idx]:
                yield mk('mut:other-tx', 'reject', {'tx': j}, raw=raws[j].hex())
        # --- a byte of the root stored in the header (the comparison must cover all 32 bytes) ---
        for j in (range(32) if thorough and idx in (0, n - 1) else [rng.randrange(32), rng.choice([0, 31])]):
            mask = rng.choice([1, 2, 4, 8, 16, 32, 64, 128, rng.randrange(1, 256)])
            roots2 = list(roots)
            roots2[at] = root[:j] + bytes([root[j] ^ mask]) + root[j + 1:]
            yield mk('mut:header-root-byte', 'reject', {'byte': j, 'xor': mask}, roots=[r.hex() for r in roots2])
        # every byte of every sibling and of the transaction hash region for the first and last index
        if thorough and idx in (0, n - 1) and n <= 16:
            for k in range(L):
                for j in range(32):
                    b2 = list(branch)
                    b2[k] = b2[k][:j] + bytes([b2[k][j] ^ (1 << rng.randrange(8))]) + b2[k][j + 1:]
                    yield mk('mut:branch-elem', 'reject', {'level': k, 'byte': j},
                             arg={'merkle': text_elems(b2), 'pos': idx})
            for j in range(len(raws[idx])):
                r2 = raws[idx][:j] + bytes([raws[idx][j] ^ (1 << rng.randrange(8))]) + raws[idx][j + 1:]
                yield mk('mut:tx-byte', 'reject', {'byte': j}, raw=r2.hex())
        # --- the height ---
        hs = {0, -1, at - 1, at + 1, size - 1, size, size + 1, rng.randrange(-5, size + 5), 2 ** 31, -2 ** 40}
        hs.discard(at)
        inrange_other = [x for x in range(1, size) if x != at]
        pick = sorted(hs) if thorough else sorted(set(rng.sample(sorted(hs), 4) + [size, 0] + inrange_other[:1]))
        for h2 in pick:
            yield mk('mut:height', 'reject', {'height': h2}, height=h2)
        # the wallet records height h2 (from the address history) while the dict NAMES the block the proof is for:
        # always with the key present, through the direct argument and through the get_merkle fetch
        for h2 in (inrange_other if thorough else inrange_other[:1] + inrange_other[-1:]):
            yield mk('mut:height-dict-names-true-block', 'reject', {'height': h2, 'block_height': at}, height=h2,
                     arg={'merkle': text_elems(branch), 'pos': idx, 'block_height': at})
            yield mk('mut:height-dict-names-true-block-fetched', 'reject', {'height': h2, 'block_height': at}, height=h2,
                     arg=rng.choice([None, {}]), net={'merkle': text_elems(branch), 'pos': idx, 'block_height': at})
        # the other way round: right height, but the dict claims another block (in range with a different root, or
        # no header at all): what the dict claims is irrelevant, the local header at the recorded height decides
        claims = inrange_other[:2] + [0, -1, size, size + 7, 2 ** 31]
        for bh in (claims if thorough else rng.sample(claims, 3) + inrange_other[:1]):
            yield mk('mut:dict-claims-other-block', 'accept', {'block_height': bh},
                     arg={'merkle': text_elems(branch), 'pos': idx, 'block_height': bh})
        if thorough or rng.random() < 0.3:
            bh = rng.choice(claims)
            yield mk('mut:dict-claims-other-block-fetched', 'accept', {'block_height': bh}, arg=rng.choice([None, {}]),
                     net={'merkle': text_elems(branch), 'pos': idx, 'block_height': bh})
    # boundary heights with genuine proofs: 1 and len-1 accepted, 0 and len not
    idx = rng.randrange(n)
    branch = ref_branch(levels, idx)
    for size2, at2, exp in ((2, 1, 'accept'), (5, 4, 'accept'), (5, 1, 'accept'), (1, 0, None), (4, 0, None)):
        roots2 = fresh_roots(rng, size2, at2, root)
        yield dict(base, kind='boundary-height', idx=idx, raw=raws[idx].hex(), expect=exp, height=at2,
                   roots=[r.hex() for r in roots2], arg={'merkle': text_elems(branch), 'pos': idx, 'block_height': at2})
    # the same root stored under a second height: presenting the proof there is a genuine proof too
    if size >= 4:
        h2 = rng.choice([x for x in range(1, size) if x != at])
        roots2 = list(roots)
        roots2[h2] = root
        yield dict(base, kind='height-same-root', idx=idx, raw=raws[idx].hex(), expect='accept-same-root', height=h2,
                   roots=[r.hex() for r in roots2],
                   arg={'merkle': text_elems(branch), 'pos': idx, 'block_height': rng.choice([at, h2])})


def batch_checks(run, world, model, rng, n, seed):
    """the real call site: Ledger._single_batch builds fresh Transaction objects from the server's answer
    (raw hex + merkle dict per txid) and runs maybe_verify_transaction on each; every transaction of the batch
    is then judged by the monitor and compared with the model started from the fresh state"""
    raws = make_block(n, seed)
    leaves = [H(r) for r in raws]
    levels = ref_levels(leaves)
    root = levels[-1][0]
    size = rng.randrange(3, 8)
    at = rng.randrange(1, size)
    roots = fresh_roots(rng, size, at, root)
    ledger, hraws = world.ledger_for(roots)
    idxs = rng.sample(range(n), min(n, rng.randrange(1, 9)))
    others = [x for x in range(1, size) if x != at]
    req_height = at if rng.random() < 0.7 else rng.choice([0, -1, size, size + 2] + others * 3)
    claimed = at if rng.random() < 0.8 else rng.choice([0, size, 2 ** 31] + others * 2)   # what the reply names
    entries = []
    for idx in idxs:
        branch = ref_branch(levels, idx)
        path = ref_path(branch, idx, leaves[idx])
        c = rng.random()
        pos, br, exp, flavour = idx, list(branch), 'accept', 'genuine'
        reply_raw = raws[idx]
        if c < 0.42:
            pass
        elif c < 0.5:
            # the reply is keyed by the requested txid and carries its genuine proof, but the raw bytes differ
            reply_raw = alter_tx_bytes(rng, raws[idx])
            exp, flavour = 'reject', 'reply-tx-altered'
        elif c < 0.65 and branch:
            k = rng.randrange(len(branch))
            br[k] = rng.randbytes(32)
            exp, flavour = 'reject', 'wrong-sibling'
        elif c < 0.8 and branch:
            k = rng.randrange(len(branch))
            pos = idx ^ (1 << k)
            dup = branch[k] == path[k]
            exp, flavour = ('accept-dup' if dup else 'reject'), 'pos-bit'
        elif c < 0.9 and n > 1:
            j = rng.choice([i for i in range(n) if i != idx])
            br, pos = ref_branch(levels, j), j
            exp, flavour = 'reject', 'proof-of-other-tx'
        elif c < 0.95:
            br = branch + [rng.randbytes(32)]
            exp, flavour = 'reject', 'len+1'
        else:
            exp, flavour = None, 'no-merkle-key'
        arg = {'block_height': at} if flavour == 'no-merkle-key' else \
            {'block_height': claimed, 'merkle': text_elems(br), 'pos': pos}
        if req_height != at:
            exp = 'reject' if (0 < req_height < size and flavour != 'no-merkle-key') else None
        entries.append((idx, arg, exp, flavour, reply_raw))
    net = FakeNetwork(None)
    net.batch = {wire(leaves[idx]): (rr.hex(), decode_arg(arg)) for idx, arg, _, _, rr in entries}
    ledger.network = net
    heights = {wire(leaves[idx]): req_height for idx, _, _, _, _ in entries}
    batch_case = {'kind': 'batch', 'n': n, 'block_seed': seed, 'roots': [r.hex() for r in roots], 'height': req_height,
                  'entries': [[idx, arg, flavour, rr.hex()] for idx, arg, _, flavour, rr in entries]}
    try:
        txs = world.loop.run_until_complete(ledger._single_batch(list(heights), heights))
    except Exception as e:
        run.case(batch_case)
        run.disagreement('C08.batch', batch_case, type(e).__name__, 'no exception')
        return
    for idx, arg, exp, flavour, reply_raw in entries:
        case = {'kind': 'batch:' + flavour, 'n': n, 'block_seed': seed, 'idx': idx, 'raw': reply_raw.hex(),
                'roots': batch_case['roots'], 'height': req_height, 'arg': arg, 'net': {}, 'expect': exp}
        if reply_raw != raws[idx]:
            case['requested_txid'] = wire(leaves[idx])
        # the transaction object that came back for this reply, whatever key it is filed under
        tx = next((t for t in txs.values() if t.raw == reply_raw), None)
        run.case(case, nontrivial=True)
        run.count('kind:' + case['kind'])
        if tx is None:
            run.violation(case, 'transaction missing from the batch result', signature={'kind': case['kind'], 'n': n, 'idx': idx})
            continue
        obs = {'height': tx.height, 'position': tx.position, 'verified': tx.is_verified, 'fetched': False,
               'outcome': 'none' if flavour == 'no-merkle-key' and 0 < req_height < size else 'tx'}
        extra = {'net_calls': net.calls, 'txid': tx.id, 'hash': tx.hash, 'len_headers': len(ledger.headers)}
        bad = monitor(case, obs, extra) or (net.calls and 'get_merkle called although the batch carried the proofs')
        if bad:
            run.violation(case, bad, signature={'kind': case['kind'], 'n': n, 'idx': idx, 'block_seed': seed})
            continue
        run.compare('C08.maybe_verify via _single_batch', case, obs, run_model(model, case, hraws))


def replay_batch_entry(run, world, model, case):
    """one stored batch:* case again through Ledger._single_batch (a batch of this one transaction)"""
    roots = [bytes.fromhex(r) for r in case['roots']]
    ledger, hraws = world.ledger_for(roots)
    raw = bytes.fromhex(case['raw'])
    txid = case.get('requested_txid') or wire(H(raw))
    net = FakeNetwork(None)
    net.batch = {txid: (case['raw'], decode_arg(case['arg']))}
    ledger.network = net
    txs = world.loop.run_until_complete(ledger._single_batch([txid], {txid: case['height']}))
    tx = next(t for t in txs.values() if t.raw == raw)
    flavour = case['kind'].split(':', 1)[1]
    obs = {'height': tx.height, 'position': tx.position, 'verified': tx.is_verified, 'fetched': False,
           'outcome': 'none' if flavour == 'no-merkle-key' and 0 < case['height'] < len(roots) else 'tx'}
    extra = {'net_calls': net.calls, 'txid': tx.id, 'hash': tx.hash, 'len_headers': len(ledger.headers)}
    run.case(case, nontrivial=True)
    run.count('kind:' + case['kind'])
    bad = monitor(case, obs, extra)
    if bad:
        run.violation(case, bad, signature={'kind': case['kind'], 'n': case.get('n'), 'idx': case.get('idx'),
                                            'block_seed': case.get('block_seed')})
    else:
        run.compare('C08.maybe_verify via _single_batch', case, obs, run_model(model, case, hraws))


def show_case(run, world, model, case):
    """the second call site: WalletManager.get_transaction (transaction_show) for a transaction unknown to the
    database: the server's (raw, merkle) answer is verified only when merkle['block_height'] > 0"""
    roots = [bytes.fromhex(r) for r in case['roots']]
    cached, hraws = world.ledger_for(roots)
    mgr = world.manager()
    ledger = mgr.ledger
    ledger.headers = cached.headers
    raw = bytes.fromhex(case['raw'])
    txid = case.get('requested_txid') or wire(H(raw))
    net = FakeNetwork(None)
    net.batch = {txid: (case['raw'], decode_arg(case['arg']))}
    ledger.network = net
    run.case(case, nontrivial=True)
    run.count('kind:' + case['kind'])
    sig = {'kind': case['kind'], 'n': case.get('n'), 'idx': case.get('idx'), 'block_seed': case.get('block_seed')}
    try:
        tx = world.loop.run_until_complete(mgr.get_transaction(txid))
    except Exception as e:
        run.disagreement('C08.show', case, type(e).__name__, 'no exception')
        return
    if not isinstance(tx, Transaction):
        run.disagreement('C08.show', case, repr(tx)[:200], 'a Transaction')
        return
    h = case['height']
    obs = {'height': tx.height, 'position': tx.position, 'verified': tx.is_verified, 'outcome': 'tx', 'fetched': False}
    extra = {'net_calls': net.calls, 'txid': tx.id, 'hash': tx.hash, 'len_headers': len(ledger.headers)}
    if h is None or not h > 0:
        # not handed to maybe_verify_transaction at all: must stay unverified with the server's height
        if tx.is_verified:
            run.violation(case, f'transaction with block_height {h} reported verified', signature=sig)
        else:
            run.compare('C08.show (no verification below height 1)', case,
                        [tx.height, tx.position, tx.is_verified], [h, -1, False])
        return
    bad = monitor(case, obs, extra)
    if bad:
        run.violation(case, bad, signature=sig)
        return
    mcase = dict(case, prior={'height': h, 'position': -1, 'verified': False})
    run.compare('C08.maybe_verify via WalletManager.get_transaction', case, obs, run_model(model, mcase, hraws))


def show_cases(rng, n, seed):
    raws = make_block(n, seed)
    leaves = [H(r) for r in raws]
    levels = ref_levels(leaves)
    size = rng.randrange(3, 8)
    at = rng.randrange(1, size)
    roots = fresh_roots(rng, size, at, levels[-1][0])
    for idx in rng.sample(range(n), min(n, 3)):
        branch = ref_branch(levels, idx)
        path = ref_path(branch, idx, leaves[idx])
        for flavour in ('genuine', 'wrong-sibling', 'pos-bit', 'height', 'mempool', 'reply-tx-altered'):
            br, pos, h, exp = list(branch), idx, at, 'accept'
            if flavour == 'wrong-sibling':
                if not br:
                    continue
                br[rng.randrange(len(br))] = rng.randbytes(32)
                exp = 'reject'
            elif flavour == 'pos-bit':
                if not br:
                    continue
                k = rng.randrange(len(br))
                pos = idx ^ (1 << k)
                exp = 'accept-dup' if branch[k] == path[k] else 'reject'
            elif flavour == 'height':
                h = rng.choice([x for x in (at - 1, at + 1, size, size + 1, 2 ** 31) if x != at and x > 0])
                exp = 'reject'
            elif flavour == 'mempool':
                h = rng.choice([0, -1, None])
                exp = None
            arg = {'merkle': text_elems(br), 'pos': pos}
            if h is not None:
                arg['block_height'] = h
            c = {'kind': 'show:' + flavour, 'n': n, 'block_seed': seed, 'idx': idx, 'raw': raws[idx].hex(),
                 'roots': [r.hex() for r in roots], 'height': h, 'arg': arg, 'net': {}, 'expect': exp}
            if flavour == 'reply-tx-altered':
                c.update(raw=alter_tx_bytes(rng, raws[idx]).hex(), requested_txid=wire(leaves[idx]), expect='reject')
            yield c


# ------------------------------------------------------------------------------------------------
# "locally validated header": the header store built through the REAL validating Headers.connect
# (proof of work on an easy max_target, bits, previous-hash links), with messages that contain an
# invalid header; proofs are then offered against headers that must not be there
# ------------------------------------------------------------------------------------------------
EASY_TARGET = (1 << 255) - 1


def _c07():
    from props import c07          # reference header rules (hashlib only) owned by the C07 check
    return c07


class PowHd(Headers):
    max_target = EASY_TARGET
    genesis_hash = None
    checkpoints = {}
    validate_difficulty = True


def mine_header(rng, chain, merkle, rule=None):
    """a successor of chain[-1] (or a first header) carrying `merkle`; rule None: valid under the real rules
    (link, bits from the retarget rule, proof of work); 'prev' / 'bits' / 'pow': valid except for that rule"""
    c7 = _c07()
    if not chain:
        return c7.pack(1, bytes(32), merkle, bytes(32), 1600000000, c7.ref_compact(EASY_TARGET), rng.randrange(2 ** 32))
    t = c7.ref_next_target(EASY_TARGET, chain[-2] if len(chain) > 1 else None, chain[-1])
    prev, bits = H(chain[-1]), c7.ref_compact(t)
    if rule == 'prev':
        prev = rng.choice([rng.randbytes(32), prev[:31] + bytes([prev[31] ^ 1]), H(chain[-2]) if len(chain) > 1 else bytes(32)])
    elif rule == 'bits':
        bits = bits + rng.choice([1, -1])
    ts = c7.fields(chain[-1])[0] + 150
    nonce = rng.randrange(2 ** 32)
    while True:
        raw = c7.pack(1, prev, merkle, bytes(32), ts, bits, nonce)
        if (c7.pow_value(raw) <= t) != (rule == 'pow'):
            return raw
        nonce = (nonce + 1) % 2 ** 32


def connect_cases(rng, thorough):
    """base chain connected first, then ONE message [valid * k, INVALID, anything...]; proofs offered at the base,
    at the valid prefix, at the invalid header and behind it"""
    n = rng.choice([1, 2, 3, 5, 7, 8])
    seed = rng.randrange(10 ** 9)
    raws = make_block(n, seed)
    leaves = [H(r) for r in raws]
    levels = ref_levels(leaves)
    root = levels[-1][0]
    b = rng.randrange(2, 6)
    m = rng.randrange(3, 8)
    rule = rng.choice(['prev', 'bits', 'pow', 'prev', None])
    k = rng.randrange(1, m) if rule else m                 # index of the first invalid header in the message
    if rule and rng.random() < 0.7:
        k = rng.randrange(1, (m + 1) // 2)                 # ... mostly in the first half of the message
    chain = []
    carrier = rng.randrange(1, b)                          # a base header that carries the block as well
    for i in range(b):
        chain.append(mine_header(rng, chain, root if i == carrier else rng.randbytes(32)))
    msg = []
    for i in range(m):
        # the block's root sits in the invalid header, in one header of the valid prefix and in one behind
        carries = (i == k) or (i == k - 1) or (i == k + 1) or rng.random() < 0.3
        msg.append(mine_header(rng, chain + msg, root if carries else rng.randbytes(32), rule if i == k else None))
    heights = sorted({carrier, b + k - 1, b + k, b + k + 1, b + m - 1} & set(range(1, b + m)))
    for h in heights:
        sent = (chain + msg)[h]
        if sent[36:68] != root:
            continue
        for idx in ([rng.randrange(n)] if not thorough else sorted({0, n - 1, rng.randrange(n)})):
            yield {'kind': 'connect:' + (rule or 'all-valid'), 'n': n, 'block_seed': seed, 'idx': idx,
                   'raw': raws[idx].hex(), 'base': [x.hex() for x in chain], 'msg': [x.hex() for x in msg],
                   'first_invalid': k if rule else None, 'height': h,
                   'arg': {'block_height': h, 'merkle': text_elems(ref_branch(levels, idx)), 'pos': idx}, 'net': {}}


def connect_case(run, world, model, case):
    c7 = _c07()
    cfg = {'max_target': EASY_TARGET, 'genesis': None, 'vd': True, 'checkpoints': []}
    base = [bytes.fromhex(x) for x in case['base']]
    msg = [bytes.fromhex(x) for x in case['msg']]
    sent = base + msg
    h = case['height']
    run.case(case, nontrivial=True)
    run.count('kind:' + case['kind'])
    sig = {'kind': case['kind'], 'n': case.get('n'), 'idx': case.get('idx'), 'block_seed': case.get('block_seed'),
           'height': h, 'first_invalid': case.get('first_invalid')}
    # reference: which of the sent headers pass validation (rules written in the C07 harness on hashlib)
    if c7.ref_first_invalid(cfg, [], base) is not None:
        run.disagreement('C08.connect harness', case, 'base chain is not valid', None)
        return
    fi = c7.ref_first_invalid(cfg, base, msg)
    valid_upto = len(sent) if fi is None else len(base) + fi[0]
    key = ('pow', case['base'][-1], ''.join(case['msg']))
    hit = world.cache.get(key)
    if hit is None:
        hd = PowHd(':memory:')
        world.loop.run_until_complete(hd.open())
        added0 = world.loop.run_until_complete(hd.connect(0, b''.join(base)))
        added1 = world.loop.run_until_complete(hd.connect(len(base), b''.join(msg)))
        ledger = Ledger({'db': Database(':memory:'), 'headers': hd})
        hit = world.cache[key] = (ledger, added0, added1)
    ledger, added0, added1 = hit
    hd = ledger.headers
    if added0 != len(base):
        run.disagreement('C08.connect', case, f'valid base chain: {added0} of {len(base)} stored', None)
        return
    stored = [hd._read(i) for i in range(len(hd))]
    raw = bytes.fromhex(case['raw'])
    tx = Transaction(raw)
    net = FakeNetwork({})
    ledger.network = net
    try:
        ret = world.loop.run_until_complete(ledger.maybe_verify_transaction(tx, h, decode_arg(case['arg'])))
        outcome = 'tx' if ret is tx else 'none' if ret is None else 'other'
    except Exception as e:
        outcome = type(e).__name__
    obs = {'height': tx.height, 'position': tx.position, 'verified': tx.is_verified, 'outcome': outcome,
           'fetched': bool(net.calls)}
    leaf = H(raw)
    decoded = [strict_unhex(e['s']) for e in case['arg']['merkle']]
    folds = all(d is not None for d in decoded) and 0 <= h < len(sent) and \
        ref_check([d[::-1] for d in decoded], case['arg']['pos'], leaf, sent[h][36:68])
    if tx.is_verified:
        if not (0 <= h < valid_upto):
            why = '' if fi is None or h >= len(sent) else f' (the header sent for height {len(base) + fi[0]} breaks rule {fi[1]!r})'
            run.violation(case, f'verified at height {h} against a header that never passed local validation: only '
                                f'headers 0..{valid_upto - 1} of what the server sent are valid{why}', signature=sig)
            return
        if not folds or h >= len(stored) or stored[h] != sent[h]:
            run.violation(case, f'verified at height {h} although the proof does not fold to the validated header', signature=sig)
            return
    elif folds and 0 < h < len(stored) and stored[h] == sent[h] and h < valid_upto:
        run.violation(case, f'genuine proof to the validated, stored header {h} was not accepted', signature=sig)
        return
    if len(stored) > valid_upto:
        run.disagreement('C08.connect: header store holds headers that failed validation', case, len(stored), valid_upto)
        return
    mod = model.call('maybe_verify', headers=[x.hex() for x in stored], st={'height': -2, 'position': -1, 'verified': False},
                     raw=case['raw'], height=h, arg=model_resp(case['arg']), net={})
    run.compare('C08.maybe_verify over a store built by the validating connect', case, obs, mod)


# ------------------------------------------------------------------------------------------------
# restart: the header file is damaged between two runs (a stored header's merkle root replaced by the
# root of a forged block), Headers.open() re-validates (repair), then the forged proof is offered
# ------------------------------------------------------------------------------------------------
def restart_cases(rng, thorough):
    n = rng.choice([1, 2, 3, 5, 8])
    seed = rng.randrange(10 ** 9)
    raws = make_block(n, seed)                              # the forged block
    leaves = [H(r) for r in raws]
    levels = ref_levels(leaves)
    forged_root = levels[-1][0]
    gn, gseed = rng.choice([1, 2, 4]), rng.randrange(10 ** 9)
    graws = make_block(gn, gseed)                           # a real block, carried by a header below the damage
    glevels = ref_levels([H(r) for r in graws])
    L = rng.randrange(4, 40)
    # the damaged header: never the tip -- damage to the last stored header is only detectable through a successor
    # (DESIGN section 7, C07 reading: it is healed by the next connect, not by open)
    j = rng.randrange(2, L - 1)
    g = rng.randrange(1, j)
    chain = []
    for i in range(L):
        chain.append(mine_header(rng, chain, glevels[-1][0] if i == g else rng.randbytes(32)))
    base = {'chain': [x.hex() for x in chain], 'alter': j, 'forged_root': forged_root.hex(),
            # 0 = an aligned file (since fix 60c307b a checkpoint-less store is link-checked from genesis at open);
            # otherwise a half-written tail, which runs the full repair
            'stray': rng.choice([0, 0, rng.randrange(1, 112), 1, 111]), 'net': {}}
    idx = rng.randrange(n)
    yield dict(base, kind='restart:forged-root', n=n, block_seed=seed, idx=idx, raw=raws[idx].hex(), height=j,
               arg={'block_height': j, 'merkle': text_elems(ref_branch(levels, idx)), 'pos': idx})
    gi = rng.randrange(gn)
    yield dict(base, kind='restart:genuine-below-damage', n=gn, block_seed=gseed, idx=gi, raw=graws[gi].hex(), height=g,
               arg={'block_height': g, 'merkle': text_elems(ref_branch(glevels, gi)), 'pos': gi})


def restart_case(run, world, model, case):
    import tempfile
    import shutil
    chain = [bytes.fromhex(x) for x in case['chain']]
    j, h = case['alter'], case['height']
    run.case(case, nontrivial=True)
    run.count('kind:' + case['kind'])
    sig = {'kind': case['kind'], 'alter': j, 'height': h, 'len': len(chain), 'stray': case['stray']}
    key = ('restart', case['chain'][-1], j, case['forged_root'], case['stray'])
    hit = world.cache.get(key)
    if hit is None:
        cls = type('PowHdG', (PowHd,), {'genesis_hash': binascii.hexlify(H(chain[0])[::-1])})
        tmp = tempfile.mkdtemp(prefix='c08_')
        try:
            path = os.path.join(tmp, 'headers')
            hd = cls(path)
            world.loop.run_until_complete(hd.open())
            added = world.loop.run_until_complete(hd.connect(0, b''.join(chain)))
            world.loop.run_until_complete(hd.close())
            with open(path, 'r+b') as f:                      # while the wallet is down
                f.seek(j * 112 + 36)
                f.write(bytes.fromhex(case['forged_root']))
                f.seek(0, os.SEEK_END)
                f.write(b'\x01' * case['stray'])              # a half written header: the full repair runs
            hd2 = cls(path)
            world.loop.run_until_complete(hd2.open())
            stored = [hd2._read(i) for i in range(len(hd2))]
            ledger = Ledger({'db': Database(':memory:'), 'headers': hd2})
        finally:
            shutil.rmtree(tmp, ignore_errors=True)
        hit = world.cache[key] = (ledger, added, stored)
    ledger, added, stored = hit
    if added != len(chain):
        run.disagreement('C08.restart', case, f'valid chain: {added} of {len(chain)} stored', None)
        return
    raw = bytes.fromhex(case['raw'])
    tx = Transaction(raw)
    ledger.network = FakeNetwork({})
    try:
        ret = world.loop.run_until_complete(ledger.maybe_verify_transaction(tx, h, decode_arg(case['arg'])))
        outcome = 'tx' if ret is tx else 'none' if ret is None else 'other'
    except Exception as e:
        outcome = type(e).__name__
    obs = {'height': tx.height, 'position': tx.position, 'verified': tx.is_verified, 'outcome': outcome, 'fetched': False}
    decoded = [strict_unhex(e['s'])[::-1] for e in case['arg']['merkle']]
    folds_validated = 0 <= h < len(chain) and ref_check(decoded, case['arg']['pos'], H(raw), chain[h][36:68])
    if tx.is_verified and not folds_validated:
        run.violation(case, f'verified at height {h} after a restart, but the proof does not lead to the header the node '
                            f'validated for that height (the stored header {h} was altered on disk and survived '
                            f'Headers.open)', signature=sig)
        return
    if not tx.is_verified and folds_validated and 0 < h < len(stored) and stored[h] == chain[h]:
        run.violation(case, f'genuine proof to the intact, re-validated header {h} was not accepted after the restart',
                      signature=sig)
        return
    unvalidated = [i for i, x in enumerate(stored) if i >= len(chain) or x != chain[i]]
    if unvalidated:
        run.disagreement('C08.restart: header store serves headers the node never validated', case, unvalidated, [])
        return
    mod = model.call('maybe_verify', headers=[x.hex() for x in stored], st={'height': -2, 'position': -1, 'verified': False},
                     raw=case['raw'], height=h, arg=model_resp(case['arg']), net={})
    run.compare('C08.maybe_verify over a re-opened header file', case, obs, mod)


# ------------------------------------------------------------------------------------------------
# the cache around maybe_verify_transaction: Ledger.request_transactions(cached=True) + update_headers
# ------------------------------------------------------------------------------------------------
class SyncNetwork:
    def __init__(self):
        self.chain = []            # the server's current chain (raw headers)
        self.answers = {}          # txid -> (raw hex, merkle dict)
        self.batches = []
        from lbry.wallet.stream import StreamController
        self.on_header = StreamController().stream
        self.on_status = StreamController().stream

    def retriable_call(self, function, *args, **kwargs):
        return function(*args, **kwargs)

    async def get_headers(self, height, count=10000, b64=False):
        part = self.chain[height:height + count]
        return {'count': len(part), 'hex': binascii.hexlify(b''.join(part)).decode()}

    async def get_transaction_batch(self, txids, restricted=True):
        self.batches.append(list(txids))
        return {txid: self.answers[txid] for txid in txids}

    async def get_merkle(self, txid, height):
        return self.answers[txid][1]


def link_headers(prefix, roots, salt):
    out = list(prefix)
    for root in roots:
        prev = binascii.hexlify(H(out[-1])[::-1]) if out else b'0' * 64
        out.append(Headers.serialize({
            'version': 1, 'prev_block_hash': prev, 'merkle_root': binascii.hexlify(root[::-1]),
            'claim_trie_root': b'0' * 64, 'timestamp': 1500000000 + 150 * len(out), 'bits': 0x207fffff,
            'nonce': (salt * 1000 + len(out)) % 2 ** 32}))
    return out


def cache_scenario(seed):
    """deterministic script: server chain, transactions watched, and a list of steps
    ('grow' k | 'switch' fork | 'sync' | 'request' [(txid, height)])"""
    rng = random.Random(f'cache:{seed}')
    blocks = {}                                             # root -> (raws, levels)

    def new_root():
        n = rng.choice([1, 2, 3, 4, 5])
        raws = make_block(n, rng.randrange(10 ** 9))
        levels = ref_levels([H(r) for r in raws])
        blocks[levels[-1][0]] = (raws, levels)
        return levels[-1][0]

    la = rng.randrange(5, 10)
    chain = link_headers([], [new_root() for _ in range(la)], 1)
    answers, watched = {}, []

    def watch(chain_, height, keep=True):
        raws, levels = blocks[chain_[height][36:68]]
        idx = rng.randrange(len(raws))
        txid = wire(H(raws[idx]))
        answers[txid] = (raws[idx].hex(), {'block_height': height, 'merkle': [wire(b) for b in ref_branch(levels, idx)],
                                           'pos': idx})
        if keep:
            watched.append((txid, height))
        return (txid, height)

    for hgt in rng.sample(range(1, la), min(la - 1, rng.randrange(2, 5))):
        watch(chain, hgt)
    steps = [('init', list(chain)), ('sync',), ('request', list(watched))]
    if rng.random() < 0.5:
        steps.append(('request', rng.sample(watched, rng.randrange(1, len(watched) + 1))))
    # the server gets ahead of the wallet: a transaction confirmed above the wallet's tip
    k = rng.randrange(1, 3)
    chain = link_headers(chain, [new_root() for _ in range(k)], 2)
    ahead = watch(chain, len(chain) - rng.randrange(1, k + 1))
    steps += [('grow', list(chain)), ('request', [ahead]), ('sync',), ('request', [ahead] + rng.sample(watched, 1))]
    # reorganisation whose lowest replaced height is (mostly) the height of a cached, verified transaction
    fork = rng.choice([hh for _, hh in watched]) if rng.random() < 0.75 else rng.randrange(1, len(chain))
    extra = rng.randrange(1, 3)      # the wallet only notices a reorganisation when the server's chain is longer
    chain = link_headers(chain[:fork], [new_root() for _ in range(len(chain) - fork + extra)], 3)
    steps += [('switch', list(chain)), ('sync',), ('request', list(watched) + [ahead])]
    if rng.random() < 0.6:
        newer = watch(chain, rng.randrange(fork, len(chain)))
        steps.append(('request', [newer] + rng.sample(watched, 1)))
    if rng.random() < 0.5:
        chain = link_headers(chain, [new_root() for _ in range(rng.randrange(1, 3))], 4)
        steps += [('grow', list(chain)), ('sync',), ('request', list(watched))]
    # an already persisted file, then a reorganisation that does NOT change the chain length (the last k headers
    # replaced by siblings, delivered the way Ledger.receive_header delivers a header notification), cached
    # requests in that session, shutdown, restart, and both proofs again
    if rng.random() < 0.8:
        steps.append(('restart',))
        k = rng.choice([1, 1, 2, 2, 3])
        k = min(k, len(chain) - 2)
        # j replacement headers for the last k: the same length, or a fork that is momentarily SHORTER (the stored
        # headers above its tip belong to the abandoned fork and must go), or longer
        j = rng.choice([k, k, max(1, k - 1), max(1, k - 1), k + 1])
        old_tip = watch(chain, len(chain) - (1 if j < k else rng.randrange(1, k + 1)), keep=False)
        steps.append(('request', [old_tip] + rng.sample(watched, 1)))
        chain = link_headers(chain[:len(chain) - k], [new_root() for _ in range(j)], 5)
        new_tip = watch(chain, min(old_tip[1], len(chain) - 1), keep=False)
        steps.append(('replace', list(chain), k))
        if rng.random() < 0.7:
            steps.append(('request', [old_tip, new_tip] + rng.sample(watched, 1)))
        steps += [('restart',), ('request', [old_tip, new_tip] + rng.sample(watched, 1))]
        if rng.random() < 0.4:
            chain = link_headers(chain, [new_root()], 6)
            steps += [('grow', list(chain)), ('sync',), ('restart',), ('request', [new_tip, old_tip])]
    # one txid at most once per request
    steps = [(st[0], list(dict.fromkeys(st[1]))) + tuple(st[2:]) if st[0] == 'request' else st for st in steps]
    return steps, answers


def cache_case(run, world, model, case):
    steps, answers = cache_scenario(case['scenario_seed'])
    loop = world.loop
    import tempfile
    import shutil
    net = SyncNetwork()
    net.answers = answers
    tmp = tempfile.mkdtemp(prefix='c08_')
    box = {}

    def start_wallet():
        """a new process: the header FILE is opened again, a new Ledger (empty tx cache) and database"""
        # since fix 60c307b a checkpoint-less store is link-checked from genesis when it is opened: the store
        # has to know its genesis hash like a real network's does
        hd_ = box['cls'](os.path.join(tmp, 'headers'))
        loop.run_until_complete(hd_.open())      # before the Ledger exists: Ledger.__init__ installs mainnet checkpoints
        db_ = Database(':memory:')
        box['ledger'] = Ledger({'db': db_, 'headers': hd_, 'network': net})
        hd_.checkpoints = {}
        loop.run_until_complete(db_.open())
        box['db'] = db_
    box['cls'] = type('HdG', (Hd,), {'genesis_hash': binascii.hexlify(H(steps[0][1][0])[::-1])})
    start_wallet()
    ledger = box['ledger']
    store_diverged = None
    run.case(case, nontrivial=True)
    run.count('kind:cache')
    wallet = []                     # the chain the wallet holds according to the harness's own bookkeeping
    mops, mexpect = [], []          # model operations and, per request op, the implementation's observation
    sig = {'kind': 'cache', 'scenario_seed': case['scenario_seed']}
    try:
        for si, st in enumerate(steps):
            if st[0] in ('init', 'grow', 'switch'):
                net.chain = st[1]
            elif st[0] == 'restart':
                loop.run_until_complete(ledger.headers.close())          # what Ledger.stop does
                loop.run_until_complete(box['db'].close())
                start_wallet()
                ledger = box['ledger']
                mops.append({'op': 'restart'})
                mexpect.append(None)
                run.count('cache:restart')
                stored = [ledger.headers._read(i) for i in range(len(ledger.headers))]
                if stored != wallet and store_diverged is None:
                    store_diverged = si       # judged by the monitor on the following requests first
            elif st[0] == 'replace':
                new, k = st[1], st[2]
                net.chain = new
                fork = len(wallet) - k
                loop.run_until_complete(ledger.update_headers(
                    height=fork, headers=binascii.hexlify(b''.join(new[fork:])).decode(), subscription_update=True))
                mops.append({'op': 'replace', 'fork': fork, 'headers': [x.hex() for x in new[fork:]]})
                mexpect.append(None)
                run.count('cache:replacement:' + ('shorter' if len(new) < len(wallet) else 'equal' if len(new) == len(wallet) else 'longer'))
                wallet = list(new)
                stored = [ledger.headers._read(i) for i in range(len(ledger.headers))]
                if stored != wallet and store_diverged is None:
                    store_diverged = si       # judged by the monitor on the following requests first
            elif st[0] == 'sync':
                loop.run_until_complete(ledger.update_headers())
                new = net.chain
                f = 0
                while f < len(wallet) and f < len(new) and wallet[f] == new[f]:
                    f += 1
                if f == len(wallet):
                    if new[f:]:
                        mops.append({'op': 'extend', 'headers': [x.hex() for x in new[f:]]})
                        mexpect.append(None)
                else:
                    mops.append({'op': 'reorg', 'fork': f, 'headers': [x.hex() for x in new[f:]]})
                    mexpect.append(None)
                    run.count('cache:reorg')
                wallet = list(new)
                stored = [ledger.headers._read(i) for i in range(len(ledger.headers))]
                if stored != wallet:
                    run.disagreement('C08.cache: header list after update_headers', dict(case, step=si), len(stored), len(wallet))
                    return
            else:
                req = st[1]
                before = len(net.batches)

                async def fetch():
                    got = {}
                    async for txs in ledger.request_transactions(tuple(req), cached=True):
                        got.update(txs)
                    return got
                got = loop.run_until_complete(fetch())
                asked = {t for b in net.batches[before:] for t in b}
                for txid, h in req:
                    run.count('cache:request')
                    tx = got.get(txid)
                    if tx is None:
                        run.violation(dict(case, step=si), f'requested transaction {txid} not returned', signature=sig)
                        return
                    rawhex, merkle = answers[txid]
                    leaf = H(tx.raw)
                    br = [bytes.fromhex(x)[::-1] for x in merkle['merkle']]
                    hit = txid not in asked

                    def folds(height):
                        return 0 < height < len(wallet) and ref_check(br, merkle['pos'], leaf, wallet[height][36:68])
                    if tx.is_verified and not folds(tx.height):
                        run.violation(dict(case, step=si, txid=txid),
                                      f'{"cached " if hit else ""}transaction returned VERIFIED at height {tx.height}, but its '
                                      f'proof does not lead to the Merkle root of the header the wallet now holds at that '
                                      f'height ({len(wallet)} headers{"; the header store is not the chain the wallet validated last (step %d)" % store_diverged if store_diverged is not None else ""})', signature=sig)
                        return
                    if folds(h) and not (tx.is_verified and tx.height == h):
                        run.violation(dict(case, step=si, txid=txid),
                                      f'genuine proof for height {h} (header present, {len(wallet)} headers) not accepted: '
                                      f'{"served from the cache " if hit else ""}verified={tx.is_verified} at height {tx.height}'
                                      f'{"; the header store is not the chain the wallet validated last (step %d)" % store_diverged if store_diverged is not None else ""}',
                                      signature=sig)
                        return
                    if hit:
                        run.count('cache:hit')
                    mops.append({'op': 'request', 'key': txid, 'raw': rawhex, 'height': h,
                                 'arg': {'merkle': [x.encode().hex() for x in merkle['merkle']], 'pos': merkle['pos']},
                                 'net': {}})
                    mexpect.append({'hit': hit, 'height': tx.height, 'position': tx.position, 'verified': tx.is_verified,
                                    'outcome': 'tx'})
        if store_diverged is not None:
            run.disagreement('C08.cache: header store (after a restart or a replacement) is not the chain the wallet validated last',
                             dict(case, step=store_diverged), 'differs', 'equal')
            return
        mod = model.call('cache_run', headers=[], ops=mops)
        run.compare('C08.cache (request_transactions + update_headers + restart) vs Model/C08_Cache.v', case,
                    {'len': len(wallet), 'results': mexpect}, mod)
    finally:
        try:
            loop.run_until_complete(box['db'].close())
        finally:
            shutil.rmtree(tmp, ignore_errors=True)


# ------------------------------------------------------------------------------------------------
# checkpointed chunks fetched on demand: Headers.get -> ensure_chunk_at -> fetch_chunk with a lying getter
# ------------------------------------------------------------------------------------------------
class CkHd(Headers):
    genesis_hash = None
    validate_difficulty = False
    checkpoints = {}


def chunk_scenario(seed, case_disk=False):
    """m checkpointed chunks, all missing at start; per chunk the real 1000 headers (what the checkpoint commits
    to) and a forged chunk; a script of attempts (which answer the server gives, which transaction/proof, height)"""
    rng = random.Random(f'chunk:{seed}')
    m = rng.choice([1, 1, 2])
    variants, cps, blocks = [], [], {}

    def block():
        n = rng.choice([1, 2, 3, 5])
        raws = make_block(n, rng.randrange(10 ** 9))
        levels = ref_levels([H(r) for r in raws])
        return raws, levels

    def chunk_with(root, off):
        hs = [rng.randbytes(112) for _ in range(1000)]
        hs[off] = hs[off][:36] + root + hs[off][68:]
        return hs
    spots = []
    for k in range(m):
        off = rng.choice([1, 7, 999, rng.randrange(1, 1000)]) if k == 0 else rng.choice([0, 999, rng.randrange(0, 1000)])
        real_b, fake_b = block(), block()
        real = chunk_with(real_b[1][-1][0], off)
        fake = chunk_with(fake_b[1][-1][0], off)
        cps.append(H(b''.join(real)))
        variants += [real, fake]                     # index 2k = honest answer, 2k+1 = forged chunk
        spots.append((1000 * k + off, real_b, fake_b))
    if rng.random() < 0.4:                           # a forged answer that shares all but the special header
        k = rng.randrange(m)
        h, _, fake_b = spots[k]
        near = list(variants[2 * k])
        near[h - 1000 * k] = variants[2 * k + 1][h - 1000 * k]
        variants.append(near)
        near_of = {k: len(variants) - 1}
    else:
        near_of = {}

    def att(k, server, which):
        h, real_b, fake_b = spots[k]
        raws, levels = real_b if which == 'genuine' else fake_b
        idx = rng.randrange(len(raws))
        return {'chunk': k, 'server': server, 'which': which, 'height': h, 'raw': raws[idx].hex(),
                'arg': {'block_height': h, 'merkle': text_elems(ref_branch(levels, idx)), 'pos': idx}}
    script = []
    for k in range(m):
        lie = near_of.get(k, 2 * k + 1)
        script += [att(k, lie, 'forged') for _ in range(rng.randrange(2, 4))]       # first attempt and the RETRIES
        if rng.random() < 0.5:
            script.append(att(k, 2 * k + 1, 'genuine'))                             # genuine proof, lying server
        script.append(att(k, 2 * k, rng.choice(['genuine', 'forged'])))             # honest server at last
        script += [att(k, lie, 'forged'), att(k, lie, 'genuine')]                   # chunk present: getter not asked
    if m == 2 and rng.random() < 0.5:
        rng.shuffle(script)
    # half of the scenarios start from a header FILE written in an earlier run and damaged since: per chunk the
    # file holds the genuine chunk, the genuine chunk with ONE header replaced (the forged block's header; never
    # the first header of the chunk alone), a torn write (first part genuine, the rest still the zero placeholder)
    # or nothing (zeros)
    disk = None
    if case_disk:
        disk = {}
        for k in range(m):
            h, _, _ = spots[k]
            kind = rng.choice(['edited', 'edited', 'torn', 'intact', 'blank'])
            if kind == 'edited':
                c = list(variants[2 * k])
                c[h - 1000 * k] = variants[2 * k + 1][h - 1000 * k]
                if rng.random() < 0.3:
                    c[0] = variants[2 * k + 1][0]
            elif kind == 'torn':
                t = rng.randrange(1, 1000)
                c = variants[2 * k][:t] + [bytes(112)] * (1000 - t)
            elif kind == 'intact':
                c = list(variants[2 * k])
            else:
                continue
            variants.append(c)
            disk[k] = (len(variants) - 1, kind)
            if kind == 'edited':     # the lying server serves exactly what the file holds
                script = [dict(a, server=len(variants) - 1) if a['chunk'] == k and a['server'] != 2 * k else a
                          for a in script]
    return m, cps, variants, script, disk


def chunk_case(run, world, model, case):
    import base64
    import zlib
    import tempfile
    import shutil
    m, cps, variants, script, disk = chunk_scenario(case['scenario_seed'], bool(case.get('disk')))
    loop = world.loop
    run.case(case, nontrivial=True)
    run.count('kind:chunk' + (':restart' if disk is not None else ''))
    sig = {'kind': 'chunk', 'scenario_seed': case['scenario_seed'], 'disk': bool(case.get('disk'))}
    tmp = None
    if disk is None:
        hd = CkHd(':memory:')
    else:
        tmp = tempfile.mkdtemp(prefix='c08_')
        path = os.path.join(tmp, 'headers')
        with open(path, 'wb') as f:                 # the header file as the previous run (and the damage) left it
            for k in range(m):
                f.write(b''.join(variants[disk[k][0]]) if k in disk else bytes(112000))
        for k, (_, kind) in disk.items():
            run.count('chunk:file:' + kind)
        hd = CkHd(path)
    ledger = Ledger({'db': Database(':memory:'), 'headers': hd})
    hd.checkpoints = {1000 * k: binascii.hexlify(cp[::-1]).decode() for k, cp in enumerate(cps)}   # after Ledger.__init__
    try:
        loop.run_until_complete(hd.open())
    finally:
        if tmp:
            shutil.rmtree(tmp, ignore_errors=True)
    if disk is None and (len(hd) != 1000 * m or hd.known_missing_checkpointed_chunks != {1000 * k for k in range(m)}):
        run.disagreement('C08.chunk setup', case, [len(hd), sorted(hd.known_missing_checkpointed_chunks)], [1000 * m])
        return
    state = {'serve': 0, 'asked': 0}

    async def getter(start):
        state['asked'] += 1
        raw = b''.join(variants[state['serve']])
        z = zlib.compressobj(wbits=-15)
        return {'base64': base64.b64encode(z.compress(raw) + z.flush()).decode(), 'count': len(raw) // 112}
    hd.chunk_getter = getter
    ledger.network = FakeNetwork({})
    observed = []
    for i, a in enumerate(script):
        state['serve'], before = a['server'], state['asked']
        raw = bytes.fromhex(a['raw'])
        tx = Transaction(raw)
        try:
            ret = loop.run_until_complete(ledger.maybe_verify_transaction(tx, a['height'], decode_arg(a['arg'])))
            outcome = 'tx' if ret is tx else 'none' if ret is None else 'other'
        except Exception as e:
            outcome = 'CheckpointMismatch' if str(e).startswith('Checkpoint mismatch') else type(e).__name__
        run.count('chunk:attempt:' + outcome + (':verified' if tx.is_verified else ''))
        k, h = a['chunk'], a['height']
        committed = variants[2 * k][h - 1000 * k]          # the header the built-in checkpoint commits to
        br = [bytes.fromhex(e['s'])[::-1] for e in a['arg']['merkle']]
        folds = ref_check(br, a['arg']['pos'], H(raw), committed[36:68])
        where = dict(case, attempt=i, height=h, served=('honest' if a['server'] == 2 * k else 'forged'), proof=a['which'])
        if tx.is_verified and not folds:
            run.violation(where, f'attempt {i + 1}: verified at height {h} against a header of a chunk that does not hash to '
                                 f'the built-in checkpoint (the server\'s chunk failed the checkpoint'
                                 f'{" on an earlier attempt" if state["asked"] == before else ""}); the wallet has no '
                                 f'validated header for that height', signature=sig)
            return
        present_now = 1000 * k not in hd.known_missing_checkpointed_chunks
        if folds and (a['server'] == 2 * k or (present_now and state['asked'] == before)) and not tx.is_verified:
            run.violation(where, f'attempt {i + 1}: genuine proof to the checkpointed header {h} not accepted '
                                 f'(outcome {outcome})', signature=sig)
            return
        observed.append({'height': tx.height, 'position': tx.position, 'verified': tx.is_verified, 'outcome': outcome,
                         'asked': state['asked'] > before})
    present = sorted(k for k in range(m) if 1000 * k not in hd.known_missing_checkpointed_chunks)
    extra = {'disk': [[k, v] for k, (v, _) in sorted(disk.items())]} if disk is not None else {}
    mod = model.call('chunk_run', csize=1000, checkpoints=[c.hex() for c in cps], **extra,
                     chunks=[[x.hex() for x in v] for v in variants],
                     attempts=[{'server': a['server'], 'raw': a['raw'], 'height': a['height'], 'arg': model_resp(a['arg']),
                                'net': {}} for a in script])
    mod['present'] = sorted(mod['present'])
    run.compare('C08.chunk (fetch_chunk on demand) vs Model/C08_Chunk.v', case, {'present': present, 'results': observed}, mod)


# ------------------------------------------------------------------------------------------------
# the persisted verdict: Ledger.update_history against a fake server, rows read back from the database
# ------------------------------------------------------------------------------------------------
class HistoryNetwork:
    is_connected = True
    client = None

    def __init__(self):
        self.history = {}          # address -> [(txid, height)]
        self.replies = {}          # txid -> (raw hex, merkle dict)
        from lbry.wallet.stream import StreamController
        self.on_header = StreamController().stream
        self.on_status = StreamController().stream

    def retriable_call(self, function, *args, **kwargs):
        return function(*args, **kwargs)

    async def subscribe_address(self, *addresses):
        return [None] * len(addresses)

    async def get_history(self, address):
        return [{'tx_hash': t, 'height': h} for t, h in self.history.get(address, [])]

    async def get_transaction_batch(self, txids, restricted=True):
        return {txid: self.replies[txid] for txid in txids}

    async def get_merkle(self, txid, height):
        return self.replies[txid][1]


def history_world(world):
    """one wallet (account, opened database) for the whole stream; each script gets its own address and headers"""
    hw = getattr(world, '_history', None)
    if hw is None:
        net = HistoryNetwork()
        db = Database(':memory:')
        ledger = Ledger({'db': db, 'headers': Hd(':memory:'), 'network': net})
        world.loop.run_until_complete(db.open())
        account = Account.from_dict(ledger, Wallet(), {'seed': 'carbon smart garage balance margin twelve chest sword '
                                                               'toast envelope bottom stomach absent'})
        ledger.accounts.append(account)
        world.loop.run_until_complete(account.ensure_address_gap())
        addresses = world.loop.run_until_complete(account.receiving.get_addresses())
        hw = world._history = {'net': net, 'db': db, 'ledger': ledger, 'addresses': addresses, 'used': 0}
    return hw


def make_tx_to(rng, pkh):
    raw = make_tx(rng)
    return raw[:166] + pkh + raw[186:]          # the 20-byte hash of the pay-to-pubkey-hash output


def history_scenario(seed):
    rng = random.Random(f'history:{seed}')
    size = rng.randrange(4, 9)
    return rng, size


def history_case(run, world, model, case):
    import hashlib as _h
    hw = history_world(world)
    loop, net, ledger, db = world.loop, hw['net'], hw['ledger'], hw['db']
    rng = random.Random(f'history:{case["scenario_seed"]}')
    address = hw['addresses'][hw['used'] % len(hw['addresses'])]
    hw['used'] += 1
    pkh = ledger.address_to_hash160(address)
    run.case(case, nontrivial=True)
    run.count('kind:history')
    sig = {'kind': 'history', 'scenario_seed': case['scenario_seed']}
    # two blocks that contain transactions paying the wallet, at heights a and b of a chain of `size` headers
    size = rng.randrange(4, 9)
    a, b = rng.sample(range(1, size), 2)
    blocks = {}
    for hgt in (a, b):
        n = rng.choice([1, 2, 3, 4, 6])
        raws = [make_tx_to(rng, pkh) if i == 0 or rng.random() < 0.3 else make_tx(rng) for i in range(n)]
        rng.shuffle(raws)
        blocks[hgt] = (raws, ref_levels([H(r) for r in raws]))
    roots = [blocks[i][1][-1][0] if i in blocks else rng.randbytes(32) for i in range(size)]
    cached, hraws = world.ledger_for(roots)
    ledger.headers = cached.headers
    mine = [(hgt, i) for hgt in (a, b) for i, r in enumerate(blocks[hgt][0]) if r[166:186] == pkh]
    t_h, t_i = mine[0]
    traws, tlevels = blocks[t_h]
    T = traws[t_i]
    txid = wire(H(T))
    genuine = {'merkle': [wire(x) for x in ref_branch(tlevels, t_i)], 'pos': t_i}
    other_inrange = [x for x in range(1, size) if x != t_h]
    # the server's successive claims about where T is confirmed (height, dict)
    plan = [(t_h, dict(genuine, block_height=t_h))]
    for _ in range(rng.randrange(1, 4)):
        kind = rng.choice(['beyond', 'other-height', 'mempool', 'wrong-branch', 'back'])
        if kind == 'beyond':
            hh = rng.choice([size, size + 1, size + 50])
            plan.append((hh, dict(genuine, block_height=hh)))
        elif kind == 'other-height':
            hh = rng.choice(other_inrange)
            plan.append((hh, dict(genuine, block_height=hh)))
        elif kind == 'mempool':
            hh = rng.choice([0, -1])
            plan.append((hh, {'block_height': hh}))
        elif kind == 'wrong-branch':
            hh = rng.choice(other_inrange + [t_h])
            bad = dict(genuine, block_height=hh)
            bad['merkle'] = [wire(rng.randbytes(32)) for _ in genuine['merkle']] or [wire(rng.randbytes(32))]
            plan.append((hh, bad))
        else:
            plan.append((t_h, dict(genuine, block_height=t_h)))
    plan = [p for i, p in enumerate(plan) if i == 0 or p[0] != plan[i - 1][0]]      # the history must change to be re-synced
    base_history = list(net.history.get(address, []))
    mops = []
    if case.get('reorg'):
        # KNOWN FINDING (Database.rewind_blockchain is an empty TODO): the row of a transaction verified in a block
        # that is then replaced keeps (height, verified) -- reported with a fixed signature
        hd = Hd(':memory:')
        loop.run_until_complete(hd.open())
        loop.run_until_complete(hd.connect(0, b''.join(hraws)))
        hd.checkpoints = {}
        ledger.headers = hd
        net.replies[txid] = (T.hex(), plan[0][1])
        net.history[address] = base_history + [(txid, t_h)]
        status = _h.sha256(''.join(f'{t}:{x}:' for t, x in net.history[address]).encode()).hexdigest()
        loop.run_until_complete(ledger.update_history(address, status))
        row = loop.run_until_complete(db.get_transaction(txid=txid))
        if row is None or not (row.is_verified and row.height == t_h):
            run.violation(dict(case, step=0), f'genuine proof at height {t_h} synced, row is {row and (row.height, row.is_verified)}', signature=sig)
            return
        fork = rng.randrange(1, t_h + 1)
        new = link_headers(hraws[:fork], [rng.randbytes(32) for _ in range(size - fork)], 9)
        loop.run_until_complete(ledger.update_headers(
            height=fork, headers=binascii.hexlify(b''.join(new[fork:])).decode(), subscription_update=True))
        stored = [hd._read(i) for i in range(len(hd))]
        row = loop.run_until_complete(db.get_transaction(txid=txid))
        run.count('history:reorg')
        if stored == new and row.is_verified and stored[row.height][36:68] != roots[t_h]:
            run.violation(dict(case, step=1, fork=fork, txid=txid),
                          f'database row still says (height {row.height}, verified) after a reorganisation from height {fork} '
                          f'replaced the header at {row.height}: its proof no longer leads to the header the wallet holds',
                          signature={'kind': 'history:row-verified-after-reorg'})
        elif stored != new:
            run.disagreement('C08.history: headers after the reorganisation', case, len(stored), len(new))
        return
    for step, (hh, merkle) in enumerate(plan):
        net.replies[txid] = (T.hex(), merkle)
        history = base_history + [(txid, hh)]
        net.history[address] = history
        status = _h.sha256(''.join(f'{t}:{x}:' for t, x in history).encode()).hexdigest()
        try:
            loop.run_until_complete(ledger.update_history(address, status))
        except Exception as e:
            run.disagreement('C08.history: update_history raised', dict(case, step=step), type(e).__name__, None)
            return
        row = loop.run_until_complete(db.get_transaction(txid=txid))
        where = dict(case, step=step, plan=[[x, m] for x, m in plan[:step + 1]], txid=txid)
        if row is None:
            run.violation(where, 'synced transaction has no row in the database', signature=sig)
            return
        run.count('history:sync')
        folds = 'merkle' in merkle and 0 < hh < size and ref_check(
            [bytes.fromhex(x)[::-1] for x in merkle['merkle']], merkle['pos'], H(row.raw), roots[hh])
        if row.is_verified and not (row.height == hh and folds):
            run.violation(where, f'database row says (height {row.height}, verified) after the server reported height {hh}: '
                                 + ('the wallet has no header for that height' if not 0 < row.height < size else
                                    'the proof does not lead to the Merkle root of the header at that height')
                                 + f' ({size} headers; earlier verdicts: {[x for x, _ in plan[:step]]})', signature=sig)
            return
        if row.height != hh:
            run.violation(where, f'database row keeps height {row.height}, the server reported {hh}', signature=sig)
            return
        if folds and not row.is_verified:
            run.violation(where, f'genuine proof at height {hh} synced, but the database row is not verified', signature=sig)
            return
        mops.append({'op': 'sync', 'key': txid, 'raw': T.hex(), 'height': hh,
                     'arg': {k: ([x.encode().hex() for x in v] if k == 'merkle' else v) for k, v in merkle.items()
                             if k in ('merkle', 'pos')}, 'net': {}})
        mod = model.call('db_run', headers=[x.hex() for x in hraws], ops=mops)
        got = [[txid, row.height, row.position, bool(row.is_verified)]]
        run.compare('C08.history: database row vs Model/C08_Db.v', where, got, mod['rows'])
    net.history[address] = base_history + [(txid, plan[-1][0])]


def dispatch_case(run, world, model, case):
    kind = case.get('kind', '')
    if kind == 'history':
        history_case(run, world, model, case)
    elif kind == 'chunk':
        chunk_case(run, world, model, case)
    elif kind == 'cache':
        cache_case(run, world, model, case)
    elif kind.startswith('restart:'):
        restart_case(run, world, model, case)
    elif kind.startswith('connect:'):
        connect_case(run, world, model, case)
    elif kind.startswith('show:'):
        show_case(run, world, model, case)
    elif kind.startswith('batch:'):
        replay_batch_entry(run, world, model, case)
    else:
        bad = check_expectation_against_block(case)
        if bad:
            run.disagreement('corpus/replay', case, bad, None)
        else:
            do_case(run, world, model, case)


def witness_cases(rng, thorough):
    """deterministic family: blocks that contain a WITNESS-serialised transaction whose script lengths / input
    and output counts sit on the compact-size boundaries; the genuine proof (leaf = hash of the legacy encoding)
    must be accepted; a changed flag / witness byte does not change the id; a changed committed byte does"""
    sizes = [0, 1, 75, 76, 252, 253, 254, 255, 256, 600] + ([65535, 65536] if thorough else [])
    shapes = [('in-script', n) for n in sizes] + [('out-script', n) for n in sizes] + \
             [('n-inputs', n) for n in (252, 253, 254)] + [('n-outputs', n) for n in (252, 253, 254)]
    for what, n in shapes:
        ins = [(rng.randbytes(32), rng.randrange(4), rng.randbytes(5), 0xffffffff)]
        outs = [(rng.randrange(1, 10 ** 12), b'\x76\xa9\x14' + rng.randbytes(20) + b'\x88\xac')]
        if what == 'in-script':
            ins = [(ins[0][0], ins[0][1], rng.randbytes(n), 0xfffffffe)]
        elif what == 'out-script':
            outs = [(outs[0][0], rng.randbytes(n))]
        elif what == 'n-inputs':
            ins = [(rng.randbytes(32), i % 7, b'', 0xffffffff) for i in range(n)]
        else:
            outs = [(i + 1, bytes([0x51])) for i in range(n)]
        fields = (rng.choice([1, 2]), ins, outs, rng.randrange(0, 500000))
        legacy = ser_tx(fields)
        wits = [[rng.randbytes(rng.choice([0, 1, 33, 72])) for _ in range(rng.randrange(0, 3))] for _ in ins]
        if not any(wits):
            wits[0] = [rng.randbytes(33)]
        flag = rng.choice([1, 1, 1, 2, 0x7f, 0xff])
        segwit = ser_tx(fields, flag, wits)
        nblock = rng.choice([1, 2, 3, 4])
        idx = rng.randrange(nblock)
        others = make_block(nblock, rng.randrange(10 ** 9))
        pres = [legacy if i == idx else others[i] for i in range(nblock)]
        levels = ref_levels([H(x) for x in pres])
        size = rng.randrange(3, 7)
        at = rng.randrange(1, size)
        roots = fresh_roots(rng, size, at, levels[-1][0])
        arg = {'block_height': at, 'merkle': text_elems(ref_branch(levels, idx)), 'pos': idx}
        base = {'n': nblock, 'idx': idx, 'roots': [r.hex() for r in roots], 'height': at, 'arg': arg, 'net': {},
                'shape': [what, n, flag]}
        yield dict(base, kind='witness:genuine', raw=segwit.hex(), expect='accept')
        yield dict(base, kind='witness:legacy-encoding', raw=legacy.hex(), expect='accept')
        # flag byte / a witness byte changed: same id (the header commits to txids only) -> still the same proof
        if any(len(x) for items in wits for x in items):
            j = len(segwit) - 5
            yield dict(base, kind='witness:witness-byte-changed', raw=(segwit[:j] + bytes([segwit[j] ^ 0x55]) + segwit[j + 1:]).hex(),
                       expect=None)
        yield dict(base, kind='witness:flag-changed', raw=(segwit[:5] + bytes([flag ^ 0x80 or 1]) + segwit[6:]).hex(), expect=None)
        # a committed byte changed (version, locktime): another id
        yield dict(base, kind='witness:committed-byte-changed', raw=(bytes([segwit[0] ^ 3]) + segwit[1:]).hex(), expect='reject')
        yield dict(base, kind='witness:committed-byte-changed', raw=(segwit[:-1] + bytes([segwit[-1] ^ 1])).hex(), expect='reject')


BAD_ELEMS = ['', 'a', 'zz', '0g', 'abc', ' ' * 64, '0x' + '11' * 31, '11' * 31, '11' * 33, '1' * 63, 'AB' * 32,
             'aB' * 32, '\n' + '11' * 32, '11' * 32 + '\n', '+1' * 32, '-1' * 32, '1_' * 32, '\x00' * 64]


def malformed_cases(rng, count):
    """dicts a server (or nobody) could send: missing keys, undecodable siblings, odd positions, re-verification"""
    for _ in range(count):
        n = rng.choice([1, 2, 3, 4, 5, 7, 8, 9, 16, 17])
        seed = rng.randrange(10 ** 6)
        raws = make_block(n, seed)
        leaves = [H(r) for r in raws]
        levels = ref_levels(leaves)
        idx = rng.randrange(n)
        branch = ref_branch(levels, idx)
        size = rng.randrange(2, 8)
        at = rng.randrange(1, size)
        roots = fresh_roots(rng, size, at, levels[-1][0])
        good = {'merkle': text_elems(branch), 'pos': idx}
        if rng.random() < 0.7:
            good['block_height'] = at
        d = json.loads(json.dumps(good))
        kind = rng.choice(['no-merkle', 'no-pos', 'empty', 'none', 'extra-keys', 'bad-elem', 'bytes-elems', 'upper',
                           'neg-pos', 'huge-pos', 'reverify-bad', 'reverify-good', 'net-bad', 'wide-elem',
                           'prior-unknown-height'])
        arg, net, prior, height, expect = d, {}, None, at, None
        if kind == 'no-merkle':
            del d['merkle']
            if rng.random() < 0.5:
                d['block_height'] = at
        elif kind == 'no-pos':
            del d['pos']
        elif kind == 'empty':
            arg, net = {}, rng.choice([good, {}, {'block_height': -1}, {'merkle': good['merkle']}])
        elif kind == 'none':
            arg, net = {'none': True}, rng.choice([good, {'pos': 0}, {'merkle': [], 'pos': 0}])
        elif kind == 'extra-keys':
            d['block_height'] = at
            expect = 'accept'
        elif kind == 'bad-elem':
            if not d['merkle']:
                d['merkle'] = [{'s': wire(leaves[idx])}]
            k = rng.randrange(len(d['merkle']))
            d['merkle'][k] = {'s': rng.choice(BAD_ELEMS)}
        elif kind == 'bytes-elems':
            d['merkle'] = [{'b': e['s'].encode().hex()} for e in d['merkle']]
            expect = 'accept'
        elif kind == 'upper':
            d['merkle'] = [{'s': e['s'].upper()} for e in d['merkle']]
            expect = 'accept'
        elif kind == 'neg-pos':
            d['pos'] = idx - (1 << rng.randrange(len(branch), len(branch) + 5))
            expect = 'reject'
        elif kind == 'huge-pos':
            d['pos'] = idx + (rng.randrange(1, 2 ** 64) << len(branch))
            expect = 'reject'
        elif kind == 'reverify-bad':
            prior = {'height': at, 'position': idx, 'verified': True}
            if d['merkle']:
                d['merkle'][0] = {'s': wire(rng.randbytes(32))}
            else:
                d['merkle'] = [{'s': wire(rng.randbytes(32))}]
            expect = 'reject'
        elif kind == 'reverify-good':
            prior = {'height': rng.randrange(-2, 9), 'position': rng.randrange(-1, 9), 'verified': rng.random() < 0.5}
            expect = 'accept'
        elif kind == 'net-bad':
            arg, net = rng.choice([{}, {'none': True}]), {'merkle': text_elems([rng.randbytes(32) for _ in branch]), 'pos': idx}
            if branch:
                expect = 'reject'
        elif kind == 'wide-elem':
            if not d['merkle']:
                d['merkle'] = [{'s': wire(leaves[idx])}]
            k = rng.randrange(len(d['merkle']))
            w = bytes.fromhex(d['merkle'][k]['s'])
            d['merkle'][k] = {'s': rng.choice([w[:-1], w + b'\x00', w[1:], b'\x00' + w, w + w]).hex()}
            expect = 'reject'
        elif kind == 'prior-unknown-height':
            prior = {'height': at, 'position': idx, 'verified': rng.random() < 0.5}
            height = rng.choice([0, -1, size, size + 3])
        yield {'kind': 'malformed:' + kind, 'n': n, 'block_seed': seed, 'idx': idx, 'raw': raws[idx].hex(),
               'roots': [r.hex() for r in roots], 'height': height, 'arg': arg, 'net': net, 'expect': expect,
               **({'prior': prior} if prior else {})}


# ------------------------------------------------------------------------------------------------
# tree construction / fold / hex: model against the reference and the real static method
# ------------------------------------------------------------------------------------------------
def tree_checks(run, model, n, seed, indices):
    raws = make_block(n, seed)
    leaves = [H(r) for r in raws]
    levels = ref_levels(leaves)
    case = {'kind': 'tree', 'n': n, 'block_seed': seed}
    run.case(case, nontrivial=n > 1)
    run.count('kind:tree')
    mroot = model.call('merkle_root', leaves=[x.hex() for x in leaves])
    run.compare('C08.merkle_root', case, levels[-1][0].hex(), mroot)
    for idx in indices:
        c2 = dict(case, kind='tree-branch', idx=idx)
        run.case(c2, nontrivial=n > 1)
        run.count('kind:tree-branch')
        branch = ref_branch(levels, idx)
        mp = model.call('proof', leaves=[x.hex() for x in leaves], idx=idx)
        run.compare('C08.branch', c2, {'branch': [b.hex() for b in branch], 'wire': [wire(b) for b in branch]}, mp)
        # the real static method on the genuine proof must give the header form of the root
        impl = Ledger.get_root_of_merkle_tree([wire(b) for b in branch], idx, leaves[idx])
        if impl != binascii.hexlify(levels[-1][0][::-1]):
            run.violation(c2, 'get_root_of_merkle_tree does not reproduce the block root from the genuine branch',
                          signature={'kind': 'tree-branch', 'n': n, 'idx': idx, 'block_seed': seed})


def static_fold_checks(run, model, rng, count):
    """get_root_of_merkle_tree called directly, under the real hash and under a weak one (the code's fold must
    be the same function of whatever double_sha256 is), plus explicit collisions exhibited by the model"""
    orig = ledger_mod.double_sha256
    for i in range(count):
        L = rng.randrange(0, 9)
        elems = []
        for _ in range(L):
            w = rng.randbytes(32)
            c = rng.random()
            if c < 0.75:
                elems.append(wire(w))
            elif c < 0.85:
                elems.append(wire(w).upper())
            elif c < 0.92:
                elems.append(wire(rng.randbytes(rng.randrange(0, 40))))
            else:
                elems.append(rng.choice(BAD_ELEMS))
        pos = rng.choice([rng.randrange(0, 1 << (L + 2)), -rng.randrange(1, 1 << (L + 2)), rng.randrange(2 ** 70)])
        leaf = rng.randbytes(rng.choice([32, 32, 32, 0, 31, 64]))
        hname = 'weak' if i % 3 == 0 else 'dsha'
        case = {'kind': 'static-fold:' + hname, 'branches': elems, 'pos': pos, 'leaf': leaf.hex()}
        run.case(case, nontrivial=L > 0)
        run.count('kind:static-fold:' + hname)
        ledger_mod.double_sha256 = weak_hash if hname == 'weak' else orig
        try:
            try:
                impl = Ledger.get_root_of_merkle_tree(elems, pos, leaf).decode()
            except binascii.Error:
                impl = None
        finally:
            ledger_mod.double_sha256 = orig
        dec = [strict_unhex(e) for e in elems]
        if all(d is not None for d in dec):
            want = wire(ref_path([d[::-1] for d in dec], pos, leaf, weak_hash if hname == 'weak' else H)[-1])
        else:
            want = None
        if impl != want:
            run.violation(case, f'get_root_of_merkle_tree gave {impl}, a textbook fold gives {want}',
                          signature={'kind': case['kind'], 'branches': elems, 'pos': pos})
            continue
        mod = model.call('get_root', hash=hname, branches=[e.encode('ascii').hex() for e in elems], pos=pos,
                         working=leaf.hex())
        run.compare('C08.get_root_of_merkle_tree', case, impl, mod)


def collision_demo(run, model, rng, count):
    """binding theorem at run time: under the weak hash, different proofs that the REAL fold maps to the same root
    make the model's [collision] return two different 64-byte inputs with the same hash"""
    orig = ledger_mod.double_sha256
    found = 0
    for _ in range(count):
        L = rng.randrange(1, 5)
        pos = rng.randrange(0, 1 << L)
        proofs = {}
        for _ in range(48):
            br = [rng.randbytes(32) for _ in range(L)]
            leaf = rng.randbytes(32)
            ledger_mod.double_sha256 = weak_hash
            try:
                root = Ledger.get_root_of_merkle_tree([wire(b) for b in br], pos, leaf)
            finally:
                ledger_mod.double_sha256 = orig
            if root in proofs:
                br0, leaf0 = proofs[root]
                case = {'kind': 'collision-demo', 'pos': pos, 'br1': [b.hex() for b in br0], 'br2': [b.hex() for b in br],
                        'w1': leaf0.hex(), 'w2': leaf.hex()}
                run.case(case, nontrivial=True)
                run.count('kind:collision-demo')
                got = model.call('collision', hash='weak', br1=case['br1'], br2=case['br2'], p1=pos, p2=pos + (1 << L),
                                 w1=case['w1'], w2=case['w2'])
                ok = (got is not None and got[0] != got[1] and len(got[0]) == 128 and len(got[1]) == 128
                      and weak_hash(bytes.fromhex(got[0])) == weak_hash(bytes.fromhex(got[1])))
                run.compare('C08.collision-is-explicit', case, True, ok)
                found += 1
                break
            proofs[root] = (br, leaf)
    run.count('collision-demo-found', found)


# ------------------------------------------------------------------------------------------------
# legacy claim-trie proof checker (lbry/wallet/claim_proofs.py): correspondence only, no theorem
# ------------------------------------------------------------------------------------------------
def ref_verify_claim_proof(proof, root_hash, name):
    """independent re-statement of what verify_proof accepts; returns True or the string 'invalid'"""
    prev = None
    rname = []
    verified_value = False
    nodes = proof['nodes'][::-1]
    for i, node in enumerate(nodes):
        buf = b''
        found = False
        last = None
        for child in node['children']:
            ch = child['character']
            if not 0 <= ch <= 255:
                return 'invalid'
            if last and last >= ch:         # (sic) a previous character 0 is not compared, as in the original
                return 'invalid'
            last = ch
            buf += bytes([ch])
            if 'nodeHash' in child:
                if len(child['nodeHash']) != 64:
                    return 'invalid'
                buf += bytes.fromhex(child['nodeHash'])[::-1]
            else:
                if prev is None or found:
                    return 'invalid'
                found = True
                rname.append(chr(ch))
                buf += prev
        if not found and i != 0:
            return 'invalid'
        if i == 0 and 'txhash' in proof and 'nOut' in proof and 'last takeover height' in proof:
            if len(proof['txhash']) != 64 or not isinstance(proof['nOut'], int) \
                    or not isinstance(proof['last takeover height'], int):
                return 'invalid'
            buf += H(H(bytes.fromhex(proof['txhash'])[::-1]) + H(str(proof['nOut']).encode())
                     + H(struct.pack('>Q', proof['last takeover height'])))
            verified_value = True
        elif 'valueHash' in node:
            if len(node['valueHash']) != 64:
                return 'invalid'
            buf += bytes.fromhex(node['valueHash'])[::-1]
        prev = H(buf)
    if prev != bytes.fromhex(root_hash)[::-1]:
        return 'invalid'
    if 'txhash' in proof and 'nOut' in proof and not verified_value:
        return 'invalid'
    target = ''.join(rname[::-1]).encode('ISO-8859-1').decode()
    if 'txhash' in proof and 'nOut' in proof and name != target:
        return 'invalid'
    if not name.startswith(target):
        return 'invalid'
    return True


def make_trie_proof(rng, name, with_value=True, order='asc'):
    """a claim trie path for `name` (characters = its UTF-8 bytes) with random siblings, built bottom-up;
    returns (proof, root_hex)"""
    chars = list(name.encode('utf-8'))
    txhash, nout, takeover = rng.randbytes(32), rng.randrange(0, 5), rng.randrange(0, 10 ** 6)
    nodes = []
    # leaf node (deepest): optional children below it, carries the value
    prev = None
    for depth in range(len(chars), -1, -1):
        children = []
        used = set()
        if depth < len(chars):
            used.add(chars[depth])
        for _ in range(rng.randrange(0, 3)):
            c = rng.randrange(0, 256)
            if c not in used:
                used.add(c)
        buf = b''
        seq = sorted(used)
        if order == 'desc':
            seq = seq[::-1]
        elif order == 'dup' and depth == len(chars):
            c0 = rng.choice([0, 0, rng.randrange(1, 256)])      # a repeated 0 is not noticed by the original
            seq = sorted(set(seq) | {c0})
            seq.insert(seq.index(c0), c0)
        for c in seq:
            if depth < len(chars) and c == chars[depth]:
                children.append({'character': c})
                buf += bytes([c]) + prev
            else:
                hh = rng.randbytes(32)
                children.append({'character': c, 'nodeHash': wire(hh)})
                buf += bytes([c]) + hh
        node = {'children': children}
        if depth == len(chars):
            if with_value:
                buf += H(H(txhash) + H(str(nout).encode()) + H(struct.pack('>Q', takeover)))
        elif rng.random() < 0.3:
            vh = rng.randbytes(32)
            node['valueHash'] = wire(vh)
            buf += vh
        prev = H(buf)
        nodes.append(node)
    proof = {'nodes': nodes[::-1]}
    if with_value:
        proof.update({'txhash': wire(txhash), 'nOut': nout, 'last takeover height': takeover})
    return proof, wire(prev)


def claim_proof_checks(run, model, rng, count):
    for _ in range(count):
        name = ''.join(rng.choice('abcdefghijklmnopqrstuvwxyz0123456789-' * 3 + '\u00e9\u00fc\u65e5\u0416')
                       for _ in range(rng.randrange(0, 6)))
        order = rng.choice(['asc'] * 8 + ['desc', 'dup'])
        proof, root = make_trie_proof(rng, name, with_value=rng.random() < 0.8, order=order)
        ask = name
        m = rng.random()
        mutation = 'genuine' if order == 'asc' else 'consistent-' + order
        if m < 0.5 and order == 'asc':
            mutation = rng.choice(['root', 'sibling', 'name', 'longer-name', 'txhash', 'nout', 'takeover', 'drop-node',
                                   'reorder', 'char', 'drop-value-keys', 'bad-len'])
            p = json.loads(json.dumps(proof))
            if mutation == 'root':
                root = wire(rng.randbytes(32))
            elif mutation == 'sibling':
                cands = [(i, j) for i, nd in enumerate(p['nodes']) for j, c in enumerate(nd['children']) if 'nodeHash' in c]
                if cands:
                    i, j = rng.choice(cands)
                    p['nodes'][i]['children'][j]['nodeHash'] = wire(rng.randbytes(32))
            elif mutation == 'name':
                ask = name[:-1] + chr(rng.randrange(33, 127)) if name else 'x'
            elif mutation == 'longer-name':
                ask = name + chr(rng.randrange(97, 123))
            elif mutation == 'txhash' and 'txhash' in p:
                p['txhash'] = wire(rng.randbytes(32))
            elif mutation == 'nout' and 'nOut' in p:
                p['nOut'] += 1
            elif mutation == 'takeover' and 'txhash' in p:
                p['last takeover height'] += 1
            elif mutation == 'drop-node' and len(p['nodes']) > 1:
                del p['nodes'][rng.randrange(len(p['nodes']))]
            elif mutation == 'reorder':
                for nd in p['nodes']:
                    if len(nd['children']) > 1:
                        nd['children'].reverse()
                        break
            elif mutation == 'char':
                cands = [(i, j) for i, nd in enumerate(p['nodes']) for j, c in enumerate(nd['children'])]
                if cands:
                    i, j = rng.choice(cands)
                    p['nodes'][i]['children'][j]['character'] = rng.choice([-1, 256, rng.randrange(0, 256)])
            elif mutation == 'drop-value-keys' and 'txhash' in p:
                del p[rng.choice(['txhash', 'nOut', 'last takeover height'])]
            elif mutation == 'bad-len':
                cands = [(i, j) for i, nd in enumerate(p['nodes']) for j, c in enumerate(nd['children']) if 'nodeHash' in c]
                if cands:
                    i, j = rng.choice(cands)
                    p['nodes'][i]['children'][j]['nodeHash'] = p['nodes'][i]['children'][j]['nodeHash'][:-2]
            proof = p
        case = {'kind': 'legacy-claim-proof', 'mutation': mutation, 'proof': proof, 'root': root, 'name': ask}
        run.case(case, nontrivial=True)
        run.count('kind:legacy-claim-proof:' + mutation)
        try:
            impl = claim_proofs.verify_proof(proof, root, ask)
        except claim_proofs.InvalidProofError:
            impl = 'invalid'
        except Exception as e:
            impl = type(e).__name__
        try:
            want = ref_verify_claim_proof(proof, root, ask)
        except Exception as e:
            want = type(e).__name__
        if mutation == 'genuine' and impl is not True:
            run.violation(case, 'legacy verify_proof rejects a genuine claim-trie proof',
                          signature={'kind': 'legacy-claim-proof', 'name': ask, 'root': root})
            continue
        if not run.compare('C08.legacy.verify_proof vs harness checker (no theorem)', case, impl, want):
            continue
        # the Gallina model of verify_proof (Model/C08_Claim.v), ASCII names only
        mod = model.call('claim_verify', proof=proof, root=root, name=ask.encode('utf-8').hex())
        impl_c = impl if impl in (True, 'invalid') else 'other'
        chain = [c['character'] for nd in proof['nodes'] for c in nd['children'] if 'nodeHash' not in c]
        if mod == 'other' and impl_c != 'other' and any(isinstance(c, int) and c >= 128 for c in chain):
            run.count('legacy-outside-model(non-ascii name)')
        else:
            run.compare('C08.legacy.verify_proof vs Gallina model (no theorem)', case, impl_c, mod)


# ------------------------------------------------------------------------------------------------
def load_corpus():
    out = []
    if os.path.isdir(CORPUS):
        for nm in sorted(os.listdir(CORPUS)):
            if nm.endswith('.json'):
                body = json.load(open(os.path.join(CORPUS, nm)))
                out.extend(body if isinstance(body, list) else [body])
    return out


# source text of the modelled functions when the model was written; a difference is reported as a NOTE in the
# evidence (never as a violation: behaviour is what the correspondence checks)
PINNED_SOURCE = {'Ledger.get_root_of_merkle_tree': '2edc16d57f948639', 'Ledger.maybe_verify_transaction': 'efd465519715b481',
                 'Headers.deserialize': '8c109767011b2873'}


def source_fingerprints():
    import inspect
    out = {}
    for f in (Ledger.get_root_of_merkle_tree, Ledger.maybe_verify_transaction, Headers.deserialize):
        try:
            out[f.__qualname__] = hashlib.sha256(inspect.getsource(f).encode()).hexdigest()[:16]
        except Exception as e:
            out[f.__qualname__] = type(e).__name__
    return out


def oracles():
    return {'dsha': H, 'weak': weak_hash}


def main(run):
    rng = run.rng
    thorough = run.tier == 'thorough'
    model = vlib.Model('C08', oracles=oracles())
    world = World()
    run.rule = (
        'blocks of n = 1..64 hand-serialised transactions (seeded), placed at a random height of a 3..9 header chain '
        'stored through Headers.connect(); quick: every n, indices {0, 1, n-2, n-1, two random}; thorough: every n and '
        'EVERY index (exhaustive over sizes, indices and mutation sites; mutation values random) plus blocks of '
        '65..2100 transactions. Per (n, idx): the genuine proof, one byte flip in each branch element, a swap, each '
        'position bit below the branch length (duplicated-last-node levels expected to stay accepted), one bit above, '
        'another index, branch length +1/-1 at both ends, a byte of the transaction, another transaction of the block, '
        'a byte of the root stored in the header (byte 0 or 31 and a random one), '
        'heights {0,-1,h-1,h+1,len-1,len,len+1,2^31,-2^40,random}. Dicts are in the server format: 85% carry '
        '\'block_height\' naming the block the proof was built for; extra classes: recorded height differs from the '
        'named block (direct and via get_merkle) -> must not verify; dict claims another / unknown block at the right '
        'height -> still verified. Boundary heights 1 and len-1; same root under two '
        'heights. Malformed stream: missing keys, falsy dict (network fetch), undecodable / upper-case / bytes / '
        'over- and under-long siblings, negative and 2^64-scale positions, re-verification of an already verified tx. '
        'Ledger._single_batch (the real call site, fresh Transaction objects) on batches of 1..8 transactions with '
        'genuine and wrong proofs mixed, incl. replies whose raw bytes are not the requested transaction (one byte '
        'altered, key and proof genuine); header stores built by the real VALIDATING Headers.connect (easy max_target, '
        'proof of work, bits, links) from a valid base plus one message [valid*k, invalid(prev|bits|pow), ...] with k '
        'mostly in the first half, proofs offered at the prefix, the invalid header and behind it; restart: a validated header FILE gets one header\'s merkle root replaced by a forged block\'s root plus a '
        'half-written tail, is re-opened (repair) and the forged proof offered; witness family (deterministic): blocks containing a witness-serialised transaction with script lengths 0,1,75,76,'
        '252..256,600 (thorough: 65535, 65536) and 252/253/254 inputs or outputs, genuine proof, flag / witness / committed '
        'byte changed; history scripts: the real Ledger.update_history for a transaction paying the wallet, the server reporting it '
        'first at its true height with the genuine proof and then at a height without header / another in-range height / '
        'in the mempool / with a wrong branch / back, the row read back through Database.get_transaction after every '
        'sync and compared with Model/C08_Db.v; cache scripts also restart the wallet on a real header FILE around an '
        'equal-length replacement delivered like a header notification; chunk scripts: 1-2 custom checkpoints with every chunk missing, a chunk getter that serves a forged chunk (whole, '
        'or differing in one header) or the honest one, 2-3 attempts with the forged proof (the retries), honest answer, '
        'further attempts, compared with Model/C08_Chunk.v; cache scripts: server chain / wallet sync '
        '(real update_headers) / request_transactions(cached=True) with a transaction above the wallet tip and a '
        'reorganisation whose lowest replaced height is mostly the height of a cached verified transaction, compared '
        'with the state machine Model/C08_Cache.v; WalletManager.get_transaction (second call site) incl. block_height <= 0. get_root_of_merkle_tree directly under SHA-256d and under a weak hash; explicit collisions from the model; '
        'legacy claim_proofs.verify_proof on generated trie paths and 12 mutations (correspondence only). '
        'distinct = distinct case JSON; non-trivial = a proof was evaluated or an error branch taken.')
    try:
        for case in load_corpus():
            dispatch_case(run, world, model, case)
            run.count('corpus')
        sizes = list(range(1, 65))
        for n in sizes:
            seed = rng.randrange(10 ** 9)
            if thorough:
                indices = list(range(n))
            else:
                indices = sorted({0, min(1, n - 1), max(0, n - 2), n - 1, rng.randrange(n), rng.randrange(n)})
            tree_checks(run, model, n, seed, indices)
            for case in block_cases(rng, n, seed, indices, thorough):
                do_case(run, world, model, case)
        big = [65, 127, 128, 129, 255, 257, 1000, 2100] if thorough else [65, 129, 1000]
        for n in big:
            seed = rng.randrange(10 ** 9)
            indices = sorted({0, n - 1, n - 2, rng.randrange(n), rng.randrange(n)})
            tree_checks(run, model, n, seed, indices)
            for case in block_cases(rng, n, seed, indices, thorough):
                do_case(run, world, model, case)
        for _ in range(vlib.scaled(run.tier, 150, 4000)):
            batch_checks(run, world, model, rng, rng.choice([1, 2, 3, 5, 6, 7, 8, 11, 16, 21, 33, 64]), rng.randrange(10 ** 9))
        for _ in range(vlib.scaled(run.tier, 40, 1000)):
            for case in show_cases(rng, rng.choice([1, 2, 3, 5, 7, 8, 13, 32, 64]), rng.randrange(10 ** 9)):
                show_case(run, world, model, case)
        for _ in range(vlib.scaled(run.tier, 150, 3000)):
            for case in connect_cases(rng, thorough):
                connect_case(run, world, model, case)
        for _ in range(vlib.scaled(run.tier, 60, 1500)):
            for case in restart_cases(rng, thorough):
                restart_case(run, world, model, case)
        for i in range(vlib.scaled(run.tier, 60, 1500)):
            history_case(run, world, model, dict({'kind': 'history', 'scenario_seed': rng.randrange(10 ** 9)},
                                                 **({'reorg': True} if i % 6 == 5 else {})))
        for i in range(vlib.scaled(run.tier, 36, 700)):
            chunk_case(run, world, model, {'kind': 'chunk', 'scenario_seed': rng.randrange(10 ** 9), 'disk': i % 2 == 1})
        for _ in range(vlib.scaled(run.tier, 120, 3000)):
            cache_case(run, world, model, {'kind': 'cache', 'scenario_seed': rng.randrange(10 ** 9)})
        for case in witness_cases(rng, thorough):
            do_case(run, world, model, case)
        for case in malformed_cases(rng, vlib.scaled(run.tier, 1500, 30000)):
            do_case(run, world, model, case)
        static_fold_checks(run, model, rng, vlib.scaled(run.tier, 1500, 30000))
        collision_demo(run, model, rng, vlib.scaled(run.tier, 30, 400))
        claim_proof_checks(run, model, rng, vlib.scaled(run.tier, 1500, 40000))
        run.exhaustive = thorough
        run.partial = ['C08_length_mutation_partial: branch length +-1 is only characterised (a hash input containing '
                       'its own hash), not reduced to a collision; rejection of these mutants is checked by the '
                       'monitor on every (n, idx)']
        run.supporting = {
            'legacy claim_proofs.verify_proof': 'correspondence only, no theorem: the real function against a checker '
                                                'written in the harness and against the extracted Gallina model '
                                                'Model/C08_Claim.v (ASCII names; non-ASCII names only against the '
                                                'harness checker)',
            'weak-hash runs': 'get_root_of_merkle_tree with ledger.double_sha256 replaced in memory by an 8-bit '
                              'hash, to tie the fold for a second hash function and to exhibit explicit collisions',
        }
        run.notes.append({'reading': 'a position-bit flip below the branch length is required to fail EXCEPT when '
                                     'the sibling at that level equals the running hash (duplicated last node, e.g. '
                                     'n=3, idx=2, bit 0: position 3 is accepted and recorded); such flips are counted '
                                     'under kind:mut:pos-bit-dup-sibling'})
        fp = source_fingerprints()
        run.notes.append({'source_text_changed_since_model_was_written (warning only)':
                          sorted(k for k in PINNED_SOURCE if fp.get(k) != PINNED_SOURCE[k]), 'fingerprints': fp})
        run.notes.append({'model_calls': model.calls, 'oracle_calls': model.oracle_calls})
    finally:
        model.close()
        world.close()


def replay(run, case):
    model = vlib.Model('C08', oracles=oracles())
    world = World()
    try:
        if 'traceback' in case:
            run.disagreement('harness-crash', case, None, None)
        elif case.get('kind', '').startswith(('show:', 'batch:', 'connect:', 'restart:', 'cache', 'chunk', 'history')):
            dispatch_case(run, world, model, case)
        elif case.get('kind', '').startswith(('tree', 'static-fold', 'collision-demo', 'legacy', 'batch')):
            run.notes.append('replay of tree/static/legacy cases: rerun the tier with the same VERIF_SEED')
            main(run)
        else:
            bad = check_expectation_against_block(case)
            if bad:
                run.disagreement('replay', case, bad, None)
            else:
                do_case(run, world, model, case)
    finally:
        model.close()
        world.close()
