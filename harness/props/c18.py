"""C18  Blob bookkeeping matches the disk after any restart.

Correspondence of Model/C18.v (step / restart over disk, blob table, completed set) with the real
BlobManager + SQLiteStorage + BlobFile + StreamDescriptor.create_stream running in temp directories, on
generated histories of completions, unfinished downloads, publishes, API deletions, stream deletions, files
added / overwritten / removed behind the daemon's back, forced table rows, process deaths between a file write
and its database write (whole file, partial file, mid-publish; simulated in-process, and as a genuine SIGKILL of a
child process running the real code), restarts in three modes and with config.save_blobs on or off.

Monitor (independent of the model): at every restart the property's clauses are evaluated on what the
implementation left on disk (os.listdir / os.path.isfile), in the table (own sqlite3 connection), in
completed_blob_hashes and in the DHT announcer's work list (SQLiteStorage.get_blobs_to_announce() under both
settings of announce_head_and_sd_only): whatever is reported or announced must have its file.
"""
import asyncio
import errno
import hashlib
import json
import os
import re
import shutil
import signal
import sqlite3
import subprocess
import sys
import tempfile

import lbry.wallet  # noqa: F401  (import order)
from lbry.conf import Config
from lbry.extras.daemon.storage import SQLiteStorage
from lbry.blob.blob_manager import BlobManager
from lbry.blob.blob_file import is_valid_blobhash, BlobFile
from lbry.error import InvalidBlobHashError
from lbry.stream.descriptor import StreamDescriptor
from lbry.stream.stream_manager import StreamManager
from lbry.schema.claim import Claim
import lbry.stream.descriptor as descriptor_module

from cryptography.hazmat.primitives.ciphers import Cipher, modes
from cryptography.hazmat.primitives.ciphers.algorithms import AES
from cryptography.hazmat.primitives.padding import PKCS7
from cryptography.hazmat.backends import default_backend

import vlib

CORPUS = '/verif/harness/corpus/C18'
STRICT_HASH = re.compile(r'[0-9a-f]{96}')       # the monitor's own notion of "a blob hash"
REAL_MAX = 2 * 2 ** 20


def hx(name):
    return name.encode('utf-8').hex()


# ------------------------------------------------------------------------------------------------
# independent computation of what a publish must produce (hashlib + cryptography, never lbry wrappers)
# ------------------------------------------------------------------------------------------------

def expected_publish(file_name, key, ivs, content, chunk):
    """-> ([(hash, length)] of the content blobs, (sd_hash, sd_length))"""
    step = chunk - 1
    chunks = [content[i:i + step] for i in range(0, len(content), step)]
    infos, out = [], []
    for i, c in enumerate(chunks):
        padder = PKCS7(128).padder()
        enc = Cipher(AES(key), modes.CBC(ivs[i]), backend=default_backend()).encryptor()
        data = enc.update(padder.update(c) + padder.finalize()) + enc.finalize()
        h = hashlib.sha384(data).hexdigest()
        infos.append({'length': len(data), 'blob_num': i, 'iv': ivs[i].hex(), 'blob_hash': h})
        out.append((h, len(data)))
    infos.append({'length': 0, 'blob_num': len(chunks), 'iv': ivs[len(chunks)].hex()})
    hexname = file_name.encode().hex()
    sh = hashlib.sha384()
    sh.update(hexname.encode())
    sh.update(key.hex().encode())
    sh.update(hexname.encode())
    bs = hashlib.sha384()
    for b in infos:
        one = hashlib.sha384()
        if b['length'] != 0:
            one.update(b['blob_hash'].encode())
        one.update(str(b['blob_num']).encode())
        one.update(b['iv'].encode())
        one.update(str(b['length']).encode())
        bs.update(one.digest())
    sh.update(bs.digest())
    sd = json.dumps({"stream_type": "lbryfile", "stream_name": hexname, "key": key.hex(),
                     "suggested_file_name": hexname, "stream_hash": sh.hexdigest(), "blobs": infos},
                    sort_keys=True).encode()
    return out, (hashlib.sha384(sd).hexdigest(), len(sd))


# ------------------------------------------------------------------------------------------------
# the implementation side: one blob directory + database, restarted at will
# ------------------------------------------------------------------------------------------------

class Die(Exception):
    pass


class StartFailed(Exception):
    pass


class World:
    def __init__(self, loop, root=None):
        self.loop = loop
        self.root = root or tempfile.mkdtemp(prefix='c18_')
        self.blob_dir = os.path.join(self.root, 'blobfiles')
        self.src_dir = os.path.join(self.root, 'src')
        os.makedirs(self.blob_dir, exist_ok=True)
        os.makedirs(self.src_dir, exist_ok=True)
        self.vol_dir = os.path.join(self.root, 'other_volume')      # where relocated blobs live (symlink targets)
        os.makedirs(self.vol_dir, exist_ok=True)
        self.db_path = os.path.join(self.root, 'lbrynet.sqlite')
        self.conf = Config(data_dir=self.root, wallet_dir=self.root, download_dir=self.root,
                           config=os.path.join(self.root, 'settings.yml'))
        self.conf.track_bandwidth = False          # no background bandwidth task (unrelated to the property)
        self.conf.reflect_streams = False          # no reflector uploads (network)
        self.conf.concurrent_blob_announcers = 100000   # get_blobs_to_announce limits to 10x this: never truncate
        self.storage = None
        self.bm = None
        self.dead = False
        self.descriptors = {}                      # sd_hash -> StreamDescriptor (python data kept by the harness)
        self.stop_errors = []
        self.managed = []                          # sd hashes of the managed streams published in this world
        self.daemon_flags = []                     # per daemon start: sd_hash -> "its file is not JSON"

    # -- lifecycle --------------------------------------------------------------------------------
    async def boot(self):
        self.storage = SQLiteStorage(self.conf, self.db_path, loop=self.loop)
        await self.storage.open()
        self.bm = BlobManager(self.loop, self.blob_dir, self.storage, self.conf)
        # the real stream (file) manager on top, without wallet, DHT node or analytics
        self.sm = StreamManager(self.loop, self.conf, self.bm, None, self.storage, None)
        self.dead = False

    async def stream_manager_start(self):
        """the second half of a daemon start: what FileManager.start() runs for streams"""
        await self.sm.initialize_from_database()
        await self.drain()

    async def stream_manager_stop(self):
        if getattr(self, 'sm', None) is not None:
            try:
                await self.sm.stop()
            except Exception:
                pass

    def forget_bandwidth_task(self):
        """the process is gone (or the manager abandoned): its endless bandwidth loop goes with it"""
        t = getattr(getattr(self.bm, 'connection_manager', None), '_task', None)
        if t is not None and not t.done():
            t.cancel()

    def stop_blob_manager(self, connected=False):
        """BlobManager.stop() as a component shutdown calls it; an exception it raises is what the daemon would log
        and carry on from (the monitor judges the state the next start leaves)"""
        if connected:
            # a blob-exchange client connection that is still registered when the manager stops
            # (BlobExchangeClientProtocol.connection_made -> connection_manager.connection_made)
            self.bm.connection_manager.connection_made('10.0.0.1:3333')
            self.bm.connection_manager.connection_received('10.0.0.2:4444')
        try:
            self.bm.stop()
        except Exception as e:
            self.stop_errors.append('%s: %s' % (type(e).__name__, e))

    async def drain(self):
        me = asyncio.current_task()
        quiet = 0
        for _ in range(10000):
            bw = getattr(getattr(self.bm, 'connection_manager', None), '_task', None)   # endless bandwidth loop
            pend = [t for t in asyncio.all_tasks() if t is not me and t is not bw and not t.done()]
            if pend:
                quiet = 0
                await asyncio.wait(pend, timeout=20)
            else:
                quiet += 1
                if quiet >= 3:
                    return
            await asyncio.sleep(0)
        raise RuntimeError('drain did not settle')

    async def kill(self):
        """process death: nothing is stopped gracefully; the sqlite handle is released"""
        await self.drain()
        self.forget_bandwidth_task()
        if self.storage is not None:
            await self.storage.close()
        self.storage = None
        self.bm = None
        self.sm = None
        self.dead = True

    async def restart(self, mode, save=None, inflight=False, daemon=False, connected=False):
        """daemon: a whole daemon start -- BlobManager.setup() and then the stream manager's start-up"""
        self._connected_at_stop = connected
        await self._restart(mode, save, inflight)
        if daemon:
            await self.stream_manager_start()

    async def _restart(self, mode, save=None, inflight=False):
        if save is not None:
            self.conf.save_blobs = save            # the setting the next process lifetime runs with
        if self.bm is not None and not inflight and mode != 'new':
            await self.drain()
            await self.stream_manager_stop()
        if self.bm is not None and inflight:
            # in-process restart with database writes still queued: no yield to the loop before setup()
            self.stop_blob_manager()
            await self.bm.setup()
            await self.drain()
            return
        if self.bm is not None and mode == 'stop_same':
            # Component stop/start on the same objects: stop() then setup()
            await self.drain()
            self.stop_blob_manager(connected=getattr(self, '_connected_at_stop', False))
            await self.bm.setup()
            await self.drain()
            return
        if self.bm is not None:
            await self.drain()
            if mode == 'stop_new':
                self.stop_blob_manager(connected=getattr(self, '_connected_at_stop', False))
            self.forget_bandwidth_task()
            await self.storage.close()
        await self.boot()
        await self.bm.setup()
        await self.drain()

    async def close(self):
        try:
            if self.storage is not None:
                await self.drain()
                await self.stream_manager_stop()
                if self.bm is not None:
                    self.stop_blob_manager()
                    self.forget_bandwidth_task()
                await self.storage.close()
        finally:
            shutil.rmtree(self.root, ignore_errors=True)

    # -- observation (never through lbry) ----------------------------------------------------------
    def listing(self):
        out = []
        for nm in os.listdir(self.blob_dir):
            if nm.endswith('.tmp'):
                continue          # scratch files of BlobFile._write_blob: never blob names, not part of the model
            p = os.path.join(self.blob_dir, nm)
            if os.path.isdir(p):
                out.append([hx(nm), 'd', 0])
            elif os.path.islink(p) and not os.path.exists(p):
                try:
                    os.stat(p)
                    kind = 'l'
                except OSError as e:
                    kind = 'o' if e.errno == errno.ELOOP else 'l'    # symlink loop / dangling symlink
                out.append([hx(nm), kind, 0])
            else:
                out.append([hx(nm), 'f', os.path.getsize(p)])    # regular file or symlink to one (size of the target)
        return sorted(out)

    def rows(self):
        if not os.path.exists(self.db_path):
            return []
        con = sqlite3.connect(self.db_path, timeout=30)
        try:
            try:
                return sorted([hx(h), st] for h, st in con.execute('select blob_hash, status from blob'))
            except sqlite3.OperationalError:
                return []
        finally:
            con.close()

    def lengths(self):
        """blob_hash -> blob_length, read independently (monitor only; the model does not carry lengths)"""
        if not os.path.exists(self.db_path):
            return {}
        con = sqlite3.connect(self.db_path, timeout=30)
        try:
            try:
                return {hx(h): ln for h, ln in con.execute('select blob_hash, blob_length from blob')}
            except sqlite3.OperationalError:
                return {}
        finally:
            con.close()

    async def announce_lists(self):
        """what the announcer would be handed right now, under both settings (a dead process announces nothing)"""
        if self.storage is None:
            return [], []
        saved = self.conf.announce_head_and_sd_only
        try:
            self.conf.announce_head_and_sd_only = False
            everything = sorted(hx(h) for h in await self.storage.get_blobs_to_announce())
            self.conf.announce_head_and_sd_only = True
            head = sorted(hx(h) for h in await self.storage.get_blobs_to_announce())
        finally:
            self.conf.announce_head_and_sd_only = saved
        return everything, head

    async def observe(self):
        everything, head = await self.announce_lists()
        return {'disk': self.listing(), 'db': self.rows(),
                'completed': sorted(hx(h) for h in self.bm.completed_blob_hashes) if self.bm is not None else [],
                'alive': not self.dead, 'announce_all': everything, 'announce_head': head}

    # -- operations ------------------------------------------------------------------------------------
    def _begin_download(self, h, length):
        """BlobDownloader.download_blob / BlobExchangeClientProtocol.download_blob up to the writer"""
        try:
            blob = self.bm.get_blob(h, length)
        except InvalidBlobHashError:
            return None, 'invalid'
        if blob.get_is_verified():
            return blob, 'have'
        if not blob.is_writeable():
            return blob, 'busy'
        return blob, None

    async def complete(self, h, length, data, inflight=False):
        """inflight: return as soon as the blob is verified -- the file is written and blob_completed() has created
        the storage.add_blobs task, which has not started yet (the caller must not yield before what it wants to
        interleave)"""
        blob, early = self._begin_download(h, length)
        if early:
            return early
        writer = blob.get_blob_writer('10.0.0.1', 3333)
        blob.set_length(length)                        # handle_data_received: set_length(blob_response.length)
        try:
            writer.write(data)
        except OSError:
            writer.close_handle()
            return 'nolength'
        if inflight:
            try:
                await asyncio.wait_for(blob.verified.wait(), 3)
            except asyncio.TimeoutError:
                return 'failed'
            return 'done'
        await self.drain()
        # since 82794e2 a write that could not be stored (a directory sits at the blob's path) leaves the blob unverified
        return 'done' if blob.get_is_verified() else 'failed'

    async def touch(self, h, length):
        blob, early = self._begin_download(h, length)
        if early == 'invalid':
            return 'invalid'
        return 'have' if blob.get_is_verified() else 'done'

    async def crash_write(self, h, length, written, data, real_kill=False):
        blob, early = self._begin_download(h, length)
        if early:
            return early
        if real_kill:
            # child process only: the file is written by the real code, then the process is SIGKILLed at the
            # moment blob_completed asks the storage to record it
            def killer(*a, **k):
                os.kill(os.getpid(), signal.SIGKILL)
            self.storage.add_blobs = killer
            writer = blob.get_blob_writer('10.0.0.1', 3333)
            blob.set_length(length)
            writer.write(data)
            await self.drain()
            raise RuntimeError('the process should be dead')
        if written == length:
            # the real write path; the database write never happens because the process dies first
            async def never(*a, **k):
                return None
            self.storage.add_blobs = never
            writer = blob.get_blob_writer('10.0.0.1', 3333)
            blob.set_length(length)
            writer.write(data)
            await self.drain()
        elif isinstance(blob, BlobFile):
            # death in the middle of BlobFile._write_blob: since 1cc6188 the partial bytes sit in '<hash>.tmp'
            with open(os.path.join(self.blob_dir, h + '.tmp'), 'wb') as f:
                f.write(data[:written])
        await self.kill()
        return 'done'

    async def publish(self, spec, crash=None, real_kill=False):
        """spec: file_name, key, ivs, content, chunk.  crash = (k, j) or None.  real_kill (child process only):
        SIGKILL inside the k-th completion callback; how many of the earlier k-1 database writes made it is up to
        the executor threads"""
        path = os.path.join(self.src_dir, spec['file_name'])
        with open(path, 'wb') as f:
            f.write(spec['content'])
        ivs = spec['ivs']
        saved = descriptor_module.MAX_BLOB_SIZE
        descriptor_module.MAX_BLOB_SIZE = spec['chunk']
        try:
            if crash is None and spec.get('managed'):
                # StreamManager.create (create_stream + store_stream + save_published_file + ManagedStream), then what
                # the daemon's publish does next: the claim and its link to the stream
                stream = await self.sm.create(path, key=spec['key'], iv_generator=iter(ivs))
                await self.drain()
                idx = spec['index']
                claim = Claim()
                claim.stream.source.sd_hash = stream.sd_hash
                claim.stream.title = 'c18 stream %d' % idx
                txid = ('%02x' % (idx + 1)) * 32
                await self.storage.save_claims([{
                    'txid': txid, 'nout': 0, 'claim_id': ('%02x' % (idx + 1)) * 20, 'name': 'c18-%d' % idx,
                    'amount': '1.0', 'height': 1, 'address': 'bC18', 'claim_sequence': 1, 'value': claim}])
                await self.storage.save_content_claim(stream.stream_hash, txid + ':0')
                await self.drain()
                self.descriptors[stream.sd_hash] = stream.descriptor
                self.managed.append(stream.sd_hash)
                # keep a copy of every blob file of the stream: "the user puts the blob back" restores true content
                os.makedirs(os.path.join(self.root, 'backup'), exist_ok=True)
                for h in [stream.sd_hash] + [b.blob_hash for b in stream.descriptor.blobs[:-1]]:
                    shutil.copyfile(os.path.join(self.blob_dir, h), os.path.join(self.root, 'backup', h))
                return 'done'
            if crash is None:
                descriptor = await StreamDescriptor.create_stream(
                    self.loop, self.blob_dir, path, key=spec['key'], iv_generator=iter(ivs),
                    blob_completed_callback=self.bm.blob_completed)
                await self.storage.store_stream(self.bm.get_blob(descriptor.sd_hash, is_mine=True), descriptor)
                await self.drain()
                self.descriptors[descriptor.sd_hash] = descriptor
                return 'done'
            k, j = crash
            nblobs = len(ivs) - 1

            def ivgen():
                # names written = first k of (content hashes + [sd]); the sd blob is written only when the
                # terminator's iv (number nblobs) has been delivered
                for i, iv in enumerate(ivs):
                    if k <= nblobs and i >= k:
                        raise Die()
                    yield iv
                raise Die()
            seen = [0]

            def callback(blob):
                seen[0] += 1
                if real_kill:
                    if seen[0] >= k:
                        os.kill(os.getpid(), signal.SIGKILL)
                    return self.bm.blob_completed(blob)
                if seen[0] <= j:
                    return self.bm.blob_completed(blob)
                return None
            try:
                await StreamDescriptor.create_stream(
                    self.loop, self.blob_dir, path, key=spec['key'], iv_generator=ivgen(),
                    blob_completed_callback=callback)
            except Die:
                pass
            await self.kill()
            return 'done'
        finally:
            descriptor_module.MAX_BLOB_SIZE = saved

    async def delete(self, hs, from_db):
        try:
            await self.bm.delete_blobs(list(hs), delete_from_db=from_db)
        except Exception as e:                       # "invalid blob hash to delete"
            if 'invalid blob hash' in str(e):
                return 'invalid'
            raise
        await self.drain()
        return 'done'

    async def stream_delete(self, hs, sd):
        descriptor = self.descriptors[sd]
        assert [b.blob_hash for b in descriptor.blobs[:-1]] == list(hs)
        if sd in self.managed:
            self.managed.remove(sd)
        if self.sm is not None and sd in self.sm.streams:
            await self.sm.delete(self.sm.streams[sd])        # the real API path (file_delete)
            await self.drain()
            return 'done'
        # StreamManager.delete, for a stream the stream manager has not loaded
        await self.bm.delete_blobs([sd] + list(hs), delete_from_db=False)
        await self.storage.delete_stream(descriptor)
        await self.drain()
        return 'done'

    def ext_loop(self, n):
        p = os.path.join(self.blob_dir, n)
        if not os.path.lexists(p):
            os.symlink(n, p)               # a link to itself: every access through it fails with ELOOP

    def ext_file(self, n, size, content=None):
        p = os.path.join(self.blob_dir, n)
        if os.path.isdir(p):
            return
        try:
            os.stat(p)
        except OSError as e:
            if e.errno == errno.ELOOP:
                return                     # nothing can be written through a symlink loop
        with open(p, 'wb') as f:
            if content is not None:
                f.write(content)
            elif size > 65536:
                f.truncate(size)          # sparse: sizes around and above MAX_BLOB_SIZE cost nothing
            else:
                f.write(b'\x5a' * size)

    def ext_link(self, n, target, to=None):
        """a symlink named n: to a regular file of `target` bytes on the other volume (or to the entry `to` of the
        blob directory itself), or dangling when target is None"""
        p = os.path.join(self.blob_dir, n)
        if os.path.lexists(p):
            return
        if target is None:
            os.symlink(os.path.join(self.vol_dir, 'gone_' + hashlib.sha1(n.encode()).hexdigest()), p)
            return
        if to is not None:
            os.symlink(os.path.join(self.blob_dir, to), p)
            return
        k = 0
        while os.path.lexists(os.path.join(self.vol_dir, 'blob_%d' % k)):
            k += 1
        t = os.path.join(self.vol_dir, 'blob_%d' % k)
        with open(t, 'wb') as f:
            if target > 65536:
                f.truncate(target)
            else:
                f.write(b'\x6b' * target)
        os.symlink(t, p)

    def damaged(self, n, how):
        """the true sd blob of a managed stream, damaged: 'json' = bytes that are not JSON; 'hash' = still a well
        formed descriptor, but one hex digit of the stream name differs, so the stream hash no longer matches"""
        with open(os.path.join(self.root, 'backup', n), 'rb') as f:
            good = f.read()
        if how == 'json':
            return b'#' * len(good)
        d = json.loads(good.decode())
        last = d['stream_name'][-1]
        d['stream_name'] = d['stream_name'][:-1] + ('0' if last != '0' else '1')
        return json.dumps(d, sort_keys=True).encode()

    def sd_not_json(self, sd):
        """what the sd blob file holds right now, judged independently: True iff there is a file and it is not JSON"""
        p = os.path.join(self.blob_dir, sd)
        if not os.path.isfile(p):
            return False
        try:
            with open(p, 'rb') as f:
                json.loads(f.read().decode())
            return False
        except ValueError:
            return True

    def ext_dir(self, n):
        p = os.path.join(self.blob_dir, n)
        if not os.path.lexists(p):
            os.mkdir(p)

    def ext_remove(self, n):
        p = os.path.join(self.blob_dir, n)
        if os.path.isdir(p):
            os.rmdir(p)
        elif os.path.lexists(p):
            os.remove(p)

    def ext_mark(self, h):
        con = sqlite3.connect(self.db_path, timeout=30)
        try:
            con.execute('update blob set should_announce=1 where blob_hash=?', (h,))
            con.commit()
        finally:
            con.close()

    def ext_db(self, h, st, con=None):
        if con is not None:              # caller-held connection (long runs of forced rows): no commit per row
            if st is None:
                con.execute('delete from blob where blob_hash=?', (h,))
            else:
                con.execute('insert or ignore into blob values (?, ?, 0, 0, ?, 0, 0, 0, 0)', (h, 1, st))
                con.execute('update blob set status=? where blob_hash=?', (st, h))
            return
        con = sqlite3.connect(self.db_path, timeout=30)
        try:
            con.execute('pragma foreign_keys=off')
            if st is None:
                con.execute('delete from blob where blob_hash=?', (h,))
            else:
                con.execute('insert or ignore into blob values (?, ?, 0, 0, ?, 0, 0, 0, 0)', (h, 1, st))
                con.execute('update blob set status=? where blob_hash=?', (st, h))
            con.commit()
        finally:
            con.close()


# ------------------------------------------------------------------------------------------------
# running one case on the implementation
# ------------------------------------------------------------------------------------------------

def blob_data(case, h):
    return bytes.fromhex(case['blobs'][h])


def model_ops(case, daemon_flags=None):
    """the case's op list in the model's vocabulary (names as hex of their bytes); daemon_flags: what the
    implementation run observed about sd blob files at each daemon start, in order"""
    out = []
    flags = list(daemon_flags or [])
    for o in case['ops']:
        k = o['op']
        m = {'op': k}
        if k == 'restart' and o.get('daemon'):
            # the streams that are managed files at this point of the history
            gone = {p['stream'] for p in case['ops'][:len(out)] if p['op'] == 'stream_delete'}
            managed = [p['stream'] for p in case['ops'][:len(out)]
                       if p['op'] == 'publish' and p.get('managed') and p['stream'] not in gone]
            sts = []
            now = flags.pop(0) if flags else {}
            for i in managed:
                hs, sd = expected_of(case['streams'][i])
                sts.append([hx(sd[0]), sd[1], [hx(h) for h, _ in hs], bool(now.get(sd[0], False))])
            m = {'op': 'daemon_start', 'streams': sts}
            if o.get('save') is not None:
                m['save'] = bool(o['save'])
        elif k == 'restart' and o.get('save') is not None:
            m = {'op': 'restart_save', 'b': bool(o['save'])}
        if o.get('q'):
            m['q'] = True
        if k in ('complete', 'touch'):
            m.update(h=hx(o['h']), len=o['len'])
        elif k == 'crash_write':
            m.update(h=hx(o['h']), len=o['len'], written=o['written'])
        elif k in ('publish', 'publish_crash'):
            spec = case['streams'][o['stream']]
            hs, sd = expected_of(spec)
            m.update(hs=[[hx(h), ln] for h, ln in hs], sd=[hx(sd[0]), sd[1]])
            if k == 'publish_crash':
                m.update(k=o['k'], j=o['j'])
        elif k == 'delete':
            m.update(hs=[hx(h) for h in resolve_names(case, o['hs'])], from_db=o['from_db'])
        elif k == 'stream_delete':
            spec = case['streams'][o['stream']]
            hs, sd = expected_of(spec)
            m.update(hs=[hx(h) for h, _ in hs], sd=hx(sd[0]))
        elif k == 'ext_file':
            m.update(n=hx(resolve_name(case, o['n'])), size=o['size'])
        elif k in ('ext_dir', 'ext_remove', 'ext_loop'):
            m.update(n=hx(resolve_name(case, o['n'])))
        elif k == 'ext_link':
            m.update(n=hx(resolve_name(case, o['n'])), target=o['target'])
        elif k == 'ext_db':
            m.update(h=hx(resolve_name(case, o['h'])), st=o['st'])
        elif k == 'ext_mark':
            m.update(h=hx(resolve_name(case, o['h'])))
        out.append(m)
    return out


def stream_content(spec):
    # deterministic content from a short seed so that cases stay small
    return hashlib.shake_256(bytes.fromhex(spec['seed'])).digest(spec['size'])


_EXPECTED = {}


def expected_of(spec):
    """memoised expected_publish for a stream spec (JSON form)"""
    k = vlib.canon(spec)
    if k not in _EXPECTED:
        if len(_EXPECTED) > 64:
            _EXPECTED.clear()
        _EXPECTED[k] = expected_publish(spec['file_name'], bytes.fromhex(spec['key']),
                                        [bytes.fromhex(i) for i in spec['ivs']], stream_content(spec), spec['chunk'])
    return _EXPECTED[k]


def stream_names(case, idx):
    spec = case['streams'][idx]
    hs, sd = expected_of(spec)
    return [h for h, _ in hs], sd[0]


def resolve_name(case, n):
    """a name is a literal string, or {"stream": i, "blob": j | "sd"} for a hash only known after computing"""
    if isinstance(n, dict):
        hs, sd = stream_names(case, n['stream'])
        return sd if n['blob'] == 'sd' else hs[n['blob'] % len(hs)] if hs else sd
    return n


def resolve_names(case, ns):
    return [resolve_name(case, n) for n in ns]


async def run_ops(w, case, ops, on_restart, trace):
    bulk = None          # one sqlite connection across a run of consecutive quiet ext_db ops (large instances)
    for o in ops:
        k = o['op']
        if bulk is not None and not (k == 'ext_db' and o.get('q')):
            bulk.commit()
            bulk.close()
            bulk = None
        if k == 'ext_db' and o.get('q'):
            if bulk is None:
                bulk = sqlite3.connect(w.db_path, timeout=30)
                bulk.execute('pragma foreign_keys=off')
            w.ext_db(resolve_name(case, o['h']), o['st'], con=bulk)
            trace.append({'r': 'done'})
            continue
        if k == 'restart':
            # with writes in flight the pre-state cannot be observed without yielding to them: after-only clauses
            before = None if o.get('inflight') else dict(await w.observe(), lengths=w.lengths())
            if o.get('daemon'):
                # what each managed stream's sd blob file holds as the daemon starts (input of the model's op)
                w.daemon_flags.append({sd: w.sd_not_json(sd) for sd in w.managed})
                if before is not None:
                    before['not_json'] = [hx(sd) for sd, bad in w.daemon_flags[-1].items() if bad]
            try:
                await w.restart(o.get('mode', 'new'), o.get('save'), inflight=bool(o.get('inflight')),
                                daemon=bool(o.get('daemon')), connected=bool(o.get('connected')))
            except Exception as e:                       # a start that raises is the worst bookkeeping failure
                on_restart(before, None, failed='%s: %s' % (type(e).__name__, e))
                raise StartFailed()
            r = 'done'
            on_restart(before, dict(await w.observe(), lengths=w.lengths()), daemon=bool(o.get('daemon')),
                       save_switched=o.get('save') is not None)
        elif k == 'ext_file':
            n = resolve_name(case, o['n'])
            content = None
            if o.get('true_content') and n in case['blobs']:
                content = blob_data(case, n)
            if o.get('damage'):                          # the sd blob of a managed stream, damaged in place
                content = w.damaged(n, o['damage'])
            if o.get('restore'):                         # the true blob file of a managed stream comes back
                with open(os.path.join(w.root, 'backup', n), 'rb') as f:
                    content = f.read()
            w.ext_file(n, o['size'], content)
            r = 'done'
        elif k == 'ext_dir':
            w.ext_dir(resolve_name(case, o['n']))
            r = 'done'
        elif k == 'ext_remove':
            w.ext_remove(resolve_name(case, o['n']))
            r = 'done'
        elif k == 'ext_loop':
            w.ext_loop(resolve_name(case, o['n']))
            r = 'done'
        elif k == 'ext_link':
            w.ext_link(resolve_name(case, o['n']), o['target'], o.get('to'))
            r = 'done'
        elif k == 'ext_db':
            w.ext_db(resolve_name(case, o['h']), o['st'])
            r = 'done'
        elif k == 'ext_mark':
            w.ext_mark(resolve_name(case, o['h']))
            r = 'done'
        elif w.dead:
            r = 'dead'
        elif k == 'complete':
            r = await w.complete(o['h'], o['len'], blob_data(case, o['h']) if o['h'] in case['blobs'] else b'',
                                 inflight=bool(o.get('inflight')))
        elif k == 'touch':
            r = await w.touch(o['h'], o['len'])
        elif k == 'crash_write':
            r = await w.crash_write(o['h'], o['len'], o['written'],
                                    blob_data(case, o['h']) if o['h'] in case['blobs'] else b'',
                                    real_kill=bool(o.get('real_kill')))
        elif k in ('publish', 'publish_crash'):
            spec = dict(case['streams'][o['stream']])
            spec['key'] = bytes.fromhex(spec['key'])
            spec['ivs'] = [bytes.fromhex(i) for i in spec['ivs']]
            spec['content'] = stream_content(spec)
            spec['index'] = o['stream']
            spec['managed'] = bool(o.get('managed'))
            r = await w.publish(spec, (o['k'], o.get('j', 0)) if k == 'publish_crash' else None,
                                real_kill=bool(o.get('real_kill')))
        elif k == 'delete':
            r = await w.delete(resolve_names(case, o['hs']), o['from_db'])
        elif k == 'stream_delete':
            hs, sd = stream_names(case, o['stream'])
            r = await w.stream_delete(hs, sd)
        else:
            raise ValueError(k)
        trace.append({'r': r} if o.get('q') else {'r': r, 's': await w.observe()})


async def run_impl(case, loop, on_restart):
    """-> (list of {r, s} per op, what was observed about sd blob files at each daemon start).
    on_restart(before, after) feeds the monitor."""
    w = World(loop)
    if case.get('bandwidth'):
        w.conf.track_bandwidth = True      # the default: BlobManager.setup starts, stop() stops the connection manager
    trace = []
    try:
        await w.boot()            # the daemon is running with an empty directory and table (the model's init)
        await w.bm.setup()
        try:
            await run_ops(w, case, case['ops'], on_restart, trace)
        except StartFailed:
            pass                  # reported through the monitor; the history ends here
    finally:
        try:
            await w.close()
        except Exception:
            shutil.rmtree(w.root, ignore_errors=True)
    return trace, w.daemon_flags


async def run_impl_real_kill(case, loop, on_restart):
    """The ops up to and including the one marked real_kill run in a CHILD python process that is SIGKILLed by that
    op (a genuine process death with the sqlite WAL open); the remaining ops run here on the same directories.
    -> (trace of the prefix as reported by the child, observation right after the death, trace of the rest)"""
    w = World(loop)
    try:
        cut = next(i for i, o in enumerate(case['ops']) if o.get('real_kill'))
        case_path = os.path.join(w.root, 'case.json')
        out_path = os.path.join(w.root, 'prefix_trace.json')
        with open(case_path, 'w') as f:
            json.dump(case, f)
        p = subprocess.run([sys.executable, '-W', 'ignore', os.path.abspath(__file__), '--child', w.root, case_path,
                            str(cut), out_path], stdout=subprocess.PIPE, stderr=subprocess.STDOUT, timeout=120)
        if p.returncode != -signal.SIGKILL:
            raise RuntimeError('child was expected to die by SIGKILL, got %r: %s' % (p.returncode, p.stdout[-2000:]))
        prefix = json.load(open(out_path))
        w.dead = True
        after_death = await w.observe()
        rest = []
        await run_ops(w, case, case['ops'][cut + 1:], on_restart, rest)
    finally:
        await w.close()
    return prefix, after_death, rest


def child_main(argv):
    """runs inside the child: ops[0..cut]; writes the trace of ops[0..cut-1] before starting op cut, then dies"""
    import logging
    logging.disable(logging.CRITICAL)
    root, case_path, cut, out_path = argv[0], argv[1], int(argv[2]), argv[3]
    case = json.load(open(case_path))
    loop = asyncio.new_event_loop()
    loop.set_exception_handler(lambda l, c: None)
    asyncio.set_event_loop(loop)

    async def go():
        w = World(loop, root=root)
        await w.boot()
        await w.bm.setup()
        trace = []
        await run_ops(w, case, case['ops'][:cut], lambda b, a, **kw: None, trace)
        with open(out_path, 'w') as f:
            json.dump(trace, f)
            f.flush()
            os.fsync(f.fileno())
        await run_ops(w, case, [case['ops'][cut]], lambda b, a, **kw: None, trace)
    loop.run_until_complete(go())
    sys.exit(3)        # not reached when the kill happens


def canon_model_trace(tr):
    out = []
    for st in tr:
        if 's' not in st:
            out.append({'r': st['r']})
            continue
        s = st['s']
        out.append({'r': st['r'], 's': {
            'disk': sorted([n, k, int(sz)] for n, k, sz in s['disk']),
            'db': sorted(s['db']),
            'completed': sorted(s['completed']),
            'alive': s['alive'],
            'announce_all': sorted(s['announce_all']), 'announce_head': sorted(s['announce_head'])}})
    return out


# ------------------------------------------------------------------------------------------------
# the property's own statement, evaluated on the implementation's observations
# ------------------------------------------------------------------------------------------------

def unhx(s):
    return bytes.fromhex(s).decode('utf-8')


def monitor_restart(before, after, prev_restart_after, daemon=False):
    """before/after: World.observe() around one restart.  prev_restart_after: the observation right after the
    previous restart when NOTHING happened in between (else None).  Returns a description or None."""
    files = {n for n, k, _ in after['disk'] if k == 'f'}       # regular files and symlinks to regular files
    blob_files = {n for n in files if STRICT_HASH.fullmatch(unhx(n))}
    rows_b = dict(before['db']) if before is not None else None
    rows_a = dict(after['db'])
    sizes = {n: sz for n, k, sz in after['disk'] if k == 'f'}
    if before is not None and not daemon and before['disk'] != after['disk']:
        return 'the start changed the blob directory'
    if before is not None and daemon:
        # the one file a daemon start may remove: an sd blob whose bytes are not JSON (the descriptor parser drops it)
        junk = set(before.get('not_json', ()))
        if any(e not in after['disk'] and e[0] not in junk for e in before['disk']):
            return 'the daemon start removed or changed an entry of the blob directory'
    # 1. everything reported as completed has its file (a directory or a dangling link under that name is NOT a file)
    for h in after['completed']:
        if h not in files:
            return f'{unhx(h)[:12]}.. is reported as completed but has no file'
    #    ... "and therefore announces": the announcer's work list, under either setting, only holds hashes with a file
    for which, lst in (('announce_head_and_sd_only=False', after['announce_all']),
                       ('announce_head_and_sd_only=True', after['announce_head'])):
        for h in lst:
            if h not in files:
                return (f'{unhx(h)[:12]}.. (status {rows_a.get(h)!r}) has no file but is handed to the DHT announcer '
                        f'after the start ({which})')
    # 2. every blob file present is recorded as finished
    for n in blob_files:
        if rows_a.get(n) != 'finished':
            return f'blob file {unhx(n)[:12]}.. is present but recorded as {rows_a.get(n)!r}'
    # 3. finished rows whose file has disappeared are downgraded; finished rows have their file
    # (an sd blob that was not JSON and was dropped by a daemon start may lose its row instead: not 'finished' is what
    #  the property needs, and the next loop checks exactly that)
    dropped = set(before.get('not_json', ())) if (before is not None and daemon) else set()
    for h, st in (rows_b or {}).items():
        if st == 'finished' and h not in files and h not in dropped:
            if rows_a.get(h) != 'pending':
                return f'{unhx(h)[:12]}.. was finished, its file is gone, now recorded as {rows_a.get(h)!r}'
    for h, st in rows_a.items():
        if st == 'finished' and h not in files:
            return f'{unhx(h)[:12]}.. is recorded as finished after the start but has no file'
    # what must not change: no row dropped, rows invented only for present files, other rows untouched
    for h, st in (rows_b or {}).items():
        if h not in rows_a and h in dropped:
            continue
        if h not in rows_a:
            return f'the start deleted the row of {unhx(h)[:12]}..'
        if h not in files and st != 'finished' and rows_a[h] != st:
            return f'the start changed the row of absent {unhx(h)[:12]}.. from {st} to {rows_a[h]}'
    if rows_b is not None:
        for h in rows_a:
            # (a daemon start may re-insert the rows of a recovered stream as 'pending'; a 'finished' one without a
            #  file is caught by clause 3 above)
            if h not in rows_b and h not in files and not (daemon and rows_a[h] == 'pending'):
                return f'the start invented a row for {unhx(h)[:12]}.. which has no file'
            if h not in rows_b and h in files and after.get('lengths', {}).get(h) != sizes[h]:
                return (f'the start recorded {unhx(h)[:12]}.. with length {after.get("lengths", {}).get(h)!r}, '
                        f'its file has {sizes[h]} bytes')
    # 4. a further restart with nothing changed reports exactly the files present
    if prev_restart_after is not None:
        rep = set(after['completed'])
        missing = blob_files - rep
        if missing:
            return f'second start does not report present blob file {unhx(sorted(missing)[0])[:12]}..'
        extra = rep - files
        if extra:
            return f'second start reports {unhx(sorted(extra)[0])[:12]}.. which is not present'
        if after['db'] != prev_restart_after['db']:
            return 'second start with nothing changed altered the blob table'
    return None


# ------------------------------------------------------------------------------------------------
# generators
# ------------------------------------------------------------------------------------------------

LENGTHS = [1, 2, 15, 16, 17, 31, 32, 33, 64, 100, 255, 256, 1000]
# sizes of files dropped into the blob directory: small ones and the MAX_BLOB_SIZE boundary (sparse files)
EXT_SIZES = [0, 1, 5, 16, 100, 100, REAL_MAX - 1, REAL_MAX, REAL_MAX + 1, REAL_MAX + 1, 3 * REAL_MAX + 5]
ODD_VALID = [',' * 96, 'c' * 95 + '\n', '0123456789abcdef' * 6, ',0' * 48]
INVALID = ['a' * 95, 'a' * 97, 'A' * 96, 'g' + 'a' * 95, 'a' * 95 + ' ', 'readme.txt', 'a' * 94 + '\n\n', '\n' + 'a' * 95]


def make_stream(rng, idx, nblobs=None, real=False):
    if real:
        chunk = REAL_MAX
        size = (REAL_MAX - 1) * 2 + rng.randrange(1, 40)
    else:
        chunk = rng.choice([17, 33, 65, 129])
        nb = rng.choice([0, 1, 1, 1, 2, 2, 3, 4]) if nblobs is None else nblobs
        size = 0 if nb == 0 else (chunk - 1) * (nb - 1) + rng.randrange(1, chunk)
    n = -(-size // (chunk - 1))
    return {'file_name': f'pub{idx}.bin', 'key': rng.randbytes(16).hex(),
            'ivs': [rng.randbytes(16).hex() for _ in range(n + 1)],
            'seed': rng.randbytes(6).hex(), 'size': size, 'chunk': chunk}


def gen_case(rng, nops, with_dirs=False, inject=True, toggle_save=False, bandwidth=False):
    nb = rng.randrange(2, 7)
    blobs = {}
    for _ in range(nb):
        d = rng.randbytes(rng.choice(LENGTHS))
        blobs[hashlib.sha384(d).hexdigest()] = d.hex()
    pool = list(blobs)
    extra_valid = [rng.randbytes(48).hex() for _ in range(2)] + rng.sample(ODD_VALID, 2)
    invalid = rng.sample(INVALID, 3)
    case = {'blobs': blobs, 'streams': [], 'ops': []}
    ops = case['ops']
    if toggle_save and rng.random() < 0.6:
        ops.append({'op': 'restart', 'mode': 'new', 'save': False})
    published = []          # stream indexes published (possibly crashed)

    def any_name():
        c = rng.random()
        if c < 0.55 or not case['streams']:
            return rng.choice(pool) if rng.random() < 0.75 else rng.choice(extra_valid)
        if c < 0.85:
            s = rng.randrange(len(case['streams']))
            return {'stream': s, 'blob': rng.choice(['sd', 0, 1, 2])}
        return rng.choice(extra_valid + invalid)

    def after_crash():
        # behind-the-back changes may happen while the daemon is down; an API call on the dead process is 'dead'
        for _ in range(rng.choice([0, 0, 0, 1, 2])):
            ext_op()
        if rng.random() < 0.1:
            h = rng.choice(pool)
            ops.append({'op': 'complete', 'h': h, 'len': len(blobs[h]) // 2})
        ops.append({'op': 'restart', 'mode': 'new'})

    def ext_op():
        c = rng.random()
        n = any_name()
        if c < 0.45:
            lit = n if isinstance(n, str) else None
            if lit in blobs and rng.random() < 0.5:
                ops.append({'op': 'ext_file', 'n': n, 'size': len(blobs[lit]) // 2, 'true_content': True})
            else:
                ops.append({'op': 'ext_file', 'n': n, 'size': rng.choice(EXT_SIZES)})
        elif c < 0.55:
            # a blob relocated to another volume and linked back (or a foreign file linked in)
            lit = n if isinstance(n, str) else None
            if rng.random() < 0.6:
                ops.append({'op': 'ext_remove', 'n': n})
            ops.append({'op': 'ext_link', 'n': n,
                        'target': len(blobs[lit]) // 2 if lit in blobs and rng.random() < 0.6 else rng.choice(EXT_SIZES)})
        elif c < 0.9 or not with_dirs:
            ops.append({'op': 'ext_remove', 'n': n})
        elif c < 0.95:
            ops.append({'op': 'ext_dir', 'n': n})
        elif c < 0.98:
            ops.append({'op': 'ext_link', 'n': n, 'target': None})      # dangling symlink
        else:
            ops.append({'op': 'ext_loop', 'n': n})                      # a symlink to itself

    def burst():
        # several operations in a row on ONE hash: stale cache entries, replaced files, rows without files ...
        h = rng.choice(pool)
        ln = len(blobs[h]) // 2
        for _ in range(rng.randrange(3, 8)):
            c = rng.random()
            if c < 0.22:
                ops.append({'op': 'complete', 'h': h, 'len': ln})
            elif c < 0.32:
                ops.append({'op': 'touch', 'h': h, 'len': ln})
            elif c < 0.44:
                ops.append({'op': 'ext_file', 'n': h, 'size': ln, 'true_content': True})
            elif c < 0.48:
                ops.append({'op': 'ext_remove', 'n': h})
                ops.append({'op': 'ext_link', 'n': h, 'target': rng.choice([ln, ln, 3, REAL_MAX + 1])})
            elif c < 0.54:
                ops.append({'op': 'ext_file', 'n': h, 'size': rng.choice([0, 1, ln + 1, max(ln - 1, 0), REAL_MAX,
                                                                          REAL_MAX + 1])})
            elif c < 0.66:
                ops.append({'op': 'ext_remove', 'n': h})
            elif c < 0.78:
                ops.append({'op': 'delete', 'hs': [h], 'from_db': rng.random() < 0.5})
            elif c < 0.84 and inject:
                ops.append({'op': 'ext_db', 'h': h, 'st': rng.choice([None, 'pending', 'finished'])})
            elif c < 0.90:
                ops.append({'op': 'crash_write', 'h': h, 'len': ln, 'written': rng.choice([ln, ln, ln // 2, 0])})
                ops.append({'op': 'restart', 'mode': 'new'})
            else:
                ops.append({'op': 'restart', 'mode': rng.choice(['new', 'stop_new', 'stop_same'])})

    def inflight_restart():
        # a blob completes, its database write is still queued, (its file vanishes,) stop()+setup() on the same
        # manager without yielding to the loop in between: the queued write must be ordered before the start-up sync
        h = rng.choice(pool)
        ops.append({'op': 'complete', 'h': h, 'len': len(blobs[h]) // 2, 'inflight': True, 'q': True})
        if rng.random() < 0.7:
            ops.append({'op': 'ext_remove', 'n': h, 'q': True})
        ops.append({'op': 'restart', 'mode': 'stop_same', 'inflight': True})

    while len(ops) < nops:
        c = rng.random()
        if rng.random() < 0.05 and not with_dirs:
            inflight_restart()
        if rng.random() < 0.08:
            ops.append({'op': 'ext_mark', 'h': any_name()})       # should_announce=1, as set_announce / store_stream do
        if c < 0.12:
            burst()
        elif c < 0.20:
            h = rng.choice(pool)
            ops.append({'op': 'complete', 'h': h, 'len': len(blobs[h]) // 2})
        elif c < 0.24:
            h = rng.choice(pool)
            ops.append({'op': 'touch', 'h': h, 'len': len(blobs[h]) // 2})
        elif c < 0.32:
            h = rng.choice(pool)
            ln = len(blobs[h]) // 2
            ops.append({'op': 'crash_write', 'h': h, 'len': ln,
                        'written': ln if rng.random() < 0.6 else rng.randrange(0, ln + 1)})
            after_crash()
        elif c < 0.42:
            case['streams'].append(make_stream(rng, len(case['streams'])))
            idx = len(case['streams']) - 1
            published.append(idx)
            ops.append({'op': 'publish', 'stream': idx})
        elif c < 0.48:
            case['streams'].append(make_stream(rng, len(case['streams'])))
            idx = len(case['streams']) - 1
            n = len(case['streams'][idx]['ivs']) - 1
            k = rng.randrange(0, n + 2)
            j = rng.randrange(0, k + 1)
            ops.append({'op': 'publish_crash', 'stream': idx, 'k': k, 'j': j})
            after_crash()
        elif c < 0.60:
            hs = [any_name() for _ in range(rng.choice([1, 1, 1, 2, 3]))]
            ops.append({'op': 'delete', 'hs': hs, 'from_db': rng.random() < 0.6})
        elif c < 0.66 and published:
            ops.append({'op': 'stream_delete', 'stream': rng.choice(published)})
        elif c < 0.80:
            ext_op()
        elif c < 0.85 and inject:
            ops.append({'op': 'ext_db', 'h': any_name(), 'st': rng.choice([None, 'pending', 'finished', 'finished'])})
            if rng.random() < 0.5:
                ops.append({'op': 'ext_mark', 'h': ops[-1]['h']})
        elif c < 0.97:
            ops.append({'op': 'restart', 'mode': rng.choice(['new', 'stop_new', 'stop_same'])})
            if toggle_save and rng.random() < 0.5:
                ops[-1]['save'] = rng.random() < 0.4
            if rng.random() < 0.4:
                ops.append({'op': 'restart', 'mode': rng.choice(['new', 'stop_new', 'stop_same'])})
        else:
            if with_dirs:
                ops.append({'op': 'ext_dir', 'n': any_name()})
    ops.append({'op': 'restart', 'mode': 'new'})
    ops.append({'op': 'restart', 'mode': rng.choice(['new', 'stop_new', 'stop_same'])})
    if bandwidth:
        # bandwidth tracking on (the default configuration) and, at some component restarts, a blob-exchange
        # connection still registered with the connection manager when BlobManager.stop() runs
        case['bandwidth'] = True
        for o in ops:
            if o['op'] == 'restart' and o.get('mode') in ('stop_same', 'stop_new') and not o.get('inflight') \
                    and rng.random() < 0.7:
                o['connected'] = True
    return case


def prestate_case(names_states):
    """names_states: list of (name, disk in '-fd', row in '-pF'): builds that pre-state, then two restarts"""
    ops = []
    for n, d, r in names_states:
        if d == 'f':
            ops.append({'op': 'ext_file', 'n': n, 'size': 3})
        elif d == 'd':
            ops.append({'op': 'ext_dir', 'n': n})
        elif d == 's':
            ops.append({'op': 'ext_link', 'n': n, 'target': 7})        # symlink to a regular file
        elif d == 'l':
            ops.append({'op': 'ext_link', 'n': n, 'target': None})     # dangling symlink
        elif d == 'o':
            ops.append({'op': 'ext_loop', 'n': n})                     # symlink loop
        if r != '-':
            ops.append({'op': 'ext_db', 'h': n, 'st': 'pending' if r == 'p' else 'finished'})
    ops += [{'op': 'restart', 'mode': 'new'}, {'op': 'restart', 'mode': 'new'}, {'op': 'restart', 'mode': 'stop_same'}]
    return {'blobs': {}, 'streams': [], 'ops': ops, 'kind': 'prestate'}


def hname(i):
    return hashlib.sha384(b'prestate%d' % i).hexdigest()


def big_case(unrecorded, recorded=57, missing=20):
    """`unrecorded` files without a finished row (more than 500 reaches the batch branch of
    ensure_completed_blobs_status), `recorded` files with one, `missing` finished rows without a file"""
    n = unrecorded + recorded
    ops = [{'op': 'ext_file', 'n': hname(i), 'size': i % 7, 'q': True} for i in range(n)]
    ops += [{'op': 'ext_db', 'h': hname(i), 'st': 'finished', 'q': True} for i in range(unrecorded, n)]
    ops += [{'op': 'ext_db', 'h': hname(i), 'st': 'pending', 'q': True} for i in range(0, unrecorded, 50)]
    ops += [{'op': 'ext_db', 'h': hname(n + i), 'st': 'finished', 'q': True} for i in range(missing)]
    ops += [{'op': 'restart', 'mode': 'new'}, {'op': 'restart', 'mode': 'new'}]
    return {'blobs': {}, 'streams': [], 'ops': ops, 'kind': 'batch:%d' % unrecorded}


def gen_daemon_case(rng):
    """histories whose restarts are whole DAEMON starts (BlobManager.setup + the real StreamManager start-up) over
    managed streams (published through StreamManager.create, with a claim) whose sd / content blob files vanish,
    come back, or are deleted through the API.  Blob files of managed streams only ever get their true content back
    (so the blob_length column keeps the descriptor's lengths, the tie's precondition for recovery)."""
    nb = rng.randrange(2, 4)
    blobs = {}
    for _ in range(nb):
        d = rng.randbytes(rng.choice(LENGTHS))
        blobs[hashlib.sha384(d).hexdigest()] = d.hex()
    pool = list(blobs)
    case = {'blobs': blobs, 'streams': [], 'ops': []}
    ops = case['ops']
    if rng.random() < 0.2:
        ops.append({'op': 'restart', 'mode': 'new', 'save': False, 'daemon': True})
    nstreams = rng.choice([1, 1, 2, 3])
    for i in range(nstreams):
        case['streams'].append(make_stream(rng, i, nblobs=rng.choice([0, 1, 2, 2, 3])))
        ops.append({'op': 'publish', 'stream': i, 'managed': True})
        if rng.random() < 0.3:
            h = rng.choice(pool)
            ops.append({'op': 'complete', 'h': h, 'len': len(blobs[h]) // 2})
    if rng.random() < 0.3:
        case['streams'].append(make_stream(rng, nstreams))          # an unmanaged stream next to them
        ops.append({'op': 'publish', 'stream': nstreams})

    def stream_blob():
        i = rng.randrange(nstreams)
        hs, sd = expected_of(case['streams'][i])
        j = rng.choice(['sd', 'sd'] + list(range(len(hs))))
        name = {'stream': i, 'blob': j}
        size = sd[1] if j == 'sd' else hs[j][1]
        return name, size

    for _ in range(rng.randrange(2, 6)):
        for _ in range(rng.randrange(1, 5)):
            c = rng.random()
            n, size = stream_blob()
            if c < 0.45:
                ops.append({'op': 'ext_remove', 'n': n})
            elif c < 0.55:
                ops.append({'op': 'ext_file', 'n': n, 'size': size, 'restore': True})
            elif c < 0.6:
                # the sd blob damaged behind the daemon's back: not JSON / JSON whose stream hash no longer matches
                i = rng.randrange(nstreams)
                sdlen = expected_of(case['streams'][i])[1][1]
                ops.append({'op': 'ext_file', 'n': {'stream': i, 'blob': 'sd'}, 'size': sdlen,
                            'damage': rng.choice(['json', 'hash'])})
            elif c < 0.66:
                ops.append({'op': 'delete', 'hs': [n], 'from_db': rng.random() < 0.5})
            elif c < 0.72:
                ops.append({'op': 'stream_delete', 'stream': rng.randrange(nstreams)})   # file_delete of a whole stream
            elif c < 0.8:
                ops.append({'op': 'ext_mark', 'h': n})
            elif c < 0.9:
                h = rng.choice(pool)
                ops.append({'op': 'complete', 'h': h, 'len': len(blobs[h]) // 2})
            else:
                h = rng.choice(pool)
                ln = len(blobs[h]) // 2
                ops.append({'op': 'crash_write', 'h': h, 'len': ln, 'written': ln})
                break
        r = {'op': 'restart', 'mode': rng.choice(['new', 'stop_new', 'stop_same']), 'daemon': rng.random() < 0.75}
        if rng.random() < 0.12:
            r['save'] = rng.random() < 0.5
        ops.append(r)
        if rng.random() < 0.5:
            ops.append({'op': 'restart', 'mode': rng.choice(['new', 'stop_same']), 'daemon': rng.random() < 0.5})
    ops.append({'op': 'restart', 'mode': 'new', 'daemon': True, 'save': True})
    ops.append({'op': 'restart', 'mode': rng.choice(['new', 'stop_new', 'stop_same']), 'daemon': rng.random() < 0.5})
    return case


def vanished_in_pages_case(total=2000, gone=(10, 11, 12, 13, 14, 900, 901, 902)):
    """a LARGE table: `total` finished rows, every file present except those at the given positions IN blob_hash
    ORDER (a start that walked the finished rows in pages while downgrading would skip rows right after a page
    boundary: 900-902 sit just behind the first 900)"""
    names = sorted(hname(i) for i in range(total))
    gone = set(gone)
    ops = [{'op': 'ext_file', 'n': n, 'size': i % 5, 'q': True} for i, n in enumerate(names) if i not in gone]
    ops += [{'op': 'ext_db', 'h': n, 'st': 'finished', 'q': True} for n in names]
    ops += [{'op': 'ext_mark', 'h': names[i], 'q': True} for i in sorted(gone)]
    ops += [{'op': 'restart', 'mode': 'new'}, {'op': 'restart', 'mode': 'new'}]
    return {'blobs': {}, 'streams': [], 'ops': ops, 'kind': 'vanished-in-pages:%d' % total}


# ------------------------------------------------------------------------------------------------
# one case end to end
# ------------------------------------------------------------------------------------------------

class RestartMonitor:
    """feeds monitor_restart with the observations around every restart of one case"""

    def __init__(self, run, restart_indexes):
        self.run = run
        self.restarts = restart_indexes
        self.n = 0
        self.last_after, self.last_idx = None, -2
        self.last_daemon = False
        self.last_dropped = False
        self.bad = []

    def __call__(self, before, after, daemon=False, save_switched=False, failed=None):
        i = self.restarts[self.n]
        self.n += 1
        if failed is not None:
            self.bad.append((i, 'the start did not complete: ' + failed))
            return
        # "a further restart with nothing changed": the start right before, of the same or a fuller kind (a daemon
        # start after a bare BlobManager restart does more), with the same save_blobs setting
        prev = self.last_after if self.last_idx == i - 1 else None
        if save_switched or (daemon and not self.last_daemon) or self.last_dropped:
            prev = None           # (a start that dropped a non-JSON sd blob leaves work for the next: recovery)
        self.last_daemon = daemon
        self.last_dropped = bool(daemon and before is not None and before.get('not_json'))
        b = monitor_restart(before, after, prev, daemon=daemon)
        if b:
            self.bad.append((i, b))
        self.last_after, self.last_idx = after, i
        self.run.count('restarts')
        if prev is not None:
            self.run.count('second-restarts')


def with_loop(fn):
    loop = asyncio.new_event_loop()
    loop.set_exception_handler(lambda l, c: None)
    asyncio.set_event_loop(loop)
    try:
        return loop.run_until_complete(fn(loop))
    finally:
        try:
            loop.run_until_complete(loop.shutdown_default_executor())
        except Exception:
            pass
        loop.close()
        asyncio.set_event_loop(None)


STRICT_API = ('complete', 'publish', 'delete', 'stream_delete', 'restart')
# (BlobManager.delete_blobs(delete_from_db=False) alone is only half of StreamManager.delete: the rows go in the second
#  half; the API's own blob_delete always removes the row)


def monitor_runtime(case, impl):
    """C18_api_keeps_completed_backed on the implementation: from a start on, as long as only API operations run
    (no death, nothing behind the daemon's back, no abandoned download) and the directory holds files only, what is
    reported as completed has its file after EVERY operation, not only after a start."""
    clean = True          # every history begins right after a start on an empty directory
    for i, (o, st) in enumerate(zip(case['ops'], impl)):
        s = st.get('s')
        if o['op'] not in STRICT_API or o.get('inflight') or o.get('real_kill') or s is None or not s['alive']:
            clean = False
            continue
        if o['op'] == 'restart':
            clean = all(k == 'f' for _, k, _ in s['disk'])
            continue
        if clean and ((o['op'] == 'delete' and not o['from_db']) or st['r'] == 'invalid'):
            clean = False
            continue
        if clean:
            files = {n for n, k, _ in s['disk'] if k == 'f'}
            for h in sorted(set(s['announce_all']) | set(s['announce_head'])):
                if h not in files:
                    return i, (f'{unhx(h)[:12]}.. has no file but is recorded as finished and handed to the DHT announcer, '
                               f'between restarts, after the API operation {o["op"]} (only API operations since the last '
                               f'start)')
            for h, stt in s['db']:
                if stt == 'finished' and h not in files:
                    return i, (f'{unhx(h)[:12]}.. is recorded as finished but has no file, between restarts, after the '
                               f'API operation {o["op"]} (only API operations since the last start)')
            for h in s['completed']:
                if h not in files:
                    return i, (f'{unhx(h)[:12]}.. is reported as completed but has no file, between restarts, after '
                               f'the API operation {o["op"]} (only API operations since the last start)')
    return None


def report(run, case, mon, impl, mod):
    for o, st in zip(case['ops'], impl):
        run.count('op:' + o['op'] + ':' + st['r'])
        if o.get('save') is not None:
            run.count('restart-with-save_blobs=%s' % bool(o['save']))
    run.count('ops-per-case:%d' % (10 * (len(case['ops']) // 10)))
    if mon.bad:
        i, what = mon.bad[0]
        run.violation(case, f'at op {i} (restart): {what}',
                      signature={'ops': case['ops'][:i + 1], 'streams': case['streams'], 'blobs': sorted(case['blobs'])})
        return
    rt = monitor_runtime(case, impl)
    if rt:
        i, what = rt
        run.violation(case, f'at op {i}: {what}',
                      signature={'ops': case['ops'][:i + 1], 'streams': case['streams'], 'blobs': sorted(case['blobs'])})
        return
    if impl != mod:
        # report the first step that differs, with both sides
        for i, (a, b) in enumerate(zip(impl, mod)):
            if a != b:
                run.compare('C18.step', dict(case, first_difference_at_op=i, op=case['ops'][i]), a, b)
                return
        run.compare('C18.step', case, len(impl), len(mod))
    else:
        run.compare('C18.step', case, 0, 0)


def check_case(run, model, case, kind):
    if any(o.get('real_kill') for o in case['ops']):
        return check_kill_case(run, model, case, kind)
    mon = RestartMonitor(run, [i for i, o in enumerate(case['ops']) if o['op'] == 'restart'])
    impl, flags = with_loop(lambda loop: run_impl(case, loop, mon))
    mod = canon_model_trace(model.call('run', ops=model_ops(case, flags)))
    case = dict(case, kind=kind)
    run.case(case, nontrivial=len({o['op'] for o in case['ops']}) > 1)
    report(run, case, mon, impl, mod)


def check_kill_case(run, model, case, kind):
    """a case whose op number `cut` is a genuine SIGKILL of a child process running the real code.  For a publish
    the number j of database writes that were committed before the death is decided by the executor threads: the
    implementation's state after the death must equal the model's for SOME j < k, and the rest of the history is
    compared under that j."""
    cut = next(i for i, o in enumerate(case['ops']) if o.get('real_kill'))
    mon = RestartMonitor(run, [i for i, o in enumerate(case['ops']) if o['op'] == 'restart' and i > cut])
    prefix, after_death, rest = with_loop(lambda loop: run_impl_real_kill(case, loop, mon))
    op = case['ops'][cut]
    js = list(range(0, op['k'])) if op['op'] == 'publish_crash' else [0]
    chosen = None
    for j in js:
        c2 = dict(case, ops=[dict(o, j=j) if i == cut and o['op'] == 'publish_crash' else o
                             for i, o in enumerate(case['ops'])])
        mod = canon_model_trace(model.call('run', ops=model_ops(c2)))
        if mod[cut] == {'r': 'done', 's': after_death}:
            chosen = (j, mod)
            break
    case = dict(case, kind=kind)
    run.case(case, nontrivial=True)
    run.count('real-kill:' + op['op'])
    if chosen is None:
        run.compare('C18.real_kill', dict(case, first_difference_at_op=cut, op=op), {'r': 'done', 's': after_death},
                    {'none of the model outcomes for j in': js, 'model for j=0': mod[cut]})
        return
    run.count('real-kill-recorded:j=%d,k=%s' % (chosen[0], op.get('k', '-')))
    impl = prefix + [{'r': 'done', 's': after_death}] + rest
    report(run, case, mon, impl, chosen[1])


def gen_kill_case(rng, kind=None):
    nb = rng.randrange(3, 6)
    blobs = {}
    for _ in range(nb):
        d = rng.randbytes(rng.choice(LENGTHS))
        blobs[hashlib.sha384(d).hexdigest()] = d.hex()
    pool = list(blobs)
    victim, pool = pool[0], pool[1:]
    case = {'blobs': blobs, 'streams': [make_stream(rng, 0)], 'ops': []}
    ops = case['ops']

    def some_ops(n):
        for _ in range(n):
            c = rng.random()
            h = rng.choice(pool)
            if c < 0.4:
                ops.append({'op': 'complete', 'h': h, 'len': len(blobs[h]) // 2})
            elif c < 0.55:
                ops.append({'op': 'delete', 'hs': [h], 'from_db': rng.random() < 0.5})
            elif c < 0.7:
                ops.append({'op': 'ext_file', 'n': h, 'size': rng.choice([0, 3, len(blobs[h]) // 2])})
            elif c < 0.85:
                ops.append({'op': 'ext_remove', 'n': h})
            else:
                ops.append({'op': 'restart', 'mode': rng.choice(['new', 'stop_same'])})
    ops.append({'op': 'publish', 'stream': 0})
    some_ops(rng.randrange(0, 6))
    if (kind or rng.choice(['crash_write', 'publish_crash'])) == 'crash_write':
        ln = len(blobs[victim]) // 2
        ops.append({'op': 'crash_write', 'h': victim, 'len': ln, 'written': ln, 'real_kill': True})
    else:
        case['streams'].append(make_stream(rng, 1, nblobs=rng.choice([1, 2, 3, 4])))
        n = len(case['streams'][1]['ivs']) - 1
        ops.append({'op': 'publish_crash', 'stream': 1, 'k': rng.randrange(1, n + 2), 'j': 0, 'real_kill': True})
    ops += [{'op': 'restart', 'mode': 'new'}, {'op': 'restart', 'mode': 'new'}]
    some_ops(rng.randrange(0, 5))
    ops += [{'op': 'restart', 'mode': 'new'}, {'op': 'restart', 'mode': 'stop_same'}]
    return case


NAME_ALPHABET = list('0123456789abcdef') * 4 + list(',gGAF\n \t-_.é')


def gen_name_strings(rng, n):
    for _ in range(n):
        ln = rng.choice([96] * 6 + [95, 97, 0, 1, 48, 192])
        c = rng.random()
        if c < 0.4:
            s = ''.join(rng.choice('0123456789abcdef') for _ in range(ln))
        elif c < 0.7:
            s = ''.join(rng.choice('0123456789abcdef') for _ in range(ln))
            if s:
                i = rng.randrange(len(s)) if rng.random() < 0.6 else len(s) - 1
                s = s[:i] + rng.choice(NAME_ALPHABET) + s[i + 1:]
        elif c < 0.85:
            s = ''.join(rng.choice('0123456789abcdef') for _ in range(max(ln - 1, 0))) + rng.choice(['\n', '\n\n', ',', '\r'])
        else:
            s = ''.join(rng.choice(NAME_ALPHABET) for _ in range(ln))
        yield s


FIXED_NAMES = ['a' * 96, 'a' * 95, 'a' * 97, '', '\n', 'a' * 95 + '\n', 'a' * 96 + '\n', 'a' * 94 + '\n\n', '\n' * 96,
               ',' * 96, 'A' * 96, 'a' * 95 + 'g', 'g' + 'a' * 95, 'a' * 48 + '\n' + 'a' * 47, 'é' * 96, 'a' * 95 + 'é',
               '0' * 96, 'f' * 96, '/' * 96, ':' * 96, '`' * 96, 'a' * 95 + '\r', ' ' + 'a' * 95]


def check_name(run, model, s, kind):
    impl = bool(is_valid_blobhash(s))
    mod = model.call('valid_name', s=s.encode('utf-8').hex())
    case = {'op': 'valid_name', 's': s, 'kind': kind}
    run.case(case, nontrivial=True, sample=False)
    run.count('valid_name:' + ('accept' if impl else 'reject'))
    # the monitor's clause: every genuine blob hash is accepted; nothing of another length is
    if STRICT_HASH.fullmatch(s) and not impl:
        run.violation(case, f'genuine blob hash {s!r} rejected', signature=case)
    elif len(s) != 96 and impl:
        run.violation(case, f'{s!r} of length {len(s)} accepted as a blob hash', signature=case)
    else:
        run.compare('C18.valid_name', case, impl, mod)


def load_corpus():
    out = []
    if os.path.isdir(CORPUS):
        for nm in sorted(os.listdir(CORPUS)):
            if nm.endswith('.json'):
                out.append((nm, json.load(open(os.path.join(CORPUS, nm)))))
    return out


def main(run):
    model = vlib.Model('C18')
    rng = run.rng
    run.rule = ('histories: 2-6 real blobs (sha384 of random data, lengths around AES/size edges) plus dataless valid names '
                '(random hex, all commas, trailing newline) and invalid names; ops drawn with weights from complete / touch / '
                'crash_write (whole or partial file, then restart, sometimes after more external changes or an API call on the '
                'dead process) / publish (0-4 content blobs through the real create_stream with the chunk size patched small, one '
                'real 2 MiB-chunk stream) / publish_crash(k files written, j recorded) / delete (1-3 names, with or without rows, '
                'sometimes an invalid name) / stream_delete / ext_file (junk, true content, size 0) / ext_remove / ext_db (forced '
                'row; every fifth history runs with bandwidth tracking on and a blob-exchange connection still registered when a '
                'component restart stops the manager; sizes 0..100 and MAX_BLOB_SIZE-1, MAX_BLOB_SIZE, +1, 3x), ext_mark (should_announce=1 on a row) / '
                'in-process restart with the database write of a just completed blob still queued / restart (fresh objects, stop()+fresh, stop()+setup() on the same '
                'object; in a quarter of the histories some '
                'restarts switch config.save_blobs off or on), always ending with two restarts; '
                'ext_link (symlink to a regular file on another volume: a relocated blob; dangling symlink and sub-directory in every eighth '
                'history); daemon-start histories: 1-3 managed streams published through the real StreamManager.create with a claim, '
                'whole streams deleted through the real StreamManager.delete while other streams are known, '
                'their sd / content blob files removed, restored with true content, the sd blob damaged in place (non-JSON bytes; valid '
                'JSON with a wrong stream hash) or deleted through the API, restarts that run '
                'BlobManager.setup AND the real StreamManager.initialize_from_database (recover_streams, _load_stream); '
                'a 2000-row table (all finished, files vanished at positions 10-14 and 900-902 in hash order; not scaled '
                'down: the unchanged sync_missing_blobs reads no page-size constant); pre-state enumeration: every combination of (absent|file|symlink to file|directory|dangling symlink|symlink loop) '
                'x (no row|pending|finished) per name; a '
                '>500-file directory for the batch branch; name strings one edit away from a blob hash. distinct = distinct '
                'case content; non-trivial = more than one kind of operation.')
    import time as _time
    marks = [('start', _time.time())]

    def mark(name):
        marks.append((name, _time.time()))
    for nm, case in load_corpus():
        check_case(run, model, case, 'corpus:' + nm)
    mark('corpus')
    # all nine (disk, row) combinations in one directory, then every pair (quick) / triple (thorough)
    combos = [(d, r) for d in '-fsdlo' for r in '-pF']
    check_case(run, model, prestate_case([(hname(i), d, r) for i, (d, r) in enumerate(combos)]), 'prestate-all18')
    files_only = [(d, r) for d in '-fs' for r in '-pF']
    check_case(run, model, prestate_case([(hname(i), d, r) for i, (d, r) in enumerate(files_only)]), 'prestate-files6')
    if run.tier == 'thorough':
        for a in combos:
            for b in combos:
                for c in combos[::3]:
                    check_case(run, model, prestate_case([(hname(0), *a), (hname(1), *b), (hname(2), *c)]), 'prestate-3')
        run.exhaustive = True
    else:
        for a in combos:
            for b in combos[::4]:
                check_case(run, model, prestate_case([(hname(0), *a), (hname(1), *b)]), 'prestate-2')
    mark('prestates')
    for unrec in vlib.scaled(run.tier, [513], [499, 500, 501, 502, 513, 1001, 1002, 1003, 1600]):
        check_case(run, model, big_case(unrec), 'batch')
    # more than 900 finished rows (SQLiteStorage.MAX_QUERY_VARIABLES) with vanished files before and right after
    # position 900; the constant is not read by the unchanged sync_missing_blobs, so the instance is really large
    t_large = _time.time()
    check_case(run, model, vanished_in_pages_case(), 'large-table')
    if run.tier == 'thorough':
        check_case(run, model, vanished_in_pages_case(3000, (0, 1, 899, 900, 901, 1797, 1798, 1799, 1800, 2999)), 'large-table')
    run.notes.append({'large_table_case_seconds': round(_time.time() - t_large, 1)})
    mark('batch')
    # one stream with the real 2 MiB chunking
    real = {'blobs': {}, 'streams': [make_stream(rng, 0, real=True)],
            'ops': [{'op': 'publish', 'stream': 0}, {'op': 'restart', 'mode': 'new'},
                    {'op': 'delete', 'hs': [{'stream': 0, 'blob': 1}], 'from_db': False},
                    {'op': 'restart', 'mode': 'new'}, {'op': 'restart', 'mode': 'new'}]}
    check_case(run, model, real, 'real-chunk')
    mark('real-chunk')
    for i in range(vlib.scaled(run.tier, 3, 60)):
        check_case(run, model, gen_kill_case(rng, ['publish_crash', 'crash_write', None][i % 3]), 'real-kill')
    mark('real-kill')
    for _ in range(vlib.scaled(run.tier, 30, 600)):
        check_case(run, model, gen_daemon_case(rng), 'daemon-start')
    mark('daemon-starts')
    n_hist = vlib.scaled(run.tier, 140, 2500)
    for i in range(n_hist):
        nops = rng.choice([6, 12, 20, 30, 40])
        check_case(run, model, gen_case(rng, nops, with_dirs=(i % 8 == 7), inject=(i % 3 != 0), toggle_save=(i % 4 == 1),
                            bandwidth=(i % 5 == 2)), 'generated')
    mark('histories')
    for s in FIXED_NAMES:
        check_name(run, model, s, 'fixed')
    for s in gen_name_strings(rng, vlib.scaled(run.tier, 3000, 60000)):
        check_name(run, model, s, 'generated')
    mark('names')
    run.notes.append({'seconds_per_section': {b[0]: round(b[1] - a[1], 1) for a, b in zip(marks, marks[1:])}})
    run.partial = []
    run.supporting = {'not_modelled': 'a change of config.save_blobs inside one process lifetime (get_blob buffer-to-file branch), blob lengths in the table, content hashes of files '
                                      '(setup never reads file content), non-ASCII and non-regular-file directory entries other '
                                      'than directories, a publish whose hashes already exist (keys are random)'}
    model.close()


def replay(run, case):
    model = vlib.Model('C18')
    if case.get('op') == 'valid_name':
        check_name(run, model, case['s'], 'replay')
    else:
        case = {k: v for k, v in case.items() if k not in ('first_difference_at_op', 'op')}
        check_case(run, model, case, 'replay')
    model.close()


if __name__ == '__main__' and len(sys.argv) > 1 and sys.argv[1] == '--child':
    child_main(sys.argv[2:])
