"""C11  DHT routing table.  Correspondence of Model/C11.v (step, find_close, get_peer) with the real
lbry.dht.protocol.routing_table.TreeRoutingTable driven over generated histories (real PeerManager on a
virtual clock, probe coroutine whose outcome the generator chooses), plus the property monitor evaluated on
the implementation's own state after every operation."""
import asyncio
import errno
import glob
import ipaddress
import json
import os

import lbry.wallet  # noqa: F401  (import order, see DESIGN 2.3)
from lbry.dht import constants
from lbry.dht.error import RemoteException, TransportNotConnected
from lbry.dht.peer import PeerManager, make_kademlia_peer
from lbry.dht.protocol.protocol import KademliaProtocol
from lbry.dht.serialization.datagram import (decode_datagram, RequestDatagram, ResponseDatagram, ErrorDatagram,
                                              RESPONSE_TYPE, ERROR_TYPE)
from lbry.dht.protocol.routing_table import TreeRoutingTable

import vlib

BITS = 384
M = 1 << BITS
K = 8
CORPUS = os.path.join(os.path.dirname(os.path.abspath(__file__)), '..', 'corpus', 'C11')
BASE_IP = int(ipaddress.IPv4Address('11.0.0.1'))


_IP_S, _IP_I = {}, {}


def ip_str(a):
    s = _IP_S.get(a)
    if s is None:
        s = _IP_S[a] = str(ipaddress.IPv4Address(a))
        _IP_I[s] = a
    return s


def ip_int(s):
    a = _IP_I.get(s)
    if a is None:
        a = _IP_I[s] = int(ipaddress.IPv4Address(s))
    return a


def hx(i):
    return '%096x' % i


def key_str(addr, port):
    return f'{addr}:{port}'


# ------------------------------------------------------------------------------------------------
# implementation adapter
# ------------------------------------------------------------------------------------------------

class Impl:
    def __init__(self, own, bootstrap=False):
        self.own = own
        self.loop = asyncio.new_event_loop()
        self.now = 0
        self.loop.time = lambda: self.now
        self.pm = PeerManager(self.loop)
        # the table under test is the one a real KademliaProtocol owns, so that its RPC layer (KademliaRPC.find_node /
        # find_value, the callers of find_close_peers that answer remote requesters) can be queried as well; no
        # transport is attached: the RPC methods are called directly, nothing is sent
        self.protocol = KademliaProtocol(self.loop, self.pm, own.to_bytes(48, 'big'), '44.44.44.44', 4444, 3333,
                                         is_boostrap_node=bootstrap)
        self.rt = self.protocol.routing_table
        assert isinstance(self.rt, TreeRoutingTable)
        self.net, self.sent, self.sendfail_n = {'timeout': set(), 'error': set(), 'sendfail': set()}, [], 0

    def close(self):
        t = self.protocol.maintaing_routing_task
        if t is not None and not t.done():
            t.cancel()
            try:
                self.loop.run_until_complete(asyncio.gather(t, return_exceptions=True))
            except BaseException:  # noqa
                pass
        self.loop.close()

    @staticmethod
    def mk(idv, addr, port):
        nid = None if idv is None else idv.to_bytes(48, 'big')
        return make_kademlia_peer(nid, ip_str(addr), udp_port=(port or None))

    @staticmethod
    def triple(p):
        return [int.from_bytes(p.node_id, 'big'), ip_int(p.address), p.udp_port or 0]

    def table(self):
        return [{'lo': b.range_min, 'hi': b.range_max, 'peers': [self.triple(p) for p in b.peers]}
                for b in self.rt.buckets]

    def contacts(self):
        return [self.triple(p) for p in self.rt.get_peers()]

    def facts(self):
        """what add_peer may ask the peer manager about contacts of the table, read off the REAL PeerManager"""
        good, stale, fresh = [], [], []
        for p in self.rt.get_peers():
            k = key_str(ip_int(p.address), p.udp_port or 0)
            if self.pm.contact_triple_is_good(p.node_id, p.address, p.udp_port) is True:
                good.append(k)
            lr = self.pm.get_last_replied(p.address, p.udp_port)
            if not lr or lr + 60 < self.now:
                stale.append(k)
            elif lr + 60 > self.now:
                fresh.append(k)
        return {'good': good, 'stale': stale, 'fresh': fresh}

    def add(self, peer, dead, remote_exc=False):
        probed = []

        async def probe(p):
            probed.append(self.triple(p))
            if key_str(ip_int(p.address), p.udp_port or 0) in dead:
                if remote_exc:
                    raise RemoteException('boom')
                raise asyncio.TimeoutError()
            return b'pong'

        coro = self.rt.add_peer(peer, probe)
        try:
            coro.send(None)
            coro.close()
            ret = 'Suspended'
        except StopIteration as e:
            ret = repr(e.value)
        except Exception as e:  # noqa
            ret = type(e).__name__
        return ret, probed

    # -- the probe as production runs it: KademliaProtocol._add_peer -> get_rpc_peer(incumbent).ping() -> send_request
    #    -> _send -> transport.sendto; only the UDP socket beneath it is simulated ---------------------------------
    class _Transport:
        def __init__(self, impl):
            self.impl = impl

        def is_closing(self):
            # 'closed': the local UDP transport is closing at the moment of this add (listening port shut while the
            # routing table is still being maintained): _send raises TransportNotConnected, nothing is sent
            return bool(self.impl.net.get('closed'))

        def close(self):
            pass

        def sendto(self, data, addr):
            impl = self.impl
            k = key_str(ip_int(addr[0]), addr[1] or 0)
            msg = decode_datagram(data)
            if not isinstance(msg, RequestDatagram):
                return
            who = [p for p in impl.rt.get_peers() if (p.address, p.udp_port) == addr]
            impl.sent.append(impl.triple(who[0]) if who else [0, ip_int(addr[0]), addr[1] or 0])
            cls = impl.net
            if k in cls['sendfail']:        # the local socket refuses this very datagram; the contact is never asked
                impl.sendfail_n += 1
                code = errno.EWOULDBLOCK if impl.sendfail_n % 2 else errno.ENETUNREACH
                raise OSError(code, os.strerror(code))
            if k in cls['timeout'] or not who:
                return                      # lost: the ping times out after rpc_timeout
            nid = who[0].node_id
            if k in cls['error']:
                reply = ErrorDatagram(ERROR_TYPE, msg.rpc_id, nid, b'ValueError', b'boom').bencode()
            else:
                reply = ResponseDatagram(RESPONSE_TYPE, msg.rpc_id, nid, b'pong').bencode()
            impl.loop.call_soon(impl.protocol.datagram_received, reply, addr)

    def _attach(self, cls):
        if self.protocol.transport is None:
            self.protocol.connection_made(self._Transport(self))
        self.net = {k: set(cls.get(k, ())) for k in ('timeout', 'error', 'sendfail')}
        self.net['closed'] = bool(cls.get('closed'))
        self.sent, self.attempted = [], []
        if not getattr(self, '_send_request_noted', False):
            self._send_request_noted = True
            real_send_request = self.protocol.send_request

            async def send_request(peer, request):          # only notes whom a request was meant for, then delegates
                self.attempted.append(self.triple(peer))
                return await real_send_request(peer, request)
            self.protocol.send_request = send_request

    def _spin(self, n=12):
        for _ in range(n):
            self.loop.run_until_complete(asyncio.sleep(0))

    def ping(self, contact, cls):
        """any other rpc to a contact: KademliaProtocol.get_rpc_peer(contact).ping()"""
        self._attach(cls)
        start = self.now
        task = self.loop.create_task(self.protocol.get_rpc_peer(contact).ping())
        while not task.done():
            self._spin()
            if not task.done():
                self.now += 1
            if self.now - start > 60:
                task.cancel()
                self._spin(2)
                return 'Stuck', self.sent, self.now - start
        try:
            ret = 'reply' if task.result() == b'pong' else repr(task.result())
        except OSError:
            ret = 'OSError'
        except Exception as e:  # noqa
            ret = type(e).__name__
        return ret, self.sent, self.now - start

    def settle_events(self):
        """after an rpc outside the task: whatever the running task does with what that rpc queued (a reply re-queues the
        responder; a failure may queue its removal)"""
        if not self.task_started():
            return [], None
        self._record_table_calls()
        del self.events[:]
        dead = self.settle()
        return list(self.events), dead

    def _record_table_calls(self):
        """note every call routing_table_task makes on the table (instance-level wrappers that delegate to the real methods)"""
        if getattr(self, 'events', None) is not None:
            return
        self.events, self.depth = [], 0
        rt, real_add, real_remove = self.rt, self.rt.add_peer, self.rt.remove_peer

        async def add_peer(peer, probe):
            top = self.depth == 0
            if top:
                ev = {'kind': 'add', 'peer': self.triple(peer), 't0': self.now, 'before': self.contacts(),
                      'facts': self.facts(), 'sent0': len(self.sent), 'ret': 'Pending'}
                self.events.append(ev)
            self.depth += 1
            try:
                r = await real_add(peer, probe)
                if top:
                    ev['ret'] = repr(r)
                return r
            except OSError:
                if top:
                    ev['ret'] = 'OSError'
                raise
            except BaseException as e:  # noqa
                if top:
                    ev['ret'] = type(e).__name__
                raise
            finally:
                self.depth -= 1
                if top:
                    ev.update(t1=self.now, after=self.contacts(), table=self.table(), probed=self.sent[ev['sent0']:])

        def remove_peer(peer):
            if self.depth == 0 and peer.node_id:
                self.events.append({'kind': 'remove', 'peer': self.triple(peer), 't0': self.now, 'before': self.contacts()})
                r = real_remove(peer)
                self.events[-1].update(t1=self.now, table=self.table())
                return r
            return real_remove(peer)

        rt.add_peer, rt.remove_peer = add_peer, remove_peer

    def task_started(self):
        return self.protocol.maintaing_routing_task is not None

    def settle(self, start=None, hand_over=None):
        """let the running routing_table_task work on the virtual clock until it is idle (or dead); `hand_over` is called
        once, as soon as the task is suspended in a liveness probe or has finished its first contact"""
        proto = self.protocol
        task = proto.maintaing_routing_task
        start = self.now if start is None else start
        handed, idle = hand_over is None, 0
        while self.now - start < 90:
            self._spin()
            if task.done():
                break
            if not handed and (self.sent or (self.events and self.depth == 0)):
                hand_over()
                handed = True
                continue
            busy = self.depth > 0 or proto._to_add or proto._to_remove or proto._wakeup_routing_task.is_set()
            if handed and not busy:
                idle += 1
                if idle >= 2:
                    break
            self.now += 1
        if not handed:
            hand_over()
        dead = None
        if task.done():
            try:
                task.result()
                dead = 'returned'
            except BaseException as e:  # noqa
                dead = 'OSError' if isinstance(e, OSError) else type(e).__name__
        return dead

    def run_task(self, first, during, cls):
        """the real KademliaProtocol.routing_table_task: `first` is handed to KademliaProtocol.add_peer; as soon as the
        task is suspended in a liveness probe (or has finished that contact) the contacts of `during` are handed over too;
        then the loop runs on the virtual clock until the task is idle again.  Returns the recorded table calls."""
        self._attach(cls)
        self._record_table_calls()
        del self.events[:]
        proto = self.protocol
        if proto.maintaing_routing_task is None:
            proto.start()
        start = self.now
        proto.add_peer(first)

        def hand_over():
            for c in during:
                proto.add_peer(c)
        dead = self.settle(start, hand_over)
        return list(self.events), dead, [self.triple(p) for p in proto._to_add]

    def add_real(self, peer, cls):
        """cls: {'timeout': keys, 'error': keys, 'sendfail': keys}; every other contact answers its ping.
        Returns (result, contacts a ping was addressed to, virtual seconds that passed)"""
        self._attach(cls)
        start = self.now
        task = self.loop.create_task(self.protocol._add_peer(peer))
        spins = 0
        while not task.done():
            self.loop.run_until_complete(asyncio.sleep(0))
            spins += 1
            if not task.done() and spins % 12 == 0:
                self.now += 1               # nothing left to do at this instant: the virtual clock moves on
            if self.now - start > 60:
                task.cancel()
                self.loop.run_until_complete(asyncio.sleep(0))
                return 'Stuck', self.sent, self.now - start
        try:
            ret = repr(task.result())
        except (OSError, TransportNotConnected):
            ret = 'OSError'      # canonical label of "the probe's own exception left add_peer" (the model's ErrProbe)
        except Exception as e:  # noqa
            ret = type(e).__name__
        probed = self.sent or (self.attempted if self.net['closed'] else [])
        return ret, probed, self.now - start

    def remove(self, peer):
        try:
            r = self.rt.remove_peer(peer)
            return repr(r)
        except Exception as e:  # noqa
            return type(e).__name__

    def find_close(self, key, count, sender):
        try:
            kw = {}
            if count is not None:
                kw['count'] = count
            if sender is not None:
                kw['sender_node_id'] = sender.to_bytes(48, 'big')
            return [self.triple(p) for p in self.rt.find_close_peers(key.to_bytes(48, 'big'), **kw)]
        except Exception as e:  # noqa
            return type(e).__name__

    def rpc(self, which, requester, key):
        """KademliaRPC.find_node(requester_contact, key) / find_value(requester_contact, key)[b'contacts']"""
        try:
            contact = self.mk(*requester)
            kb = key.to_bytes(48, 'big')
            if which == 'node':
                res = self.protocol.node_rpc.find_node(contact, kb)
            else:
                res = self.protocol.node_rpc.find_value(contact, kb)[b'contacts']
            return [[int.from_bytes(nid, 'big'), ip_int(addr), port or 0] for nid, addr, port in res]
        except Exception as e:  # noqa
            return type(e).__name__

    def get_peer(self, idv):
        try:
            p = self.rt.get_peer(idv.to_bytes(48, 'big'))
            return None if p is None else self.triple(p)
        except Exception as e:  # noqa
            return type(e).__name__


# ------------------------------------------------------------------------------------------------
# the property's own statement, evaluated on the implementation (independent of the model)
# ------------------------------------------------------------------------------------------------

def monitor_table(own, tab, bootstrap=False):
    if not tab:
        return 'no buckets'
    if tab[0]['lo'] != 0:
        return f"first bucket starts at {tab[0]['lo']}, not 0"
    if tab[-1]['hi'] != M:
        return 'last bucket does not end at 2^384'
    for i, b in enumerate(tab):
        if not b['lo'] < b['hi']:
            return f'bucket {i} has an empty range'
        if i + 1 < len(tab) and b['hi'] != tab[i + 1]['lo']:
            d = min(b['hi'], tab[i + 1]['lo'])
            return (f"buckets {i},{i + 1} not contiguous: distance {d} is covered "
                    f"{sum(1 for x in tab if x['lo'] <= d < x['hi'])} times")
        if len(b['peers']) > K and not bootstrap:
            return f"bucket {i} holds {len(b['peers'])} > K contacts"
        for (pid, _, _) in b['peers']:
            if not b['lo'] <= (pid ^ own) < b['hi']:
                return f'contact {hx(pid)} sits in bucket {i} which does not cover its distance'
    ids = [p[0] for b in tab for p in b['peers']]
    if len(set(ids)) != len(ids):
        return 'a node id appears twice'
    keys = [(p[1], p[2]) for b in tab for p in b['peers']]
    if len(set(keys)) != len(keys):
        return 'an (address, port) appears twice'
    return None


SAME_ID_SIG = {'finding': 'C11-same-id-other-endpoint-replaces-without-probe'}
CLASS_HITS = []


def monitor_add(own, before, after, new, dead, ret, sendfail=(), probed=()):
    """before/after: flat contact lists; new: triple; dead: contacts that do NOT answer pings (timeout or error answer);
    sendfail: contacts the local socket cannot reach right now -- they still answer pings, they just cannot be asked"""
    local = any(key_str(q[1], q[2]) in sendfail for q in probed)
    if ret not in ('True', 'False') and not (ret == 'OSError' and local):
        return f'add_peer raised {ret}'
    aft = {tuple(p) for p in after}
    for q in before:
        if q[0] != new[0] and (q[1], q[2]) != (new[1], new[2]) and key_str(q[1], q[2]) not in dead:
            if tuple(q) not in aft:
                why = ('still answers pings (it was never asked: the probe could not be sent - local send failure or transport closing)'
                       if key_str(q[1], q[2]) in sendfail else 'answers the probe')
                return f'contact {hx(q[0])} {why} but was displaced by a newcomer at a different address'
    dn = new[0] ^ own
    closer = sum(1 for q in before if (q[0] ^ own) <= dn)
    if closer < K:
        if ret != 'True' or tuple(new) not in aft:
            return (f'newcomer {hx(new[0])} is closer than the K-th closest known contact '
                    f'({closer} known at least as close) but was not admitted (ret={ret})')
    return None


def monitor_same_id(before, after, new, dead, probed=()):
    """the literal clause for a newcomer that claims a KNOWN node id from another endpoint: the stored contact, if it
    still answers pings, may only lose its place after it was asked"""
    aft = {tuple(p) for p in after}
    for q in before:
        if q[0] == new[0] and (q[1], q[2]) != (new[1], new[2]) and key_str(q[1], q[2]) not in dead \
                and tuple(q) not in aft and not any(tuple(x) == tuple(q) for x in probed):
            return (f'contact {hx(q[0])[:12]}.. is stored at {ip_str(q[1])}:{q[2]} and answers pings there; the same node id '
                    f'arriving from {ip_str(new[1])}:{new[2]} replaced it without a ping to the stored endpoint')
    return None


def monitor_find(own, contacts, key, count, sender, res):
    if not isinstance(res, list):
        return f'find_close_peers raised {res}'
    cand = [p for p in contacts if p[0] != own and (sender is None or p[0] != sender)]
    cand.sort(key=lambda p: p[0] ^ key)
    want = cand[:(count or K)] if (count or K) > 0 else None
    if want is not None and res != want:
        return (f'find_close_peers(key={hx(key)}, count={count}) returned {len(res)} contacts that are not the '
                f'{len(want)} nearest in ascending XOR order')
    return None


def monitor_rpc(own, contacts, key, requester_id, res, which):
    """a closest-contacts query answered to a requester: precisely the min(K, eligible) known contacts nearest the
    key in ascending XOR order, excluding the node itself and the requester"""
    if not isinstance(res, list):
        return f'find_{which} raised {res}'
    cand = sorted((p for p in contacts if p[0] != own and p[0] != requester_id), key=lambda p: p[0] ^ key)
    want = cand[:K]
    if res != want:
        what = ('holds the requester itself' if any(p[0] == requester_id for p in res) else
                'holds the node itself' if any(p[0] == own for p in res) else
                f'holds {len(res)} contacts where {len(want)} are eligible and nearest' if len(res) != len(want) else
                'is not the nearest contacts in ascending XOR order')
        return (f'RPC find_{which}(requester={hx(requester_id)[:12]}.., key={hx(key)[:12]}..) with {len(cand)} eligible '
                f'contacts known: the answer {what}')
    return None


# ------------------------------------------------------------------------------------------------
# running one history on both sides
# ------------------------------------------------------------------------------------------------

def peer_fields(idv, addr, port):
    return {'id': idv, 'addr': addr, 'port': port}


class Outcome:
    def __init__(self):
        self.kind = None          # 'violation' | 'disagreement'
        self.what = None
        self.at = None
        self.impl = None
        self.model = None
        self.counts = {}
        self.max_buckets = 1
        self.compared = 0
        self.class_hits = []      # (op index, what): instances of the same-id-other-endpoint finding; they do not stop the case

    def count(self, k):
        self.counts[k] = self.counts.get(k, 0) + 1


def mirror_task(model, impl, own, out, n, events, cls, cur):
    """replays on the model, in the order observed, what the real routing_table_task did to the table (remove_peer / add_peer
    calls, with the virtual time that passed); returns (violation text, last implementation observation, last model answer)"""
    deadk = sorted(set(cls.get('timeout', [])) | set(cls.get('error', [])))
    bad, iobs, m = None, None, None
    for ev in events:
        if ev['t0'] > cur:
            model.call('tick', dt=ev['t0'] - cur)
        cur = ev.get('t1', ev['t0'])
        out.compared += 1
        if ev['kind'] == 'remove':
            m = model.call('remove', **peer_fields(*ev['peer']))
            iobs = {'ret': 'None', 'probed': [], 'table': ev['table']}
            m = {k: m[k] for k in ('ret', 'probed', 'table')}
            out.count('task:remove_peer')
        else:
            model.call('report', **peer_fields(*ev['peer']))      # idempotent: a reply hands the responder over as well
            m = model.call('drain_pick', dead=deadk, sendfail=cls.get('sendfail', []), wait=cur - ev['t0'],
                           **peer_fields(*ev['peer']))
            iobs = {'ret': ev['ret'], 'probed': ev.get('probed', []), 'table': ev.get('table'),
                    'facts': {k: sorted(v) for k, v in ev['facts'].items()}}
            m = {'ret': m.get('ret'), 'probed': m.get('probed'), 'table': m.get('table'),
                 'facts': {k: sorted(v) for k, v in m.get('facts', {}).items()}}
            out.count('task:add_peer:' + ev['ret'] + (':probe' if ev.get('probed') else ''))
            bad = monitor_table(own, ev.get('table') or []) or \
                monitor_add(own, ev['before'], ev.get('after', []), ev['peer'], set(deadk),
                            'False' if ev['ret'] == 'OSError' else ev['ret'],
                            set(cls.get('sendfail', [])), ev.get('probed', []))
            hit = monitor_same_id(ev['before'], ev.get('after', []), ev['peer'], set(deadk), ev.get('probed', []))
            if hit:
                out.class_hits.append((n, hit))
        if bad or vlib.canon(iobs) != vlib.canon(m):
            return bad, iobs, m
    if impl.now > cur:
        model.call('tick', dt=impl.now - cur)
    return bad, iobs, m


def execute(model, case, rp=True):
    """runs case['ops'] on the real table and on the model; returns an Outcome (kind None = all fine)"""
    own = int(case['own'], 16)
    out = Outcome()
    impl = Impl(own)
    try:
        mtab = model.call('reset', own=own, rp=rp)
        itab = impl.table()
        if itab != mtab:
            out.kind, out.what, out.at, out.impl, out.model = 'disagreement', 'C11.init', -1, itab, mtab
            return out
        for n, o in enumerate(case['ops']):
            kind = o[0]
            if kind == 't':
                impl.now += o[1]
                model.call('tick', dt=o[1])
                out.count('time')
                continue
            if kind in ('replied', 'failure', 'requested'):
                getattr(impl.pm, {'replied': 'report_last_replied', 'failure': 'report_failure',
                                  'requested': 'report_last_requested'}[kind])(ip_str(o[1]), o[2] or None)
                model.call(kind, addr=o[1], port=o[2])
                out.count('pm:' + kind)
                continue
            if kind == 'pmq':
                g = impl.pm.contact_triple_is_good(b'\x01' * 48, ip_str(o[1]), o[2] or None)
                lr = impl.pm.get_last_replied(ip_str(o[1]), o[2] or None)
                iobs = {'good': repr(g), 'lr': 'Stale' if (not lr or lr + 60 < impl.now) else
                        'Fresh' if lr + 60 > impl.now else 'Edge'}
                m = model.call('pm_query', addr=o[1], port=o[2])
                out.count('pmq:' + iobs['good'] + ':' + iobs['lr'])
                out.compared += 1
                if vlib.canon(iobs) != vlib.canon(m):
                    out.kind, out.what, out.at, out.impl, out.model = 'disagreement', 'C11.peer_manager', n, iobs, m
                    return out
                continue
            if kind == 'bad_peer':
                try:
                    make_kademlia_peer(bytes.fromhex(o[1]) if o[1] is not None else None, o[2], udp_port=o[3])
                    r = 'constructed'
                except ValueError:
                    r = 'ValueError'
                except Exception as e:  # noqa
                    r = type(e).__name__
                out.count('malformed-peer:' + r)
                if r != 'ValueError':
                    out.kind, out.what, out.at = 'violation', f'malformed contact {o[1:]} was not rejected ({r})', n
                    return out
                continue
            before = impl.contacts()
            if kind == 'add':
                idv, addr, port, dead = int(o[1], 16), o[2], o[3], o[4]
                facts = impl.facts()
                iret, iprobed = impl.add(impl.mk(idv, addr, port), set(dead), remote_exc=bool(len(o) > 5 and o[5]))
                m = model.call('sadd', dead=dead, **peer_fields(idv, addr, port))
                iobs = {'ret': iret, 'probed': iprobed, 'table': impl.table(),
                        'facts': {k: sorted(v) for k, v in facts.items()}}
                m['facts'] = {k: sorted(v) for k, v in m['facts'].items()}
                m.pop('pending', None)
                bad = monitor_table(own, iobs['table']) or \
                    monitor_add(own, before, impl.contacts(), [idv, addr, port], set(dead), iret)
                out.count('add:' + iret + (':probe-reply' if iprobed and iret == 'False' else
                                           ':probe-timeout' if iprobed else ''))
                hit = monitor_same_id(before, impl.contacts(), [idv, addr, port], set(dead), iprobed)
                if hit:
                    out.class_hits.append((n, hit))
            elif kind == 'radd':
                idv, addr, port, cls = int(o[1], 16), o[2], o[3], o[4]
                facts = impl.facts()
                iret, iprobed, dt = impl.add_real(impl.mk(idv, addr, port), cls)
                deadk = sorted(set(cls.get('timeout', [])) | set(cls.get('error', [])))
                if cls.get('closed'):
                    # transport closing: whoever is probed cannot be asked, the exception leaves add_peer at once, no ping
                    # effects, no time passes -- the table-level operation with a local failure for every contact
                    cls = dict(cls, sendfail=[key_str(q[1], q[2]) for q in before])
                    deadk = []
                    m = model.call('sadd', dead=[], sendfail=cls['sendfail'], **peer_fields(idv, addr, port))
                    if dt:
                        m['ret'] = f'(no time may pass, {dt} s did)'
                else:
                    m = model.call('sadd_real', dead=deadk, sendfail=cls.get('sendfail', []), wait=dt,
                                   **peer_fields(idv, addr, port))
                iobs = {'ret': iret, 'probed': iprobed, 'table': impl.table(),
                        'facts': {k: sorted(v) for k, v in facts.items()}}
                m['facts'] = {k: sorted(v) for k, v in m['facts'].items()}
                m.pop('pending', None)
                bad = monitor_table(own, iobs['table']) or \
                    monitor_add(own, before, impl.contacts(), [idv, addr, port], set(deadk), iret,
                                set(cls.get('sendfail', [])), iprobed)
                pk = key_str(iprobed[0][1], iprobed[0][2]) if iprobed else None
                out.count('real-probe:' + iret + (':no-probe' if not iprobed else
                                                  ':transport-closing' if cls.get('closed') else
                                                  ':local-send-failure' if pk in cls.get('sendfail', []) else
                                                  ':timeout' if pk in cls.get('timeout', []) else
                                                  ':error-answer' if pk in cls.get('error', []) else ':answered'))
                hit = monitor_same_id(before, impl.contacts(), [idv, addr, port], set(deadk), iprobed)
                if hit:
                    out.class_hits.append((n, hit))
            elif kind == 'rping':
                req, c1 = [int(o[1][0], 16), o[1][1], o[1][2]], o[2]
                k = key_str(req[1], req[2])
                cls = {c1: [k]} if c1 != 'reply' else {}
                t_begin = impl.now
                iret, _, dt = impl.ping(impl.mk(*req), cls)
                want = {'reply': 'reply', 'timeout': 'TimeoutError', 'error': 'RemoteException', 'sendfail': 'OSError'}[c1]
                model.call('ping', outcome={'reply': 'reply', 'sendfail': 'local'}.get(c1, 'dead'), wait=dt,
                           **peer_fields(*req))
                out.count('rpc-ping:' + iret)
                if iret != want:
                    out.kind, out.what, out.at, out.impl, out.model = 'disagreement', 'C11.ping', n, iret, want
                    return out
                events, task_dead = impl.settle_events()
                bad, iobs, m = mirror_task(model, impl, own, out, n, events, cls, t_begin + dt)
                if bad:
                    out.kind, out.what, out.at, out.impl = 'violation', bad, n, iobs
                    return out
                if iobs is not None and vlib.canon(iobs) != vlib.canon(m):
                    out.kind, out.what, out.at, out.impl, out.model = 'disagreement', 'C11.routing_table_task', n, iobs, m
                    return out
                continue
            elif kind == 'rrun':
                first = [int(o[1][0], 16), o[1][1], o[1][2]]
                during = [[int(x[0], 16), x[1], x[2]] for x in o[2]]
                cls = o[3]
                t_begin = impl.now
                events, task_dead, left = impl.run_task(impl.mk(*first), [impl.mk(*c) for c in during], cls)
                for c in [first] + during:
                    model.call('report', **peer_fields(*c))
                bad, iobs, m = mirror_task(model, impl, own, out, n, events, cls, t_begin)
                if not bad:
                    # the protocol-level clause: whoever was handed to KademliaProtocol.add_peer and is closer than the K-th
                    # closest known contact has to be in the table once the maintenance task is idle (or dead) again
                    final = impl.contacts()
                    offered = [tuple(ev['peer']) for ev in events if ev['kind'] == 'add']
                    for c in [first] + during:
                        if c[0] == own or any(q == c for q in final):
                            continue
                        closer = sum(1 for q in final if (q[0] ^ own) <= (c[0] ^ own))
                        if closer < K:
                            why = ('it reached TreeRoutingTable.add_peer' if tuple(c) in offered else
                                   'it never reached TreeRoutingTable.add_peer')
                            bad = (f'contact {hx(c[0])[:12]}.. was handed to KademliaProtocol.add_peer and is closer than the K-th '
                                   f'closest known contact ({closer} known at least as close) but is not in the table after the '
                                   f'maintenance task went idle: {why}; routing_table_task '
                                   f"{'died with ' + task_dead if task_dead else 'is alive'}, {len(left)} contact(s) left queued")
                            break
                out.count('task:run' + (':task-dead-' + task_dead if task_dead else '') +
                          (':reported-during-probe' if during and any(e.get('probed') for e in events) else ''))
                out.max_buckets = max(out.max_buckets, len(impl.rt.buckets))
                if bad:
                    out.kind, out.what, out.at, out.impl = 'violation', bad, n, iobs
                    return out
                if iobs is not None and vlib.canon(iobs) != vlib.canon(m):
                    if task_dead:
                        # the maintenance task is gone: show what that costs on the next contact this history hands over
                        for n2 in range(n + 1, len(case['ops'])):
                            o2 = case['ops'][n2]
                            if o2[0] != 'rrun':
                                continue
                            c = [int(o2[1][0], 16), o2[1][1], o2[1][2]]
                            impl.run_task(impl.mk(*c), [], o2[3])
                            final = impl.contacts()
                            closer = sum(1 for q in final if (q[0] ^ own) <= (c[0] ^ own))
                            if c[0] != own and c not in final and closer < K:
                                out.kind, out.at, out.impl = 'violation', n2, iobs
                                out.what = (f'contact {hx(c[0])[:12]}.. was handed to KademliaProtocol.add_peer and is closer than '
                                            f'the K-th closest known contact ({closer} known at least as close) but is never '
                                            f'admitted: routing_table_task died with {task_dead} during an earlier liveness probe')
                                return out
                    out.kind, out.what, out.at, out.impl, out.model = 'disagreement', 'C11.routing_table_task', n, iobs, m
                    return out
                continue
            elif kind == 'add_noid':
                iret, iprobed = impl.add(impl.mk(None, o[1], o[2]), set())
                m = model.call('add_noid')
                iobs = {'ret': iret, 'probed': iprobed, 'table': impl.table()}
                bad = monitor_table(own, iobs['table'])
                if not bad and impl.contacts() != before:
                    bad = 'adding a contact without node id changed the table'
                out.count('add_noid')
            elif kind == 'remove':
                idv, addr, port = int(o[1], 16), o[2], o[3]
                iret = impl.remove(impl.mk(idv, addr, port))
                m = model.call('remove', **peer_fields(idv, addr, port))
                iobs = {'ret': iret, 'probed': [], 'table': impl.table()}
                bad = monitor_table(own, iobs['table'])
                if not bad and iret != 'None':
                    bad = f'remove_peer raised {iret}'
                if not bad and [idv, addr, port] in impl.contacts():
                    bad = 'removed contact is still in the table'
                if not bad and sorted(impl.contacts()) != sorted(q for q in before if q != [idv, addr, port]):
                    bad = 'remove_peer changed other contacts'
                out.count('remove:' + ('present' if [idv, addr, port] in before else 'absent'))
            elif kind == 'remove_noid':
                iret = impl.remove(impl.mk(None, o[1], o[2]))
                m = model.call('remove_noid')
                iobs = {'ret': iret, 'probed': [], 'table': impl.table()}
                bad = monitor_table(own, iobs['table'])
                out.count('remove_noid')
            elif kind == 'find':
                key = int(o[1], 16)
                count, sender = o[2], (None if o[3] is None else int(o[3], 16))
                iobs = impl.find_close(key, count, sender)
                m = model.call('find_close', key=key, count=(0 if count is None else count), sender=sender)
                bad = monitor_find(own, before, key, count, sender, iobs)
                out.count('find:count=' + ('None' if count is None else 'neg' if count < 0 else
                                           str(count) if count <= K else '>K'))
            elif kind == 'rpc':
                key, req, which = int(o[1], 16), [int(o[2][0], 16), o[2][1], o[2][2]], o[3]
                iobs = impl.rpc(which, req, key)
                m = model.call('rpc_find_node' if which == 'node' else 'rpc_find_value', key=key, requester=req[0])
                bad = monitor_rpc(own, before, key, req[0], iobs, which)
                inside = any(q[0] == req[0] for q in before)
                out.count('rpc:' + which + (':requester-in-table' if inside else ':requester-unknown') +
                          (':own-id-lookup' if key == req[0] else '') +
                          (':known<=K' if len(before) <= K else ':known=K+1' if len(before) == K + 1 else ':known>K+1'))
            elif kind == 'get':
                idv = int(o[1], 16)
                iobs = impl.get_peer(idv)
                m = model.call('get_peer', id=idv)
                want = [q for q in before if q[0] == idv]
                bad = None if iobs == (want[0] if want else None) else f'get_peer({hx(idv)}) returned {iobs}'
                out.count('get:' + ('hit' if want else 'miss'))
            else:
                raise ValueError('unknown op ' + str(kind))
            out.max_buckets = max(out.max_buckets, len(impl.rt.buckets))
            if bad:
                out.kind, out.what, out.at, out.impl = 'violation', bad, n, iobs
                return out
            out.compared += 1
            if vlib.canon(iobs) != vlib.canon(m):
                out.kind, out.what, out.at, out.impl, out.model = 'disagreement', 'C11.' + kind, n, iobs, m
                return out
        return out
    finally:
        impl.close()


def execute_bootstrap(case):
    """implementation + monitor only, on a bootstrap-node table (first bucket of capacity 2^32; not modelled):
    everything the property says except the K bound must still hold"""
    own = int(case['own'], 16)
    impl = Impl(own, bootstrap=True)
    try:
        for n, o in enumerate(case['ops']):
            kind = o[0]
            before = impl.contacts()
            bad = None
            if kind == 't':
                impl.now += o[1]
            elif kind in ('replied', 'failure', 'requested'):
                getattr(impl.pm, {'replied': 'report_last_replied', 'failure': 'report_failure',
                                  'requested': 'report_last_requested'}[kind])(ip_str(o[1]), o[2] or None)
            elif kind == 'add':
                idv, addr, port, dead = int(o[1], 16), o[2], o[3], o[4]
                iret, _ = impl.add(impl.mk(idv, addr, port), set(dead))
                bad = monitor_table(own, impl.table(), True) or \
                    monitor_add(own, before, impl.contacts(), [idv, addr, port], set(dead), iret)
            elif kind == 'radd':
                idv, addr, port, cls = int(o[1], 16), o[2], o[3], o[4]
                deadk = set(cls.get('timeout', [])) | set(cls.get('error', []))
                iret, pr, _ = impl.add_real(impl.mk(idv, addr, port), cls)
                if cls.get('closed'):
                    cls, deadk = dict(cls, sendfail=[key_str(q[1], q[2]) for q in before]), set()
                bad = monitor_table(own, impl.table(), True) or \
                    monitor_add(own, before, impl.contacts(), [idv, addr, port], deadk, iret, set(cls.get('sendfail', [])), pr)
            elif kind == 'remove':
                iret = impl.remove(impl.mk(int(o[1], 16), o[2], o[3]))
                bad = monitor_table(own, impl.table(), True) or (None if iret == 'None' else f'remove_peer raised {iret}')
            elif kind == 'find':
                key, count, sender = int(o[1], 16), o[2], (None if o[3] is None else int(o[3], 16))
                bad = monitor_find(own, before, key, count, sender, impl.find_close(key, count, sender))
            elif kind == 'rpc':
                key, req = int(o[1], 16), [int(o[2][0], 16), o[2][1], o[2][2]]
                bad = monitor_rpc(own, before, key, req[0], impl.rpc(o[3], req, key), o[3])
            if bad:
                return n, 'bootstrap node: ' + bad
        return None
    finally:
        impl.close()


# ------------------------------------------------------------------------------------------------
# generators
# ------------------------------------------------------------------------------------------------

SPECIAL_OWN = [0, 1, M - 1, 1 << 383, (1 << 383) - 1, (1 << 383) + 1, int('5a' * 48, 16), int('a5' * 48, 16)]
DTS = [0, 1, 30, 59, 60, 61, 119, 120, 600, 659, 660, 661, 719, 720, 721, 3600]
BAD_PEERS = [
    ['bad_peer', '00' * 47, '11.0.0.1', 4444], ['bad_peer', '00' * 49, '11.0.0.1', 4444], ['bad_peer', '', '11.0.0.1', 4444],
    ['bad_peer', '11' * 48, '11.0.0.1', 1023], ['bad_peer', '11' * 48, '11.0.0.1', 65536], ['bad_peer', '11' * 48, '11.0.0.1', 0],
    ['bad_peer', '11' * 48, '127.0.0.1', 4444], ['bad_peer', '11' * 48, '10.1.2.3', 4444],
    ['bad_peer', '11' * 48, '192.168.0.1', 4444], ['bad_peer', '11' * 48, '100.64.0.1', 4444],
    ['bad_peer', '11' * 48, '192.88.99.7', 4444], ['bad_peer', '11' * 48, '224.0.0.1', 4444],
    ['bad_peer', '11' * 48, '0.0.0.0', 4444], ['bad_peer', '11' * 48, '::1', 4444], ['bad_peer', '11' * 48, 'example.com', 4444],
    ['bad_peer', '11' * 48, '169.254.1.1', 4444], ['bad_peer', '11' * 48, '240.0.0.1', 4444],
]


class Gen:
    """Builds one history adaptively: it looks at the implementation's current buckets to aim ids at exact bucket
    boundaries and midpoints, and at its contacts to build re-adds, address/id changes and bucket-emptying removals.
    The concrete operations are stored, so a stored case replays without the generator."""

    def __init__(self, rng, tier):
        self.rng = rng
        self.tier = tier
        self.macro_hits = 0

    def distance(self, rng, classes, tab):
        c = rng.random()
        if c < 0.55:
            p = rng.choice(classes)                    # number of prefix bits shared with the own id
            if p >= BITS:
                return 0
            top = 1 << (BITS - 1 - p)
            sub = rng.random()
            if sub < 0.1:
                return top                              # lowest distance with that prefix length
            if sub < 0.2:
                return 2 * top - 1                      # highest
            if sub < 0.3:
                return top + (top >> 1)                 # the next split point
            if sub < 0.45 and top > 16:
                return top + rng.randrange(0, 16)       # a cluster: more than K ids inside one small range
            return top + rng.randrange(top)
        if c < 0.85 and tab:
            b = rng.choice(tab)
            lo, hi = b['lo'], b['hi']
            mid = (hi - lo) // 2 + lo
            sp = hi - (hi - lo) // 2
            cand = [lo, hi - 1, mid, mid - 1, mid + 1, sp, sp - 1, lo + 1, hi - 2, hi, lo - 1]
            d = rng.choice(cand)
            return min(max(d, 0), M - 1)
        if c < 0.93:
            return rng.randrange(M)
        return rng.randrange(0, 64)                     # very close to the own id

    def make(self):
        rng = self.rng
        own = rng.choice(SPECIAL_OWN) if rng.random() < 0.2 else rng.getrandbits(BITS)
        nclass = rng.randrange(1, 8)
        classes = []
        if rng.random() < 0.15:          # a deep tree: consecutive prefix lengths, several contacts each
            nclass = 0
            classes = list(range(0, rng.randrange(8, 40)))
        for _ in range(nclass):
            c = rng.random()
            classes.append(rng.randrange(0, 6) if c < 0.5 else rng.randrange(0, BITS + 1) if c < 0.8
                           else rng.randrange(370, BITS + 1))
        n_addr = rng.choice([6, 12, 30, 80, 200, 1000, 1000])
        ports = rng.choice([[4444], [4444, 4445], [4444, 0, 65535, 1024]])
        n_ops = rng.randrange(30, vlib.scaled(self.tier, 140, 260))
        p_dead = rng.choice([0.0, 0.2, 0.5, 0.9])
        p_replied = rng.choice([0.05, 0.3, 0.7])
        start = rng.choice([0, 0, 1, 1000, 100000])
        self.w_remove = rng.choice([0.0, 0.02, 0.05, 0.12])
        self.real = rng.random() < 0.3            # drive the probe through the real protocol object
        self.p_sf = rng.choice([0.0, 0.15, 0.4])  # share of contacts the local socket cannot reach at each add
        if self.real and own in (0,):
            pass
        return own, classes, n_addr, ports, n_ops, p_dead, p_replied, start

    def stale_kth_macro(self, impl, ops, own):
        """A full bucket that may not split freely (index >= 1) and more than K contacts known: (1) a newcomer
        FARTHER than the K-th closest known contact is offered to that bucket with every probe answered (rejected;
        this is when the table looks at its K-th closest contact), (2) one of the K closest contacts goes away --
        by remove_peer or by the same-address eviction of the next add -- with no successful add in between,
        (3) a newcomer CLOSER than the new K-th closest but farther than the old one is offered to the same full
        bucket, every probe answered.  It has to be admitted.  Returns True when the operations were appended."""
        rng = self.rng
        tab = impl.table()
        srt = sorted(impl.contacts(), key=lambda q: q[0] ^ own)
        if len(srt) < K + 1:
            return False
        d_old, d_next = srt[K - 1][0] ^ own, srt[K][0] ^ own
        cands = []
        for i, b in enumerate(tab):
            if i >= 1 and len(b['peers']) >= K:
                lo2, hi2 = max(b['lo'], d_old + 1), min(b['hi'], d_next)     # closer than the new K-th, farther than the old
                inb = {q[0] for q in b['peers']}
                victims = [q for q in srt[:K] if q[0] not in inb]
                if lo2 < hi2 and victims and d_old + 1 < b['hi']:
                    cands.append((b, lo2, hi2, victims))
        if not cands:
            return False
        b, lo2, hi2, victims = rng.choice(cands)
        base = BASE_IP + 20000 + len(ops)
        # (1) the far newcomer that is turned away
        d1 = rng.randrange(max(b['lo'], d_next + 1), b['hi']) if max(b['lo'], d_next + 1) < b['hi'] else None
        if d1 is not None and all((q[0] ^ own) != d1 for q in srt):
            o = ['add', hx(d1 ^ own), base, 4444, [], 0]
            ops.append(o)
            impl.add(impl.mk(int(o[1], 16), o[2], o[3]), set())
            if sorted(impl.contacts(), key=lambda q: q[0] ^ own) != srt:
                return True                        # it was admitted after all (a split was possible): nothing to aim at
        # (2) one of the K closest goes away
        v = rng.choice(victims)
        evict = rng.random() < 0.4
        if not evict:
            o = ['remove', hx(v[0]), v[1], v[2]]
            ops.append(o)
            impl.remove(impl.mk(v[0], v[1], v[2]))
        # (3) the newcomer closer than the (new) K-th closest known contact, everybody answers the probe
        d2 = rng.choice([lo2, hi2 - 1, rng.randrange(lo2, hi2)])
        o = ['add', hx(d2 ^ own), v[1] if evict else base + 1, v[2] if evict else 4444, [], 0]
        ops.append(o)
        impl.add(impl.mk(int(o[1], 16), o[2], o[3]), set())
        return True

    def rpc_op(self, own, cons, tab, classes):
        """a closest-contacts query through the RPC layer: requester inside or outside the table, key = the requester's
        own id (a joining node looking itself up), another contact's id, a neighbour of either, the own id, random"""
        rng = self.rng
        if cons and rng.random() < 0.7:
            q = rng.choice(cons)
            req = [hx(q[0]), q[1], q[2] or 4444]
        else:
            req = [hx(self.distance(rng, classes, tab) ^ own), BASE_IP + 40000 + rng.randrange(1000), 4444]
        v = rng.random()
        if v < 0.45:
            key = int(req[0], 16)
        elif v < 0.6:
            key = int(req[0], 16) ^ (1 << rng.randrange(0, 12))
        elif v < 0.8 and cons:
            key = rng.choice(cons)[0]
        elif v < 0.9:
            key = own ^ rng.choice([0, 1, 1 << 383])
        else:
            key = rng.getrandbits(BITS)
        return ['rpc', hx(key), req, rng.choice(['node', 'node', 'value'])]

    def rpc_case(self):
        """K-1, K, K+1, K+2 or many contacts, then EVERY contact (and one stranger) queries its own id, the id of its
        nearest known neighbour and a random key through find_node / find_value"""
        rng = self.rng
        own = rng.choice(SPECIAL_OWN) if rng.random() < 0.2 else rng.getrandbits(BITS)
        n = rng.choice([K - 1, K, K + 1, K + 1, K + 2, K + 2, 12, 20, 40])
        spread = rng.choice(['random', 'random', 'cluster', 'prefix'])
        ops, ids = [], []
        while len(ids) < n:
            if spread == 'random':
                d = rng.getrandbits(BITS)
            elif spread == 'cluster':
                d = (1 << rng.choice([383, 382, 200])) + rng.randrange(1, 64)
            else:
                d = (1 << rng.randrange(370, 384)) + rng.getrandbits(20)
            if d and (d ^ own) not in ids:
                ids.append(d ^ own)
                ops.append(['add', hx(d ^ own), BASE_IP + 50000 + len(ids), 4444, [], 0])
        if rng.random() < 0.4 and ids:              # a removal in between: the answer has to follow the table
            j = rng.randrange(len(ids))
            ops.append(['remove', hx(ids[j]), BASE_IP + 50000 + j + 1, 4444])
        stranger = [hx(rng.getrandbits(BITS)), BASE_IP + 59999, 4444]
        reqs = [[hx(i), BASE_IP + 50000 + k + 1, 4444] for k, i in enumerate(ids)] + [stranger]
        for req in reqs:
            rid = int(req[0], 16)
            near = min((i for i in ids if i != rid), key=lambda i: i ^ rid, default=rid)
            for key in (rid, near, rng.getrandbits(BITS)):
                ops.append(['rpc', hx(key), req, 'node' if rng.random() < 0.7 else 'value'])
        return {'own': hx(own), 'ops': ops}

    def sendfail_case(self):
        """a full bucket that may not split, every contact alive; a newcomer for that bucket arrives while the local
        socket refuses the ping (OSError from sendto): nobody may be displaced.  Then the same newcomer with the ping
        answered (rejected), with the ping lost or answered by an error (the probed contact is replaced)."""
        rng = self.rng
        own = rng.choice([0, M - 1, 1 << 383]) if rng.random() < 0.2 else rng.getrandbits(BITS)
        half = 1 << 383
        ops = [['t', rng.choice([1, 1000])]]
        base = BASE_IP + 60000
        far = rng.sample(range(1, 1 << 20), K)
        keys = []
        for i, d in enumerate(far):
            ops.append(['radd', hx((half + d) ^ own), base + i, 4444, {}])
            keys.append(key_str(base + i, 4444))
        for d in rng.sample(range(1, 1 << 20), rng.choice([0, 1, 3])):          # some close contacts: the table is split
            ops.append(['radd', hx(((1 << rng.randrange(100, 380)) + d) ^ own), base + 100 + d % 50, 4444, {}])
        if rng.random() < 0.5:
            for i in rng.sample(range(K), rng.randrange(1, K + 1)):
                ops.append(['replied', base + i, 4444])
            ops.append(['t', rng.choice([30, 60, 61, 700])])
        new = (half + (1 << 21) + rng.randrange(1 << 20)) ^ own                  # farther than every incumbent
        ops.append(['radd', hx(new), base + 500, 4444, {'sendfail': list(keys)}])    # never asked -> must stay
        ops.append(['radd', hx(new), base + 500, 4444, {'closed': 1}])               # transport closing: never asked either
        ops.append(['find', hx(own), K, None])
        ops.append(['radd', hx(new), base + 500, 4444, {}])                          # asked, answers -> rejected
        ops.append(['radd', hx(new), base + 500, 4444,
                    {rng.choice(['timeout', 'error']): list(keys)}])                 # asked, dead -> replaced
        ops.append(['radd', hx(new ^ 1), base + 501, 4444, {'sendfail': keys[:4], 'timeout': keys[4:]}])
        return {'own': hx(own), 'ops': ops}

    def _far_table(self, own, base, n_near=None):
        """operations that build, through the real protocol, a table with a full far bucket [2^383, 2^384) that may not
        split for far newcomers (K far contacts, all answering) and a few near contacts"""
        rng = self.rng
        half = 1 << 383
        ops, far, near = [], [], []
        for i, d in enumerate(rng.sample(range(1, 1 << 20), K)):
            far.append([(half + d) ^ own, base + i, 4444])
        for j, d in enumerate(rng.sample(range(1, 1 << 20), rng.choice([1, 2, 3]) if n_near is None else n_near)):
            near.append([((1 << rng.randrange(100, 380)) + d) ^ own, base + 100 + j, 4444])
        order = far + near
        if rng.random() < 0.5:
            rng.shuffle(order)
        for c in order:
            ops.append(['radd', hx(c[0]), c[1], c[2], {}])
        return ops, far, near

    def moved_endpoint_case(self):
        """a contact X is talked to at endpoint A, then moves to endpoint B (A goes silent, the table learns X at B); later X is
        the contact a full bucket probes for a far newcomer: the ping has to go to B, where X answers, so X keeps its place"""
        rng = self.rng
        own = rng.choice([0, M - 1]) if rng.random() < 0.2 else rng.getrandbits(BITS)
        half = 1 << 383
        base = BASE_IP + 70000
        x = (half + rng.randrange(1, 1 << 20)) ^ own
        a, b = base + 900, base + 901
        ka = key_str(a, 4444)
        ops = [['t', rng.choice([1, 1000])], ['radd', hx(x), a, 4444, {}], ['rping', [hx(x), a, 4444], 'reply']]
        if rng.random() < 0.5:
            ops.append(['t', rng.choice([1, 61, 800])])
        ops.append(['radd', hx(x), b, 4444, {'timeout': [ka]}])          # X shows up at B; nobody answers at A any more
        others = []
        for i, d in enumerate(rng.sample(range(1 << 20, 1 << 21), K - 1)):
            others.append([(half + d) ^ own, base + i, 4444])
        others.append([((1 << rng.randrange(100, 380)) + 7) ^ own, base + 100, 4444])
        rng.shuffle(others)
        for c in others:
            ops.append(['radd', hx(c[0]), c[1], c[2], {'timeout': [ka]}])
        for c in others:                                                 # everybody else has just replied: X is the one to ask
            ops.append(['replied', c[1], c[2]])
        ops.append(['t', rng.choice([0, 1, 59])])
        new = (half + (1 << 22) + rng.randrange(1 << 20)) ^ own
        ops.append(['radd', hx(new), base + 500, 4444, {'timeout': [ka]}])   # X answers at B: newcomer refused
        ops.append(['get', hx(x)])
        ops.append(['radd', hx(new ^ 1), base + 501, 4444, {'timeout': [ka, key_str(b, 4444)]}])   # now X is really dead
        return {'own': hx(own), 'ops': ops}

    def queue_case(self):
        """the real routing_table_task: a far newcomer makes it probe a slow (or dead, or quick) incumbent; while that probe is
        in flight closer contacts are handed to KademliaProtocol.add_peer; none of them may be lost"""
        rng = self.rng
        own = rng.choice([0, M - 1]) if rng.random() < 0.2 else rng.getrandbits(BITS)
        half = 1 << 383
        base = BASE_IP + 80000
        ops, far, near = self._far_table(own, base)
        ops.insert(0, ['t', rng.choice([1, 1000])])
        fk = [key_str(c[1], c[2]) for c in far]
        new = [(half + (1 << 22) + rng.randrange(1 << 20)) ^ own, base + 500, 4444]
        during = [[((1 << rng.randrange(20, 99)) + rng.randrange(1, 1000)) ^ own, base + 600 + i, 4444]
                  for i in range(rng.choice([1, 1, 2]))]
        cls = rng.choice([{'timeout': fk}, {'timeout': fk}, {'error': fk}, {}])
        ops.append(['rrun', [hx(new[0]), new[1], new[2]], [[hx(c[0]), c[1], c[2]] for c in during], cls])
        ops.append(['find', hx(own), K, None])
        # a second round: the contacts now come one after the other
        c2 = [((1 << rng.randrange(20, 99)) + rng.randrange(1000, 2000)) ^ own, base + 700, 4444]
        ops.append(['rrun', [hx(c2[0]), c2[1], c2[2]], [], {}])
        ops.append(['get', hx(c2[0])])
        return {'own': hx(own), 'ops': ops}

    def task_survives_case(self):
        """one local send failure during a probe of the maintenance task; afterwards the task has to go on admitting"""
        rng = self.rng
        own = rng.choice([0, M - 1]) if rng.random() < 0.2 else rng.getrandbits(BITS)
        half = 1 << 383
        base = BASE_IP + 90000
        ops, far, near = self._far_table(own, base)
        ops.insert(0, ['t', rng.choice([1, 1000])])
        fk = [key_str(c[1], c[2]) for c in far]
        new = [(half + (1 << 22) + rng.randrange(1 << 20)) ^ own, base + 500, 4444]
        ops.append(['rrun', [hx(new[0]), new[1], new[2]], [], {'sendfail': fk}])      # the ping cannot be sent
        c = [((1 << rng.randrange(20, 99)) + rng.randrange(1, 1000)) ^ own, base + 600, 4444]
        ops.append(['rrun', [hx(c[0]), c[1], c[2]], [], {}])                          # closer than the K-th closest: admitted
        ops.append(['get', hx(c[0])])
        ops.append(['rrun', [hx(new[0]), new[1], new[2]], [], {rng.choice(['timeout', 'error']): fk}])
        return {'own': hx(own), 'ops': ops}

    def stale_kth_case(self):
        """the same scenario built from scratch (deterministic shape, random parameters): K far contacts filling the
        farthest bucket, K (or a few more) contacts close to the own id, then the three steps of stale_kth_macro"""
        rng = self.rng
        own = rng.choice(SPECIAL_OWN) if rng.random() < 0.2 else rng.getrandbits(BITS)
        a = rng.randrange(8, 382)                              # the close cluster lives just above distance 2^a
        half, quarter = 1 << 383, 1 << 382
        ops = []
        start = rng.choice([0, 0, 1000])
        if start:
            ops.append(['t', start])
        n = [0]

        def add(d, addr=None, port=4444):
            n[0] += 1
            ops.append(['add', hx(d ^ own), addr if addr is not None else BASE_IP + 30000 + n[0], port, [], 0])
            return [d ^ own, ops[-1][2], port]
        far_d = rng.sample(range(1, 5000), K)
        close_d = rng.sample(range(1, 1 << min(a, 12)), K + rng.choice([0, 0, 1, 3]))
        far = [half + quarter + x for x in far_d]
        close = [(1 << a) + x for x in close_d]
        order = [(d, 'f') for d in far] + [(d, 'c') for d in close]
        if rng.random() < 0.5:
            rng.shuffle(order)
        placed = {}
        for d, kind in order:
            placed[d] = add(d)
        if rng.random() < 0.5:
            for d in far:
                ops.append(['replied', placed[d][1], 4444])
            ops.append(['t', rng.choice([0, 1, 61, 700])])
        # (1) a far newcomer, farther than the K-th closest: turned away, everybody answers
        add(half + quarter + rng.randrange(5000, 1 << 40))
        if rng.random() < 0.3:
            ops.append(['find', hx(own), None, None])
        # (2) one of the K closest goes away (remove_peer, or the same-address eviction of step 3)
        victim = placed[sorted(close)[rng.randrange(K)]]
        evict = rng.random() < 0.4
        if not evict:
            ops.append(['remove', hx(victim[0]), victim[1], victim[2]])
        # (3) closer than the new K-th closest known contact (a far one when exactly K were close), in the full bucket
        d3 = half + rng.randrange(1, quarter) if rng.random() < 0.7 else half + rng.choice([0, 1, quarter - 1])
        if evict:
            add(d3, victim[1], victim[2])
        else:
            add(d3)
        ops.append(['find', hx(own), K, None])
        ops.append(['get', hx(d3 ^ own)])
        return {'own': hx(own), 'ops': ops}

    def history(self, model):
        """generate while executing on the implementation only (the model is run afterwards by execute)"""
        rng = self.rng
        own, classes, n_addr, ports, n_ops, p_dead, p_replied, start = self.make()
        impl = Impl(own)
        ops = []
        if start:
            ops.append(['t', start])
            impl.now += start
        pending_removals = []
        try:
            while len(ops) < n_ops:
                tab = impl.table()
                cons = impl.contacts()
                c = rng.random()
                if pending_removals:
                    q = pending_removals.pop()
                    o = ['remove', hx(q[0]), q[1], q[2]]
                elif c < 0.07:
                    o = ['t', rng.choice(DTS)]
                elif c < 0.13 and len(tab) > 1 and self.stale_kth_macro(impl, ops, own):
                    self.macro_hits += 1
                    continue
                elif c < 0.16 and tab:
                    # every contact of one bucket (full ones preferred) has just replied: the 'all fresh' branch
                    full = [b for b in tab if len(b['peers']) >= K] or tab
                    bk = rng.choice(full)
                    pf = rng.choice([0.0, 0.0, 0.3, 1.0])
                    for q in bk['peers']:
                        ops.append(['replied', q[1], q[2]])
                        impl.pm.report_last_replied(ip_str(q[1]), q[2] or None)
                        if rng.random() < pf:        # a failure not older than the reply: the contact is not 'good'
                            ops.append(['failure', q[1], q[2]])
                            impl.pm.report_failure(ip_str(q[1]), q[2] or None)
                    if rng.random() < 0.8:
                        # ... then the clock moves to just before / exactly at / just after the 60 s mark and a
                        # newcomer aimed at that very bucket arrives
                        dt = rng.choice([59, 60, 60, 61, 0, 1])
                        ops.append(['t', dt])
                        impl.now += dt
                        d = rng.randrange(bk['lo'], bk['hi'])
                        cons2 = impl.contacts()
                        o = ['add', hx(d ^ own), BASE_IP + 5000 + len(ops), 4444,
                             [key_str(q[1], q[2]) for q in cons2 if rng.random() < p_dead], 0]
                        ops.append(o)
                        impl.add(impl.mk(int(o[1], 16), o[2], o[3]), set(o[4]))
                    continue
                elif c < 0.07 + 0.18 * p_replied * 3 and cons:
                    q = rng.choice(cons)
                    o = [rng.choice(['replied', 'replied', 'replied', 'failure', 'failure', 'requested', 'pmq']), q[1], q[2]]
                elif c < 0.84 - self.w_remove:
                    d = self.distance(rng, classes, tab)
                    idv = d ^ own
                    addr, port = BASE_IP + rng.randrange(n_addr), rng.choice(ports)
                    if cons and rng.random() < 0.25:
                        q = rng.choice(cons)
                        v = rng.random()
                        if v < 0.4:
                            idv, addr, port = q                         # refresh
                        elif v < 0.7:
                            idv = q[0]                                  # same id, another address
                        else:
                            addr, port = q[1], q[2]                     # same address, another id
                    dead = [key_str(q[1], q[2]) for q in cons if rng.random() < p_dead]
                    o = ['add', hx(idv), addr, port, dead, 1 if rng.random() < 0.3 else 0]
                    if self.real:
                        # the probe is the real ping of KademliaProtocol._add_peer over a simulated socket; per contact:
                        # answers / ping lost (timeout) / error answer / the LOCAL sendto() raises OSError
                        if idv == own:
                            idv = own ^ 1                                # KademliaProtocol.add_peer never offers the own id
                        cls = {'timeout': [], 'error': [], 'sendfail': []}
                        for q in cons:
                            r = rng.random()
                            if r < self.p_sf:
                                cls['sendfail'].append(key_str(q[1], q[2]))
                            elif r < self.p_sf + p_dead:
                                cls[rng.choice(['timeout', 'error'])].append(key_str(q[1], q[2]))
                        if rng.random() < 0.06:
                            cls = {'closed': 1}
                        o = ['radd', hx(idv), addr, port, cls]
                elif c < 0.85 - self.w_remove:
                    o = rng.choice([['add_noid', BASE_IP + rng.randrange(n_addr), rng.choice(ports)],
                                    ['remove_noid', BASE_IP + rng.randrange(n_addr), rng.choice(ports)]])
                elif c < 0.86 - self.w_remove:
                    o = rng.choice(BAD_PEERS)
                elif c < 0.86 and cons:
                    v = rng.random()
                    if v < 0.45:
                        q = rng.choice(cons)
                        o = ['remove', hx(q[0]), q[1], q[2]]
                    elif v < 0.85 and len(tab) > 1:
                        # empty one whole bucket (middle buckets preferred)
                        i = rng.randrange(1, len(tab) - 1) if len(tab) > 2 and rng.random() < 0.7 else rng.randrange(len(tab))
                        pending_removals = [list(q) for q in tab[i]['peers']]
                        rng.shuffle(pending_removals)
                        continue
                    elif v < 0.93:
                        q = rng.choice(cons)
                        o = ['remove', hx(q[0]), BASE_IP + rng.randrange(n_addr), q[2]]   # right id, other address
                    else:
                        o = ['remove', hx(rng.getrandbits(BITS)), BASE_IP + rng.randrange(n_addr), rng.choice(ports)]
                elif c < 0.93:
                    v = rng.random()
                    if v < 0.35 and cons:
                        key = rng.choice(cons)[0] ^ (1 << rng.randrange(BITS) if rng.random() < 0.5 else 0)
                    elif v < 0.5:
                        key = own ^ rng.choice([0, 1, 2, 1 << 383])
                    elif v < 0.7 and tab:
                        b = rng.choice(tab)
                        key = min(rng.choice([b['lo'], b['hi'] - 1, b['hi']]), M - 1) ^ own
                    else:
                        key = rng.getrandbits(BITS)
                    count = rng.choice([None, None, 0, 1, 2, 7, 8, 9, 16, 1000, -1, -3])
                    sv = rng.random()
                    sender = None if sv < 0.4 else hx(rng.choice(cons)[0]) if cons and sv < 0.8 else \
                        hx(own) if sv < 0.9 else hx(rng.getrandbits(BITS))
                    o = ['find', hx(key), count, sender]
                elif c < 0.975:
                    o = self.rpc_op(own, cons, tab, classes)
                else:
                    idv = rng.choice(cons)[0] if cons and rng.random() < 0.6 else self.distance(rng, classes, tab) ^ own
                    o = ['get', hx(idv)]
                ops.append(o)
                # keep the generator's copy of the implementation in step (state only; checks are done in execute)
                if o[0] == 't':
                    impl.now += o[1]
                elif o[0] in ('replied', 'failure', 'requested'):
                    getattr(impl.pm, {'replied': 'report_last_replied', 'failure': 'report_failure',
                                      'requested': 'report_last_requested'}[o[0]])(ip_str(o[1]), o[2] or None)
                elif o[0] == 'add':
                    impl.add(impl.mk(int(o[1], 16), o[2], o[3]), set(o[4]))
                elif o[0] == 'radd':
                    impl.add_real(impl.mk(int(o[1], 16), o[2], o[3]), o[4])
                elif o[0] == 'remove':
                    impl.remove(impl.mk(int(o[1], 16), o[2], o[3]))
        finally:
            impl.close()
        return {'own': hx(own), 'ops': ops}


# ------------------------------------------------------------------------------------------------
# shrinking and reporting
# ------------------------------------------------------------------------------------------------

def shrink(model, case, kind, budget=400):
    """delta debugging on the operation list: keep the same kind of failure"""
    ops = list(case['ops'])
    o = execute(model, {'own': case['own'], 'ops': ops})
    if o.kind != kind:
        return case
    ops = ops[:o.at + 1]
    chunk = max(1, len(ops) // 2)
    while chunk >= 1 and budget > 0:
        i = 0
        progressed = False
        while i < len(ops) and budget > 0:
            trial = ops[:i] + ops[i + chunk:]
            budget -= 1
            r = execute(model, {'own': case['own'], 'ops': trial})
            if r.kind == kind:
                ops = trial[:r.at + 1]
                progressed = True
            else:
                i += chunk
        if chunk == 1 and not progressed:
            break
        chunk = max(1, chunk // 2) if chunk > 1 else (1 if progressed else 0)
    return {'own': case['own'], 'ops': ops}


def check_case(run, model, case, kind_label):
    o = execute(model, case)
    nontrivial = o.max_buckets > 1 or any(k.startswith('add:True') for k in o.counts)
    run.case(case, nontrivial=nontrivial, sample=(len(json.dumps(case)) < 1500))
    for k, v in o.counts.items():
        run.count(k, v)
    run.count('case:' + kind_label)
    run.count('max_buckets:' + ('1' if o.max_buckets == 1 else '2-4' if o.max_buckets <= 4 else
                                '5-9' if o.max_buckets <= 9 else '10+'))
    run.disagreements_checked += o.compared
    for at, what in o.class_hits:
        run.count('finding:same-id-other-endpoint')
        if len(CLASS_HITS) < 3:       # reported after everything else (see main), smallest histories preferred
            CLASS_HITS.append(({'own': case['own'], 'ops': case['ops'][:at + 1]}, what))
    if o.kind and len(run.violations) + len(run.disagreements) >= 3:
        # enough shrunk reproducers already; record the rest unshrunk
        if o.kind == 'violation':
            cut = {'own': case['own'], 'ops': case['ops'][:o.at + 1]}
            run.violation(cut, o.what, signature=cut)
        else:
            run.disagreement(o.what, dict(case, at=o.at), o.impl, o.model)
        return o
    if o.kind == 'violation':
        small = shrink(model, case, 'violation')
        r = execute(model, small)
        what = r.what if r.kind == 'violation' else o.what
        run.violation(small if r.kind == 'violation' else case, what,
                      signature={'own': small['own'], 'ops': small['ops']})
    elif o.kind == 'disagreement':
        small = shrink(model, case, 'disagreement')
        r = execute(model, small)
        if r.kind != 'disagreement':
            small, r = case, o
        run.disagreement(r.what, dict(small, at=r.at), r.impl, r.model)
    return o


def load_corpus():
    out = []
    for p in sorted(glob.glob(os.path.join(CORPUS, '*.json'))):
        with open(p) as f:
            out.append((os.path.basename(p), json.load(f)))
    return out


def old_join_witness(model):
    """the witness of C11_join_gap_refuted, replayed on the MODEL of the old _join_buckets (rp = false):
    it must exhibit the uncovered distance; on the real (repaired) code the same history must be clean."""
    for name, case in load_corpus():
        if name.startswith('join_gap'):
            own = int(case['own'], 16)
            model.call('reset', own=own, rp=False)
            last = None
            for o in case['ops']:
                if o[0] == 'add':
                    last = model.call('add', dead=o[4], good=[], stale=[], fresh=[],
                                      **peer_fields(int(o[1], 16), o[2], o[3]))
                elif o[0] == 'remove':
                    last = model.call('remove', **peer_fields(int(o[1], 16), o[2], o[3]))
            return last
    return None


def main(run):
    model = vlib.Model('C11')
    rng = run.rng
    n_cases = vlib.scaled(run.tier, 200, 6000)
    run.rule = ('one case = one history (30..140 operations, thorough ..260) on a fresh table: adds whose ids share a chosen number of '
                'prefix bits (0..384) with the own id or sit on exact boundaries of the CURRENT buckets (lo, hi-1, '
                'midpoint+-1, split point), refreshes, re-adds with changed address or changed id, adds/removes without '
                'node id, removals (present, absent, whole middle bucket emptied), malformed contacts, peer-manager '
                'events (replied/failure/requested) and clock steps around 60 s and 720 s, probe outcomes chosen per '
                'contact (timeout or RemoteException), find_close_peers with keys near contacts/own id/bucket edges and '
                'counts None,0,1..1000,negative; in 30% of the histories the probe is the REAL ping of KademliaProtocol._add_peer '
                '(get_rpc_peer().ping -> send_request -> _send) over a simulated socket whose per-contact behaviour is chosen: '
                'answers / datagram lost (timeout on the virtual clock) / error answer / local sendto() raises OSError / the '
                'transport is closing at that moment (TransportNotConnected); '
                'other rpcs to contacts (ping) and endpoint moves of a known id; the real KademliaProtocol.routing_table_task fed '
                'through KademliaProtocol.add_peer, also while one of its probes is in flight; get_peer, the same queries through KademliaRPC.find_node / find_value of a real '
                'KademliaProtocol owning the table (requester inside/outside the table, key = requester id, K-1..K+2 contacts); plus the macro "far newcomer turned away by a full bucket, then one of '
                'the K closest contacts removed or evicted, then a newcomer closer than the new K-th closest" inside random '
                'histories and as histories built from scratch. distinct = distinct history; non-trivial = the table split at '
                'least once or admitted a contact.')
    for name, case in load_corpus():
        check_case(run, model, case, 'corpus')
    w = old_join_witness(model)
    if w is not None:
        run.supporting['old_join_model_on_witness'] = w.get('ret')
        if w.get('ret') != 'IndexError':
            run.disagreement('C11.join_gap_refuted-witness', {'note': 'old-join model no longer shows the gap'}, None, w)
    gen = Gen(rng, run.tier)
    for _ in range(n_cases):
        case = gen.history(model)
        check_case(run, model, case, 'generated')
    # the K-th-closest scenario built from scratch: rejected far add, one of the K closest leaves, closer newcomer
    for _ in range(vlib.scaled(run.tier, 24, 600)):
        check_case(run, model, gen.stale_kth_case(), 'kth-after-removal')
    run.count('macro:kth-after-removal-in-random-history', gen.macro_hits)
    # the liveness probe through the real protocol with a local send failure at exactly that ping
    for _ in range(vlib.scaled(run.tier, 10, 200)):
        check_case(run, model, gen.sendfail_case(), 'probe-local-send-failure')
    # a contact that moved to another endpoint must be probed where the table knows it (seeded C11-15 shape)
    for _ in range(vlib.scaled(run.tier, 8, 150)):
        check_case(run, model, gen.moved_endpoint_case(), 'probe-after-endpoint-move')
    # the real routing_table_task with contacts handed over while a probe is in flight (seeded C11-16 shape)
    for _ in range(vlib.scaled(run.tier, 10, 200)):
        check_case(run, model, gen.queue_case(), 'task-queue-during-probe')
    # ... and after a local send failure of a probe (clean-tree finding 1)
    for _ in range(vlib.scaled(run.tier, 6, 100)):
        check_case(run, model, gen.task_survives_case(), 'task-after-local-send-failure')
    # closest-contacts queries through the RPC layer, every contact as requester, K-1..K+2 and more contacts known
    for _ in range(vlib.scaled(run.tier, 14, 300)):
        check_case(run, model, gen.rpc_case(), 'rpc-every-requester')
    # bootstrap-node tables (capacity 2^32 in the first bucket) are outside the model: monitor only
    for _ in range(vlib.scaled(run.tier, 12, 300)):
        case = gen.history(model)
        r = execute_bootstrap(case)
        run.case(dict(case, bootstrap=True), nontrivial=True, sample=False, validated=True)
        run.count('case:bootstrap-monitor-only')
        if r:
            run.violation(dict(case, bootstrap=True, ops=case['ops'][:r[0] + 1]), r[1],
                          signature={'own': case['own'], 'ops': case['ops'][:r[0] + 1], 'bootstrap': True})
    report_class_hits(run)
    run.partial = []
    model.close()


def report_class_hits(run):
    for case, what in sorted(CLASS_HITS, key=lambda cw: len(cw[0]['ops'])):
        run.violation(case, what, signature=SAME_ID_SIG)
    del CLASS_HITS[:]


def replay(run, case):
    model = vlib.Model('C11')
    if case.get('bootstrap'):
        r = execute_bootstrap(case)
        run.case(case, nontrivial=True)
        if r:
            run.violation(case, r[1], signature={'own': case['own'], 'ops': case['ops'][:r[0] + 1], 'bootstrap': True})
        model.close()
        return
    case = {'own': case['own'], 'ops': case['ops']}
    check_case(run, model, case, 'replay')
    report_class_hits(run)
    model.close()
