"""C07  Header chain.  Correspondence of Model/C07.v with the real lbry.wallet.header.Headers (subclasses that only
set max_target / genesis_hash / checkpoints / validate_difficulty) and lbry.wallet.util.ArithUint256, driven over
generated histories (open, connect, close, cut / overwrite the file, reopen, on-demand checkpointed chunks) on a real
temp file, plus the property monitor: an independent re-validation of the stored chain after every operation."""
import asyncio
import base64
import glob
import hashlib
import json
import os
import shutil
import struct
import tempfile
import zlib
from binascii import hexlify, unhexlify

import lbry.wallet  # noqa: F401  (import order, see DESIGN 2.3)
from lbry.wallet.header import Headers, InvalidHeader
from lbry.wallet.util import ArithUint256

import vlib

HS = 112
CHUNK = 1000
CORPUS = os.path.join(os.path.dirname(os.path.abspath(__file__)), '..', 'corpus', 'C07')
M256 = 1 << 256



# ------------------------------------------------------------------------------------------------
# primitives: hashlib directly, never through lbry.crypto
# ------------------------------------------------------------------------------------------------

def sha256(b):
    return hashlib.sha256(b).digest()


def sha512(b):
    return hashlib.sha512(b).digest()


def rmd160(b):
    return hashlib.new('ripemd160', b).digest()


def dsha(b):
    return sha256(sha256(b))


def pow_value(raw):
    h = sha512(dsha(raw))
    return int.from_bytes(dsha(rmd160(h[:32]) + rmd160(h[32:])), 'little')


ORACLES = {'sha256': sha256, 'sha512': sha512, 'ripemd160': rmd160}


def pow_of(cfg, raw):
    """proof-of-work value of a header under a configuration: cfg['pow_stub'] (header hash -> 32-byte PoW hash) replaces
    the PoW hash function for chosen headers -- the model's theorems hold for every function in that place, so the
    boundary pow == target / target + 1 can be exercised without 2^24 mining attempts"""
    stub = cfg.get('pow_stub')
    if stub:
        v = stub.get(dsha(raw).hex())
        if v is not None:
            return int.from_bytes(bytes.fromhex(v), 'little')
    return pow_value(raw)


def stub_oracles(cfg):
    """the same replacement on the model side: sha256 answers the stubbed value for the last inner digest of
    pow_hash(header hash)"""
    stub = cfg.get('pow_stub')
    if not stub:
        return ORACLES
    table = {}
    for hh, v in stub.items():
        h5 = sha512(bytes.fromhex(hh))
        table[sha256(rmd160(h5[:32]) + rmd160(h5[32:]))] = bytes.fromhex(v)
    o = dict(ORACLES)
    o['sha256'] = lambda b: table[b] if b in table else sha256(b)
    return o


# ------------------------------------------------------------------------------------------------
# reference rules used by the monitor (written from the protocol, not from the model)
# ------------------------------------------------------------------------------------------------

def ref_from_compact(c):
    size, word = c >> 24, c & 0x007fffff
    return word >> 8 * (3 - size) if size <= 3 else word << 8 * (size - 3)


def ref_compact(v):
    """Bitcoin's arith_uint256::GetCompact"""
    size = (v.bit_length() + 7) // 8
    c = v << 8 * (3 - size) if size <= 3 else v >> 8 * (size - 3)
    if c & 0x00800000:
        c >>= 8
        size += 1
    return c | size << 24


def fields(raw):
    ts, bits, nonce = struct.unpack('<III', raw[100:112])
    return ts, bits, nonce


def ref_next_target(max_t, pp, p):
    """the LBRY retarget rule with the implementation's rounded quotient (DESIGN section 7)"""
    if p is None:
        return max_t
    prev = p if pp is None else pp
    actual = fields(p)[0] - fields(prev)[0]
    d = actual - 150
    modulated = 150 + (abs(d) // 8) * (1 if d >= 0 else -1)
    clamped = max(132, min(modulated, 225))
    t = ref_from_compact(fields(p)[1])
    return min(max_t, int(((t * clamped) % M256) / 150))


def ref_check(cfg, pp, p, x):
    """None if header x is acceptable on top of p (pp below it), else the broken rule"""
    if p is None:
        if cfg['genesis'] is not None and dsha(x).hex() != cfg['genesis']:
            return 'genesis'
        return None
    if x[4:36] != dsha(p):
        return 'prev'
    if cfg['vd']:
        t = ref_next_target(cfg['max_target'], pp, p)
        if fields(x)[1] != ref_compact(t):
            return 'bits'
        # "meets ITS proof-of-work target": the target the header's own bits encode (lbrycrd: SetCompact(nBits)),
        # compared on full 256-bit integers; it never exceeds the exact retarget value t
        if pow_of(cfg, x) > ref_from_compact(fields(x)[1]):
            return 'pow'
    return None


def split(b):
    return [b[i:i + HS] for i in range(0, len(b) - len(b) % HS, HS)]


def ref_first_invalid(cfg, below, hs):
    """index and rule of the first unacceptable header of hs placed on top of the list `below`"""
    pp = below[-2] if len(below) > 1 else None
    p = below[-1] if below else None
    for i, x in enumerate(hs):
        why = ref_check(cfg, pp, p, x)
        if why:
            return i, why
        pp, p = p, x
    return None


def horizon(cfg):
    """where open() starts its link check in an aligned file: above the last checkpointed chunk, or at genesis when the
    configuration has no checkpoints at all"""
    return max(h for h, _ in cfg['checkpoints']) + CHUNK if cfg['checkpoints'] else 0


# ------------------------------------------------------------------------------------------------
# implementation adapter
# ------------------------------------------------------------------------------------------------

def classify(msg):
    if msg.startswith("genesis header doesn't match"):
        return 'genesis'
    if msg.startswith('previous hash mismatch'):
        return 'prev'
    if msg.startswith('bits mismatch'):
        return 'bits'
    if msg.startswith('insufficient proof of work'):
        return 'pow'
    return 'other:' + msg[:40]


def disp(hexs):
    """internal-order hex -> the display-order hex the code keeps"""
    return hexlify(bytes.fromhex(hexs)[::-1])


def make_class(cfg):
    class H(Headers):
        max_target = cfg['max_target']
        genesis_hash = None if cfg['genesis'] is None else disp(cfg['genesis'])
        validate_difficulty = cfg['vd']
        checkpoints = {h: disp(x).decode() for h, x in cfg['checkpoints']}
        why = None
        writes = 0
        pow_stub = dict(cfg.get('pow_stub') or {})

        @staticmethod
        def header_hash_to_pow_hash(header_hash):
            v = H.pow_stub.get(unhexlify(header_hash)[::-1].hex()) if H.pow_stub else None
            if v is not None:
                return hexlify(bytes.fromhex(v)[::-1])
            return Headers.header_hash_to_pow_hash(header_hash)

        def validate_header(self, height, current_hash, header, previous_hash, target):
            try:
                return super().validate_header(height, current_hash, header, previous_hash, target)
            except InvalidHeader as e:
                self.why = classify(e.message)
                raise

        def _write(self, height, verified_chunk):
            self.writes += 1
            return super()._write(height, verified_chunk)
    return H


class Impl:
    """runs the real Headers class on a real file"""

    def __init__(self, cfg, file):
        self.cls = make_class(cfg)
        self.dir = tempfile.mkdtemp(prefix='c07_')
        self.path = os.path.join(self.dir, 'headers')
        self.loop = asyncio.new_event_loop()
        self.h = None
        self.set_file(file)

    def set_file(self, file):
        if file is None:
            if os.path.exists(self.path):
                os.remove(self.path)
        else:
            with open(self.path, 'wb') as f:
                f.write(file)

    def get_file(self):
        if not os.path.exists(self.path):
            return None
        with open(self.path, 'rb') as f:
            return f.read()

    def run(self, coro):
        return self.loop.run_until_complete(coro)

    def io(self):
        return self.h.io.getvalue() if self.h is not None and self.h.io is not None else b''

    def state(self, want_io, extra=None):
        h = self.h
        buf = self.io()
        d = dict(extra or {})
        d.update(size=len(h), iolen=len(buf), missing=sorted(h.known_missing_checkpointed_chunks))
        if want_io:
            d['io'] = buf.hex()
        return d

    def step(self, op):
        kind = op['op']
        want_io = op.get('io', True)
        if kind == 'open':
            self.h = self.cls(self.path)
            self.run(self.h.open())
            return self.state(want_io)
        if kind == 'connect':
            self.h.why = None
            try:
                added = self.run(self.h.connect(op['start'], bytes.fromhex(op['batch'])))
                res = {'ok': added}
                if self.h.why is not None:
                    res['invalid'] = self.h.why
            except (IndexError, AssertionError) as e:
                res = {'error': type(e).__name__}
            return self.state(want_io, {'res': res})
        if kind == 'connect_pair':
            async def one(x):
                self.h.why = None
                try:
                    added = await self.h.connect(x['start'], bytes.fromhex(x['batch']))
                    res = {'ok': added}
                    if self.h.why is not None:
                        res['invalid'] = self.h.why
                except (IndexError, AssertionError) as e:
                    res = {'error': type(e).__name__}
                return res

            async def both():
                return await asyncio.gather(one(op['a']), one(op['b']))
            ra, rb = self.run(both())
            return self.state(want_io, {'res_a': ra, 'res_b': rb})
        if kind == 'close':
            self.run(self.h.close())
            f = self.get_file()
            d = {'filelen': len(f)}
            if want_io:
                d['file'] = f.hex()
            return d
        if kind == 'setfile':
            self.set_file(None if op['file'] is None else bytes.fromhex(op['file']))
            return None
        if kind == 'patchfile':
            f = self.get_file() or b''
            if 'cut' in op:
                f = f[:op['cut']]
            if 'data' in op:
                data = bytes.fromhex(op['data'])
                if data:
                    off = op['off']
                    f = f[:off] + bytes(max(0, off - len(f))) + data + f[off + len(data):]
            self.set_file(f)
            return {'filelen': len(f)}
        if kind == 'repair':
            self.run(self.h.repair(start_height=op['start']))
            return self.state(want_io)
        if kind in ('fetch', 'fetch_chunk'):
            chunk = bytes.fromhex(op['chunk'])
            called = []

            async def getter(start):
                called.append(start)
                co = zlib.compressobj(wbits=-15)
                return {'base64': base64.b64encode(co.compress(chunk) + co.flush()).decode()}
            self.h.chunk_getter = getter
            before = self.h.writes
            try:
                if kind == 'fetch':
                    self.run(self.h.ensure_chunk_at(op['height']))
                else:
                    self.run(self.h.fetch_chunk(op['height']))
                if not called:
                    res = 'has'
                elif self.h.writes > before:
                    res = 'stored'
                else:
                    res = 'ignored'
            except Exception as e:  # the code raises a bare Exception on a checkpoint mismatch
                res = 'mismatch' if str(e).startswith('Checkpoint mismatch') else 'error:' + type(e).__name__
            finally:
                self.h.chunk_getter = None
            return self.state(want_io, {'res': res})
        if kind == 'lookup':
            chunk = bytes.fromhex(op['chunk'])
            called = []

            async def getter(start):
                called.append(start)
                co = zlib.compressobj(wbits=-15)
                return {'base64': base64.b64encode(co.compress(chunk) + co.flush()).decode()}
            self.h.chunk_getter = getter
            before = self.h.writes
            height, via = op['height'], op['via']
            got = None
            try:
                if via == 'get':
                    got = self.run(self.h.get(height))
                elif via == 'hash':
                    got = self.run(self.h.hash(height))
                elif via == 'get_raw_header':
                    got = self.run(self.h.get_raw_header(height))
                else:
                    self.run(self.h.ensure_chunk_at(height))
                    if not 0 <= height <= self.h.height:
                        raise IndexError('out of bounds')
                    got = self.h._read(height)
                res = 'ok'
            except IndexError:
                res = 'IndexError'
            except Exception as e:  # the code raises a bare Exception on a checkpoint mismatch
                res = 'mismatch' if str(e).startswith('Checkpoint mismatch') else 'error:' + type(e).__name__
            finally:
                self.h.chunk_getter = None
            d = {'res': res}
            if res == 'ok':
                raw = self.h._read(height)
                # what the caller received must be that stored header
                if via == 'get':
                    good = Headers.serialize(got) == raw and got['block_height'] == height
                elif via == 'hash':
                    good = got == hexlify(dsha(raw)[::-1])
                else:
                    good = got == raw
                d['raw'] = raw.hex() if good else 'returned value is not the stored header: %r' % (got,)
            d['fetch'] = ('mismatch' if res == 'mismatch' else 'has' if not called else
                          'stored' if self.h.writes > before else 'ignored')
            return self.state(want_io, d)
        if kind == 'has_header':
            return bool(self.h.has_header(op['height']))
        raise ValueError(kind)

    def dispose(self):
        try:
            self.loop.run_until_complete(self.loop.shutdown_default_executor())
        except Exception:
            pass
        self.loop.close()
        shutil.rmtree(self.dir, ignore_errors=True)


# ------------------------------------------------------------------------------------------------
# monitor: the property's own statement evaluated on the implementation's behaviour
# ------------------------------------------------------------------------------------------------

class Monitor:
    def __init__(self, cfg, file):
        self.cfg = cfg
        self.file = file            # what is on disk, as the harness wrote / read it
        self.stored = file          # what the implementation (or the generator) stored before any damage
        self.tampered = True        # the file was not (only) written by close()
        self.io = b''
        self.size = 0
        self.w = 0                  # end of the most recently connected batch
        self.base = 0               # heights below base were never validated by connect (loaded from disk)
        self.bad = None
        self.tip_bad = None

    def fail(self, msg):
        if self.bad is None:
            self.bad = msg

    def check_fetch_window(self, what, start, io_after, size):
        """a fetched chunk may only ever touch its own 1000-block range: nothing below it changes (a gap is filled with
        zeros), nothing at or above start+1000 changes or appears"""
        before = self.io
        lo, hi = start * HS, (start + CHUNK) * HS
        k = min(len(before), lo)
        if io_after[:k] != before[:k] or io_after[k:lo] != bytes(max(0, min(len(io_after), lo) - k)):
            self.fail(f'{what}: bytes below the fetched range {start} changed')
        elif io_after[hi:] != before[hi:]:
            n_before, n_after = max(0, len(before) - hi) // HS, max(0, len(io_after) - hi) // HS
            self.fail(f'{what}: the reply for range {start} changed the store at or above height {start + CHUNK} '
                      f'({n_before} -> {n_after} headers there): headers outside the checkpointed range were '
                      f'overwritten or appeared without validation')
        elif size > max(self.size, start + CHUNK):
            self.fail(f'{what}: len(headers) grew to {size} beyond the fetched range')

    def check_checkpointed(self, buf, missing, when):
        """a checkpointed chunk counts as present only if what is stored hashes to the built-in checkpoint"""
        for start, want in self.cfg['checkpoints']:
            if start not in missing and dsha(buf[start * HS:(start + CHUNK) * HS]).hex() != want:
                zero = buf[start * HS:(start + CHUNK) * HS] == bytes(min(CHUNK * HS, max(0, len(buf) - start * HS)))
                self.fail(f'{when} chunk {start} counts as present (not in known_missing_checkpointed_chunks) but its '
                          f'content{" (all zero)" if zero else ""} does not hash to the checkpoint')

    def broken_links(self, buf, lo, hi):
        """heights h in (lo, hi) whose prev field does not hash-link to header h-1"""
        out = []
        for h in range(max(lo + 1, 1), hi):
            if buf[h * HS + 4:h * HS + 36] != dsha(buf[(h - 1) * HS:h * HS]):
                out.append(h)
        return out

    def on_open(self, io_after, size, missing=()):
        cfg, file = self.cfg, self.file or b''
        self.check_checkpointed(io_after, missing, 'after open()')
        whole = len(file) // HS
        hz = horizon(cfg)
        start = 0 if len(file) % HS else hz
        # with checkpoints open() re-pads [max checkpoint, +1000) with zeros when the repaired chain ended below it;
        # what was loaded is then no longer visible separately (the model comparison still covers every byte)
        padded = False
        if cfg['checkpoints'] and io_after != file[:len(io_after)]:
            # what was loaded = a prefix of the file (whole headers, possibly the bytes of a cut header which the
            # filler then completes), followed by nothing but zero filler up to the end of the last checkpointed range
            k = len(os.path.commonprefix([io_after, file]))
            padded = len(io_after) == hz * HS and io_after[k:] == bytes(len(io_after) - k)
        if not padded and io_after != file[:len(io_after)]:
            self.fail('loaded chain is not a prefix of the stored file')
        # first damaged link the code is supposed to find
        fb = None
        if start == 0 and whole >= 1 and cfg['genesis'] is not None and dsha(file[:HS]).hex() != cfg['genesis']:
            fb = 0
        if fb is None:
            bl = self.broken_links(file, start, whole)
            fb = bl[0] if bl else None
        # the tip has no successor whose link would expose damage: it has to obey link, bits and proof of work itself
        tip_bad = None
        if fb is None and whole >= max(start, 1) + 1:
            hs = split(file[(whole - 3) * HS:whole * HS]) if whole >= 3 else split(file[:whole * HS])
            tip_bad = ref_check(cfg, hs[-3] if len(hs) >= 3 else None, hs[-2], hs[-1])
        self.tip_bad = tip_bad
        if not cfg['checkpoints'] and not (cfg['genesis'] is None and start == 0):
            if fb is None and tip_bad and size != whole - 1:
                self.fail(f'the tip (height {whole - 1}) of the stored file breaks rule {tip_bad} but {size} of {whole} '
                          f'headers are loaded' + (': the damaged tip survived the restart' if size == whole else ''))
            if fb is None and not tip_bad and size != whole:
                self.fail(f'undamaged file of {whole} headers loaded as {size}')
            if fb is not None and size < max(0, fb - 1):
                self.fail(f'first damaged link at {fb} but only {size} headers kept')
        # a restart without any crash or damage loads exactly what close() stored
        # (genesis_hash = None is tolerated by validate_header but not by repair, which then drops everything it checks
        # from height 0; no shipped class has it -- modelled, not claimed)
        if not self.tampered and self.stored is not None and not padded and not tip_bad \
                and not (cfg['genesis'] is None and start == 0):
            if io_after != self.stored:
                n = len(self.stored) // HS
                self.fail(f'restart without a crash: {n} headers were stored, {size} are loaded'
                          + ('' if io_after[:len(self.stored)] == self.stored[:len(io_after)] else
                             ' and they are not a prefix of what was stored'))
        # link-detectable damage above the start of the check: the loaded chain is a prefix of what was STORED,
        # i.e. it does not contain the damaged header itself
        if fb is not None and self.stored is not None and fb > start and not padded:
            lo, hi = start * HS, size * HS
            if io_after[lo:hi] != self.stored[lo:hi]:
                d = next(h for h in range(start, size) if io_after[h * HS:(h + 1) * HS] != self.stored[h * HS:(h + 1) * HS])
                self.fail(f'loaded chain of {size} headers contains header {d} which differs from what was stored '
                          f'(first broken link at {fb})')
        # the loaded tip above the start of the check obeys link, bits and proof of work
        # (after a cut at a broken link the new tip is vouched for by the link of the header that was dropped)
        if fb is None and size >= max(start, 1) + 1 and size * HS <= len(io_after) and not padded \
                and (not tip_bad or size == whole):
            hs = split(io_after[max(0, size - 3) * HS:size * HS])
            why = ref_check(cfg, hs[-3] if len(hs) >= 3 else None, hs[-2], hs[-1])
            if why:
                self.fail(f'after the restart the loaded tip (height {size - 1}) breaks rule {why}')
        # the loaded chain above the checkpoint horizon must link
        bl = self.broken_links(io_after, hz, size)
        if bl:
            self.fail(f'loaded chain of {size} headers has a broken prev-hash link at height {bl[0]}')
        self.io, self.size = io_after, size
        self.w = size
        self.base = size

    def chain_ok(self, buf, upto):
        """full re-validation of heights [base.., upto) against the reference rules; heights below base came from
        disk (their proof of work was checked in an earlier session or they are checkpoint filler)"""
        hs = split(buf[:upto * HS])
        lo = self.base
        if lo == 0:
            return ref_first_invalid(self.cfg, [], hs)
        r = ref_first_invalid(self.cfg, hs[max(0, lo - 2):lo], hs[lo:])
        return None if r is None else (r[0] + lo, r[1])

    def on_connect(self, op, res, io_after, size):
        cfg = self.cfg
        start, batch = op['start'], bytes.fromhex(op['batch'])
        before = self.io
        n = len(batch) // HS
        aligned = len(batch) % HS == 0
        attach = start <= self.size
        inv = None
        if aligned and attach:
            inv = ref_first_invalid(cfg, split(before[:start * HS])[-2:], split(batch))
        ok = res.get('ok', 0) if 'error' not in res else 0
        if aligned and attach and n > 0 and inv is None:
            # a fully valid batch that extends the chain is stored whole
            if ok != n:
                self.fail(f'valid batch of {n} at {start} was not accepted: {res}')
            elif io_after[start * HS:(start + n) * HS] != batch:
                self.fail('accepted batch is not what is stored')
        else:
            first_bad = start + (inv[0] if inv else 0)
            if ok > 0 and inv is not None:
                self.fail(f'batch at {start} accepted ({ok}) although header {inv[0]} breaks rule {inv[1]}')
            if io_after[first_bad * HS:] != before[first_bad * HS:]:
                self.fail(f'bytes at or beyond the first invalid header (height {first_bad}) changed')
            if io_after[:first_bad * HS] != before[:first_bad * HS] and \
                    io_after[start * HS:first_bad * HS] != batch[:(first_bad - start) * HS]:
                self.fail('bytes below the first invalid header are neither the old ones nor the batch')
        if ok > 0:
            end = start + ok
            if start < self.base:
                self.base = max(0, start)      # re-validated from here relative to what lies below
                if start < 2:
                    self.base = 0
            if self.bad is None:
                r = self.chain_ok(io_after, end)
                if r is not None:
                    self.fail(f'after connect({start}, {ok} headers) the chain [0,{end}) breaks rule {r[1]} at '
                              f'height {r[0]}')
            self.w = end
        else:
            if io_after[:self.w * HS] != before[:self.w * HS]:
                self.fail('a rejected batch changed the validated chain')
        self.io, self.size = io_after, size

    def on_fetch(self, op, res, io_after, size):
        chunk = bytes.fromhex(op['chunk'])
        start = op['height'] // CHUNK * CHUNK
        cp = dict((h, x) for h, x in self.cfg['checkpoints'])
        if start in cp:
            self.check_fetch_window(f'fetch for height {op["height"]}', start, io_after, size)
        if io_after != self.io:
            if cp.get(start) != dsha(chunk).hex():
                self.fail(f'chunk at {start} stored although the reply ({len(chunk) // HS} headers'
                          f'{" + %d bytes" % (len(chunk) % HS) if len(chunk) % HS else ""}) does not hash to the '
                          f'checkpoint')
            elif io_after[start * HS:start * HS + len(chunk)] != chunk:
                self.fail('stored chunk differs from the fetched one')
            self.base = max(self.base, min(size, start + CHUNK))
            self.w = max(self.w, self.base)
        self.io, self.size = io_after, size

    def on_connect_pair(self, op, res, io_after, size):
        """two connect() calls in flight at once must act like two calls one after the other: whatever they leave
        behind is a chain that links, carries the demanded bits and meets its targets, with no filler in it"""
        lo = min(op['a']['start'], op['b']['start'])
        if lo < self.base:
            self.base = 0 if lo < 2 else lo
        if size * HS > len(io_after):
            self.fail(f'after two overlapping connect() calls len(headers) = {size} exceeds the {len(io_after) // HS} '
                      f'headers in the store')
        else:
            r = self.chain_ok(io_after, size)
            if r is not None:
                zero = io_after[r[0] * HS:(r[0] + 1) * HS] == bytes(HS)
                self.fail(f'after two overlapping connect() calls ({op["a"]["start"]}: {len(op["a"]["batch"]) // (2 * HS)} '
                          f'headers, {op["b"]["start"]}: {len(op["b"]["batch"]) // (2 * HS)} headers -> {res["res_a"]}, '
                          f'{res["res_b"]}) the stored chain of {size} headers breaks rule {r[1]} at height {r[0]}'
                          + (' (all-zero filler)' if zero else ''))
        self.io, self.size, self.w = io_after, size, size

    def on_lookup(self, op, res, io_after, size):
        """a lookup may store only a chunk that hashes to the checkpoint of its range; in a range without a
        checkpoint nothing unvalidated may enter the store: the chain stays byte for byte what connect validated"""
        chunk = bytes.fromhex(op['chunk'])
        start = op['height'] // CHUNK * CHUNK
        cp = dict((h, x) for h, x in self.cfg['checkpoints'])
        if start not in cp:
            if io_after != self.io or size != self.size:
                self.fail(f'lookup of height {op["height"]} via {op["via"]} changed the stored chain ({self.size} -> '
                          f'{size} headers) with a server chunk for the un-checkpointed range {start}')
            elif res.get('res') == 'ok' and op['height'] >= self.size:
                self.fail(f'lookup of height {op["height"]} beyond the {self.size} stored headers succeeded')
        else:
            if io_after != self.io and cp.get(start) != dsha(chunk).hex():
                self.fail(f'chunk at {start} stored although the reply ({len(chunk) // HS} headers'
                          f'{" + %d bytes" % (len(chunk) % HS) if len(chunk) % HS else ""}) does not hash to the '
                          f'checkpoint')
            self.check_fetch_window(f'lookup of height {op["height"]} via {op["via"]}', start, io_after, size)
            if io_after != self.io:
                self.base = max(self.base, min(size, start + CHUNK))
                self.w = max(self.w, self.base)
            if res.get('res') == 'ok' and dsha(io_after[start * HS:(start + CHUNK) * HS]).hex() != cp[start]:
                self.fail(f'lookup of checkpointed height {op["height"]} via {op["via"]} was served '
                          f'({"no server request" if res.get("fetch") == "has" else res.get("fetch")}) from a chunk '
                          f'that does not hash to the checkpoint')
        if not self.cfg['checkpoints'] and self.bad is None and size <= 64:
            r = self.chain_ok(io_after, size)
            if r is not None:
                self.fail(f'after the lookup the stored chain breaks rule {r[1]} at height {r[0]}')
        self.io, self.size = io_after, size

    def on_close(self, file_after):
        if file_after[:len(self.io)] != self.io:
            d = next((h for h in range(len(self.io) // HS + 1)
                      if file_after[h * HS:(h + 1) * HS] != self.io[h * HS:(h + 1) * HS]), 0)
            self.fail(f'after close() the file differs from the {len(self.io) // HS} headers in memory from height {d} on '
                      f'(file has {len(file_after) // HS} headers): what connect() stored did not reach the disk')
        elif file_after != self.io:
            extra = len(file_after) - len(self.io)
            self.fail(f'close() stored {len(self.io) // HS} headers but left {extra} stale bytes ({extra // HS} headers of '
                      f'an abandoned tail) behind them in the file')
        self.file = file_after
        self.stored = self.io           # what was stored is the chain in memory
        self.tampered = False


# ------------------------------------------------------------------------------------------------
# chain construction (mining at easy difficulty)
# ------------------------------------------------------------------------------------------------

DELTAS = [150] * 6 + [0, 1, 6, 7, 8, 14, 100, 142, 143, 149, 151, 157, 158, 159, 166, 300, 741, 742, 749, 750, 751,
                      757, 758, 759, 1000, 100000, -1, -8, -150, -1000]


def pack(version, prev, merkle, claim, ts, bits, nonce):
    return struct.pack('<I', version) + prev + merkle + claim + struct.pack('<III', ts, bits, nonce)


class Miner:
    def __init__(self, rng, cfg):
        self.rng, self.cfg = rng, cfg
        self.tries = 0

    def genesis(self, bits=None):
        rng = self.rng
        return pack(1, bytes(32), rng.randbytes(32), rng.randbytes(32), 1600000000 + rng.randrange(10 ** 6),
                    ref_compact(self.cfg['max_target']) if bits is None else bits, rng.randrange(2 ** 32))

    def target_for(self, chain):
        pp = chain[-2] if len(chain) > 1 else None
        return ref_next_target(self.cfg['max_target'], pp, chain[-1])

    def header(self, chain, delta=None, rule=None, version=None):
        """a successor of chain[-1]; rule=None: fully valid; otherwise valid except for that one rule"""
        rng, cfg = self.rng, self.cfg
        t = self.target_for(chain)
        if cfg['vd'] and rule != 'pow' and t < 1 << 242:
            raise TooHard()
        if delta is None:
            if t < cfg['max_target'] >> 4:
                delta = rng.choice([750, 1000, 100000])     # relax the difficulty again
            else:
                delta = rng.choice(DELTAS)
        ts = min(2 ** 32 - 1, max(0, fields(chain[-1])[0] + delta))
        bits = ref_compact(t)
        prev = dsha(chain[-1])
        want_pow_fail = False
        if rule == 'prev':
            prev = rng.choice([rng.randbytes(32), dsha(chain[-2]) if len(chain) > 1 else bytes(32),
                               prev[:31] + bytes([prev[31] ^ 1]), prev[::-1]])
        elif rule == 'bits':
            bits = rng.choice([bits + 1, bits - 1, ref_compact(min(cfg['max_target'], t * 2)) ^ 0, bits ^ 0x01000000,
                               ref_compact(cfg['max_target']), bits | 0x00800000])
            if bits == ref_compact(t):
                bits += 1
        elif rule == 'pow':
            want_pow_fail = True
        merkle, claim = rng.randbytes(32), rng.randbytes(32)
        ver = version if version is not None else rng.choice([1, 0x20000000])
        nonce = rng.randrange(2 ** 32)
        while True:
            raw = pack(ver, prev, merkle, claim, ts, bits & 0xffffffff, nonce)
            self.tries += 1
            good = (not cfg['vd']) or pow_value(raw) <= (ref_from_compact(bits & 0xffffffff) if rule != 'bits' else t)
            if good != want_pow_fail:
                return raw
            if not cfg['vd'] and want_pow_fail:
                return raw
            nonce = (nonce + 1) % 2 ** 32

    def extend(self, chain, n, **kw):
        out = list(chain)
        for _ in range(n):
            out.append(self.header(out, **kw))
        return out


def linked_chain(rng, n, first=None):
    """n headers that only link (no proof of work): enough for repair / open / checkpoint chunks"""
    out = [first or pack(1, bytes(32), rng.randbytes(32), bytes(32), 1600000000, 0x207fffff, 0)]
    for i in range(1, n):
        out.append(pack(1, dsha(out[-1]), i.to_bytes(32, 'little'), bytes(32), 1600000000 + 150 * i, 0x207fffff, i))
    return out


def easy_cfg(rng, chain0=None, vd=True):
    mt = rng.choice([(1 << 255) - 1, (1 << 255) - 1, 0x7fffff << 232, (1 << 254) + rng.randrange(1 << 254),
                     0x00ffff << 238, (1 << 253) - 1, rng.randrange(1 << 252, 1 << 255)])
    return {'max_target': mt, 'genesis': None, 'vd': vd, 'checkpoints': []}


# ------------------------------------------------------------------------------------------------
# running one history: implementation, monitor, model
# ------------------------------------------------------------------------------------------------

def mutate_field(rng, raw):
    """alter one header in one field"""
    field = rng.choice(['version', 'prev', 'merkle', 'claim', 'time', 'bits', 'nonce'])
    lo, hi = {'version': (0, 4), 'prev': (4, 36), 'merkle': (36, 68), 'claim': (68, 100), 'time': (100, 104),
              'bits': (104, 108), 'nonce': (108, 112)}[field]
    b = bytearray(raw)
    i = rng.randrange(lo, hi)
    if rng.random() < 0.7:
        b[i] ^= 1 << rng.randrange(8)
    else:
        b[i] = (b[i] + rng.randrange(1, 256)) % 256
    return bytes(b), field


class TooHard(Exception):
    pass


class Stop(Exception):
    """the monitor has failed: stop generating, report the history so far"""


def guarded(fn):
    def wrapper(run, model, *a, **kw):
        box = []
        try:
            return fn(run, model, *a, box=box, **kw)
        except Stop:
            return box[0].finish()
        except TooHard:
            # a retarget (possibly through the mod 2^256 wrap) produced a target the harness cannot mine for:
            # keep what was exercised so far, skip the rest of this history
            run.count('skipped:target-too-hard')
            return box[0].finish() if box else None
    return wrapper


class History:
    """builds a history step by step against the real implementation so that the generator can aim at the current
    state; afterwards the whole op list is replayed on the model in one call"""

    def __init__(self, run, model, cfg, file=None, kind='history', box=None):
        self.run, self.model, self.cfg = run, model, cfg
        self.file0 = file
        self.kind = kind
        self.ops, self.results = [], []
        self.impl = Impl(cfg, file)
        self.mon = Monitor(cfg, file)
        self.guard = box is not None
        self.case_extra = None
        if box is not None:
            box.append(self)

    def do(self, op):
        res = self.impl.step(op)
        self.ops.append(op)
        self.results.append(res)
        k = op['op']
        if k == 'open':
            self.mon.on_open(self.impl.io(), res['size'], res['missing'])
        elif k == 'connect':
            self.mon.on_connect(op, res['res'], self.impl.io(), res['size'])
        elif k in ('fetch', 'fetch_chunk'):
            self.mon.on_fetch(op, res['res'], self.impl.io(), res['size'])
        elif k == 'connect_pair':
            self.mon.on_connect_pair(op, res, self.impl.io(), res['size'])
        elif k == 'lookup':
            self.mon.on_lookup(op, res, self.impl.io(), res['size'])
            self.run.count('lookup:%s/%s' % (res['fetch'], res['res']))
        elif k == 'close':
            self.mon.on_close(self.impl.get_file())
        elif k in ('setfile', 'patchfile'):
            self.mon.file = self.impl.get_file()
            self.mon.tampered = True
            if k == 'setfile':
                st = self.mon.file
                if st is not None and 'undo' in op:
                    off, data = op['undo'][0], bytes.fromhex(op['undo'][1])
                    st = st[:off] + data + st[off + len(data):]
                self.mon.stored = st
        elif k == 'repair':
            self.mon.io, self.mon.size = self.impl.io(), res['size']
            self.mon.w = min(self.mon.w, res['size'])
        self.run.count('op:' + k)
        if k == 'connect':
            r = res['res']
            self.run.count('connect:' + (r.get('error') or r.get('invalid') or ('ok' if r.get('ok') else 'empty')))
        if self.mon.bad and self.guard:
            raise Stop()
        return res

    def connect(self, start, hs, io=True):
        batch = hs if isinstance(hs, (bytes, bytearray)) else b''.join(hs)
        op = {'op': 'connect', 'start': start, 'batch': bytes(batch).hex()}
        if not io:
            op['io'] = False
        return self.do(op)

    def size(self):
        return len(self.impl.h)

    def finish(self, nontrivial=True):
        case = {'kind': self.kind, 'cfg': self.cfg, 'file': None if self.file0 is None else self.file0.hex(),
                'ops': self.ops}
        if self.case_extra:
            case.update(self.case_extra)
        self.impl.dispose()
        self.run.case(case, nontrivial=nontrivial and len(self.ops) > 1)
        if self.mon.bad:
            self.run.violation(case, self.mon.bad,
                               signature={'case_sha1': hashlib.sha1(vlib.canon(case).encode()).hexdigest()})
            self.run.count('monitor:violation')
            return False
        self.model.oracles = stub_oracles(self.cfg)
        try:
            mod = self.model.call('run', cfg=case['cfg'], file=case['file'], ops=self.ops)
        finally:
            self.model.oracles = ORACLES
        return self.run.compare('C07.run/' + self.kind, case, self.results, mod)


def run_case(run, model, case):
    """replay a stored self-contained case"""
    if case.get('generate'):
        # scenarios too large to store as bytes (2 x 1000 headers) are regenerated from their own fixed seed
        import random as _random
        g, r = case['generate'], _random.Random(case.get('seed', 0))
        if g == 'checkpoint_restart':
            return gen_checkpoint_restart(run, model, r, case['variant'], case['cut'])
        if g == 'checkpoints':
            return gen_checkpoints(run, model, r, two=case['two'])
        if g == 'ledger_notifications':
            return gen_ledger_notifications(run, model, case['seed'], case.get('shape', 'fork-then-old-tip'))
        if g == 'builtin_checkpoints':
            return check_builtin_table(run)
        raise ValueError(g)
    if case.get('schedule'):
        return run_schedule(run, model, case['cfg'], case['schedule'])
    file = None if case.get('file') is None else bytes.fromhex(case['file'])
    h = History(run, model, case['cfg'], file, case.get('kind', 'replay'))
    for op in case['ops']:
        h.do(op)
    return h.finish()


# ------------------------------------------------------------------------------------------------
# generators
# ------------------------------------------------------------------------------------------------

def with_genesis(cfg, chain):
    c = dict(cfg)
    c['genesis'] = dsha(chain[0]).hex()
    return c


@guarded
def gen_history(run, model, rng, length, box=None):
    """random session(s) over a mined chain: valid extensions in random splits, forks at lower heights (shorter and
    longer than the old tail), altered headers, headers valid except for one rule, wrong start, misaligned and empty
    batches, close / cut / damage / reopen"""
    cfg = easy_cfg(rng, vd=rng.random() < 0.9)
    miner = Miner(rng, cfg)
    main = miner.extend([miner.genesis()], rng.randrange(3, 14))
    if rng.random() < 0.85:
        cfg = with_genesis(cfg, main)
        miner.cfg = cfg
    h = History(run, model, cfg, None, 'history', box)
    h.do({'op': 'open'})
    pos = 0                      # how much of `main` has been connected
    for _ in range(length):
        c = rng.random()
        size = h.size()
        if c < 0.30 or size == 0:
            # valid extension, possibly split into several calls
            if pos >= len(main) - 1:
                main = miner.extend(main, rng.randrange(1, 6))
            k = rng.randrange(1, len(main) - pos + 1)
            cuts = sorted(set(rng.randrange(1, k) for _ in range(rng.randrange(0, 3))) | {0, k}) if k > 1 else [0, k]
            for a, b in zip(cuts, cuts[1:]):
                h.connect(pos + a, main[pos + a:pos + b])
            pos += k
        elif c < 0.45:
            # fork at a lower height; then it becomes the main chain
            j = rng.randrange(1, max(2, min(pos, size)) + 0) if pos > 1 else 1
            j = min(j, pos)
            if j < 1:
                continue
            k = rng.choice([1, 1, 2, 3, max(1, pos - j - 1), pos - j, pos - j, pos - j + 1, pos - j + 3])
            k = max(1, k)
            fork = miner.extend(main[:j], k)
            r = h.connect(j, fork[j:])
            if r['res'].get('ok'):
                old = main
                main, pos = fork, len(fork)
                if rng.random() < 0.5 and len(old) > h.size() - 0 and h.size() > pos:
                    # the old chain grows: the server offers its continuation at len(headers)
                    old = miner.extend(old, 2) if len(old) <= h.size() else old
                    h.connect(h.size(), old[h.size():h.size() + 2])
        elif c < 0.60:
            # one header of an otherwise valid batch altered in one field
            if pos >= len(main) - 1:
                main = miner.extend(main, rng.randrange(2, 5))
            k = rng.randrange(1, len(main) - pos + 1)
            batch = list(main[pos:pos + k])
            i = rng.randrange(k)
            batch[i], _ = mutate_field(rng, batch[i])
            r = h.connect(pos, batch)
            if r['res'].get('ok'):
                main = main[:pos] + batch
                pos = len(main)
        elif c < 0.75:
            # valid except for one rule, somewhere inside a batch
            rule = rng.choice(['prev', 'bits', 'pow'])
            if pos == 0:
                continue
            good_before = rng.randrange(0, 3)
            base = miner.extend(main[:pos], good_before)
            bad = miner.header(base, rule=rule)
            tail = miner.extend(base + [bad], rng.randrange(0, 2))
            h.connect(pos, tail[pos:])
        elif c < 0.80:
            # wrong start heights
            if pos >= len(main):
                main = miner.extend(main, 2)
            start = rng.choice([size + 1, size + 2, max(0, pos - 1), pos + 1, 0, 1])
            h.connect(start, main[pos:pos + rng.randrange(1, 3)])
        elif c < 0.84:
            raw = b''.join(main[pos:pos + 2]) or main[0]
            h.connect(pos, raw[:rng.choice([1, 111, 113, len(raw) - 1])])
        elif c < 0.86:
            h.connect(rng.choice([pos, size, size + 1, 0]), b'')
        elif c < 0.90:
            # re-connect headers that are already stored
            if pos > 1:
                j = rng.randrange(0, pos)
                h.connect(j, main[j:rng.randrange(j + 1, pos + 1)])
        else:
            # restart: close, maybe cut / damage the file, reopen
            h.do({'op': 'close'})
            f = h.impl.get_file()
            d = rng.random()
            if d < 0.35 and len(f) > 0:
                h.do({'op': 'patchfile', 'cut': rng.randrange(0, len(f) + 1)})
            elif d < 0.6 and len(f) >= HS:
                off = rng.randrange(0, len(f))
                h.do({'op': 'patchfile', 'off': off, 'data': rng.randbytes(rng.choice([1, 3, 32, 112])).hex()})
            elif d < 0.7:
                h.do({'op': 'patchfile', 'off': len(f), 'data': rng.randbytes(rng.choice([1, 50, 112, 150])).hex()})
            h.do({'op': 'open'})
            size = h.size()
            # resume from what survived if it is still our chain
            buf = h.impl.io()
            keep = 0
            while keep < min(size, len(main)) and buf[keep * HS:(keep + 1) * HS] == main[keep]:
                keep += 1
            if keep < size:
                # damaged bytes survived below the horizon: continue on what is there if it links, else restart
                pos = keep
            else:
                pos = keep
    if rng.random() < 0.5:
        h.do({'op': 'close'})
    return h.finish()


@guarded
def gen_stale_tail(run, model, rng, box=None):
    """a fork shorter than the old tail, then the old chain's continuation offered at len(headers)"""
    cfg = easy_cfg(rng)
    miner = Miner(rng, cfg)
    n = rng.randrange(6, 12)
    a = miner.extend([miner.genesis()], n + 2)
    cfg = with_genesis(cfg, a)
    miner.cfg = cfg
    j = rng.randrange(2, n - 2)
    k = rng.randrange(1, n - j)
    b = miner.extend(a[:j], k)
    h = History(run, model, cfg, None, 'stale-tail', box)
    h.do({'op': 'open'})
    h.connect(0, a[:n])
    h.connect(j, b[j:])
    h.connect(n, a[n:n + 2])
    return h.finish()


@guarded
def reopen_cases(run, model, cfg, files, kind, box=None):
    """open() on each given file content (one model call for all of them)"""
    h = History(run, model, cfg, None, kind, box)
    for f in files:
        undo = None
        if isinstance(f, tuple):
            f, undo = f
        op = {'op': 'setfile', 'file': f.hex()}
        if undo is not None:
            op['undo'] = [undo[0], undo[1].hex()]
        h.do(op)
        h.do({'op': 'open', 'io': len(f) < 20000})
    return h.finish()


def gen_cuts(run, model, rng, chain, cfg, offsets, kind):
    blob = b''.join(chain)
    return reopen_cases(run, model, cfg, [blob[:m] for m in offsets], kind)


def gen_damage_small(run, model, rng, chain, cfg, positions, kind, tail=b'\x00'):
    """every damage position, in a misaligned file (one trailing byte) and -- tail=b'' -- in an aligned one: without
    checkpoints open() checks the links from genesis either way"""
    files = []
    for (hgt, off, data) in positions:
        b = bytearray(b''.join(chain))
        old = bytes(b[hgt * HS + off:hgt * HS + off + len(data)])
        b[hgt * HS + off:hgt * HS + off + len(data)] = data
        files.append((bytes(b) + tail, (hgt * HS + off, old)))
    return reopen_cases(run, model, cfg, files, kind)


def gen_big_reopen(run, model, rng, n, damage):
    """aligned files longer than the checkpoint horizon (1000 headers when there are no checkpoints)"""
    chain = linked_chain(rng, n)
    cfg = {'max_target': (1 << 255) - 1, 'genesis': dsha(chain[0]).hex(), 'vd': True, 'checkpoints': []}
    files = []
    for (hgt, lo, hi) in damage:
        b = bytearray(b''.join(chain))
        if hgt is not None:
            old = bytes(b[hgt * HS + lo:hgt * HS + hi])
            b[hgt * HS + lo:hgt * HS + hi] = rng.randbytes(hi - lo)
            files.append((bytes(b), (hgt * HS + lo, old)))
        else:
            files.append(bytes(b))
    return reopen_cases(run, model, cfg, files, 'big-reopen')


@guarded
def gen_checkpoints(run, model, rng, two, box=None):
    """checkpointed chunks: open pre-allocates, chunks are fetched on demand and only stored when they hash to the
    checkpoint; then headers are connected above the horizon and the file is reopened"""
    nchunks = 2 if two else 1
    chain = linked_chain(rng, nchunks * CHUNK)
    cps = [[i * CHUNK, dsha(b''.join(chain[i * CHUNK:(i + 1) * CHUNK])).hex()] for i in range(nchunks)]
    cfg = {'max_target': (1 << 255) - 1, 'genesis': dsha(chain[0]).hex(), 'vd': True, 'checkpoints': cps}
    miner = Miner(rng, cfg)
    h = History(run, model, cfg, None, 'checkpoints', box)
    h.do({'op': 'open', 'io': False})
    good = [b''.join(chain[i * CHUNK:(i + 1) * CHUNK]) for i in range(nchunks)]
    for i in reversed(range(nchunks)):
        hgt = i * CHUNK + rng.randrange(CHUNK)
        bad = bytearray(good[i])
        bad[rng.randrange(len(bad))] ^= 1 << rng.randrange(8)
        h.do({'op': 'has_header', 'height': hgt})
        h.do({'op': 'fetch', 'height': hgt, 'chunk': bytes(bad).hex(), 'io': False})
        h.do({'op': 'fetch', 'height': hgt, 'chunk': good[i][:-HS].hex(), 'io': False})
        h.do({'op': 'fetch', 'height': hgt, 'chunk': good[1 - i if two else 0].hex() if two else good[0][HS:].hex(),
              'io': False})
        h.do({'op': 'fetch', 'height': nchunks * CHUNK + 5, 'chunk': good[i].hex(), 'io': False})
        classes = reply_classes(rng, good[i])
        rng.shuffle(classes)
        for name, reply in classes[:4]:
            run.count('reply-length:' + name)
            h.do({'op': 'fetch', 'height': hgt, 'chunk': reply.hex(), 'io': False})
            h.do({'op': 'has_header', 'height': hgt})          # a refused reply leaves the chunk missing
        h.do({'op': 'fetch', 'height': hgt, 'chunk': good[i].hex(), 'io': False})
        h.do({'op': 'has_header', 'height': hgt})
        h.do({'op': 'fetch', 'height': hgt, 'chunk': bytes(bad).hex(), 'io': False})
    # connect mined headers above the checkpoints
    top = miner.extend(chain[-2:], rng.randrange(2, 6))[2:]
    h.connect(nchunks * CHUNK, top, io=False)
    alt, _ = mutate_field(rng, top[-1])
    h.connect(nchunks * CHUNK + len(top) - 1, [alt], io=False)
    h.do({'op': 'close', 'io': False})
    f = h.impl.get_file()
    d = rng.randrange(3)
    if d == 0:
        h.do({'op': 'patchfile', 'cut': len(f) - rng.randrange(1, 3 * HS)})
    elif d == 1:
        off = nchunks * CHUNK * HS + rng.randrange(0, len(top) * HS - 4)
        h.do({'op': 'patchfile', 'off': off, 'data': rng.randbytes(4).hex()})
    else:
        # damage inside the checkpointed region: detected by the chunk hash, not by repair
        h.do({'op': 'patchfile', 'off': rng.randrange(0, nchunks * CHUNK * HS - 4), 'data': rng.randbytes(4).hex()})
    h.do({'op': 'open', 'io': False})
    h.do({'op': 'close'})
    return h.finish()


def compact_band(t):
    """[lo, hi): the 256-bit values that share the compact encoding of t"""
    c = ref_compact(t)
    sh = 8 * max(0, (c >> 24) - 3)
    lo = (t >> sh) << sh
    return lo, lo + (1 << sh)


@guarded
def gen_pow_boundary(run, model, rng, box=None):
    """headers valid in every way whose proof-of-work value is placed (by replacing the PoW hash for exactly those
    headers) at the target, one above it, one below it, at the top of the band of values that round to the same
    compact bits, at the next compact step, at 0 and at 2^256-1; each offered alone and inside a batch followed by
    a header built on top of it"""
    cfg = easy_cfg(rng)
    miner = Miner(rng, cfg)
    main = miner.extend([miner.genesis()], rng.randrange(2, 7))
    cfg = with_genesis(cfg, main)
    miner.cfg = cfg
    t = miner.target_for(main)
    lo, hi = compact_band(t)
    values = [('bits-target', lo), ('bits-target+1', lo + 1), ('bits-target-1', max(0, lo - 1)),
              ('between-bits-and-exact', rng.randrange(lo + 1, t + 1) if t > lo else lo + 1),
              ('target', t), ('target+1', t + 1), ('target-1', max(0, t - 1)), ('band-top', hi - 1),
              ('next-step', min(M256 - 1, hi)), ('band-mid', rng.randrange(t + 1, hi) if hi > t + 1 else t + 1),
              ('zero', 0), ('max', M256 - 1), ('below', rng.randrange(0, t + 1))]
    rng.shuffle(values)
    values = values[:rng.randrange(6, len(values) + 1)]
    cands, stub = [], {}
    for name, v in values:
        x = miner.header(main, delta=rng.choice([150, 150, 100, 300]))
        stub[dsha(x).hex()] = v.to_bytes(32, 'little').hex()
        cands.append((name, v, x))
    cfg = dict(cfg)
    cfg['pow_stub'] = stub
    miner.cfg = cfg
    h = History(run, model, cfg, None, 'pow-boundary', box)
    h.do({'op': 'open'})
    n = len(main)
    h.connect(0, main)
    for name, v, x in cands:
        run.count('pow-boundary:' + name)
        follow = miner.header(main + [x])
        c = rng.random()
        if c < 0.4:
            h.connect(n, [x])
        elif c < 0.8:
            h.connect(n, [x, follow])
        else:
            h.connect(n - 1, [main[-1], x, follow])
    return h.finish()


VIAS = ['get', 'hash', 'get_raw_header', 'ensure_chunk_at']


def server_chunks(rng, miner, main, start):
    """what a server may answer for the range beginning at `start`: junk, a linked but unvalidated chunk, a fully
    valid continuation of our own chain, our own headers, nothing, a misaligned blob"""
    own = b''.join(main[start:start + CHUNK])
    cont = b''.join(miner.extend(main, 3)[start:])
    return [
        ('junk', b''.join(rand_header(rng) for _ in range(rng.randrange(1, 12)))),
        ('linked', b''.join(linked_chain(rng, rng.randrange(2, 12)))),
        ('own', own),
        ('own+valid', cont),
        ('own-altered', own[:-1] + bytes([own[-1] ^ 1]) if own else b''),
        ('empty', b''),
        ('misaligned', rng.randbytes(rng.choice([1, 111, 113, 300]))),
        ('zeros', bytes(HS * rng.randrange(1, 4))),
    ]


@guarded
def gen_lookups(run, model, rng, box=None):
    """chunk getter installed, no checkpoint for the range: look up stored heights, heights above the tip and far
    above it through get / hash / get_raw_header / ensure_chunk_at while the server answers with junk, a linked
    but unvalidated chunk, the right headers, a valid continuation ...; then keep connecting"""
    cfg = easy_cfg(rng, vd=rng.random() < 0.9)
    miner = Miner(rng, cfg)
    main = miner.extend([miner.genesis()], rng.randrange(4, 10))
    cfg = with_genesis(cfg, main)
    miner.cfg = cfg
    h = History(run, model, cfg, None, 'lookups', box)
    h.do({'op': 'open'})
    pos = rng.randrange(2, len(main))
    h.connect(0, main[:pos])
    for _ in range(rng.randrange(6, 14)):
        size = h.size()
        height = rng.choice([size, size, size + 1, size + 3, max(0, size - 1), rng.randrange(0, max(1, size)), 999, 1000,
                             1000 + rng.randrange(1000), 2005])
        start = height // CHUNK * CHUNK
        name, chunk = rng.choice(server_chunks(rng, miner, main, start if start < len(main) else 0))
        h.do({'op': 'lookup', 'via': rng.choice(VIAS), 'height': height, 'chunk': chunk.hex()})
        run.count('lookup-answer:' + name)
        if rng.random() < 0.3 and pos < len(main):
            k = rng.randrange(1, len(main) - pos + 1)
            h.connect(pos, main[pos:pos + k])
            pos += k
    if rng.random() < 0.5:
        h.do({'op': 'close'})
        h.do({'op': 'open'})
    return h.finish()


@guarded
def gen_lookups_zero_slot(run, model, rng, box=None):
    """a checkpoint for range 1000 only: open() pre-allocates, so the un-checkpointed range 0..999 holds a few
    validated headers followed by all-zero slots; look those up while the server answers with junk"""
    upper = linked_chain(rng, CHUNK)
    cfg0 = {'max_target': (1 << 255) - 1, 'genesis': None, 'vd': True, 'checkpoints': []}
    miner = Miner(rng, cfg0)
    main = miner.extend([miner.genesis()], rng.randrange(3, 7))
    cfg = {'max_target': (1 << 255) - 1, 'genesis': dsha(main[0]).hex(), 'vd': True,
           'checkpoints': [[CHUNK, dsha(b''.join(upper)).hex()]]}
    miner.cfg = cfg
    h = History(run, model, cfg, b''.join(main), 'lookups-zero-slot', box)
    h.do({'op': 'open', 'io': False})
    n = len(main)
    for height in [n, n + 1, rng.randrange(n, CHUNK), 999, rng.randrange(0, n), 0]:
        name, chunk = rng.choice(server_chunks(rng, miner, main, 0)[:5])
        h.do({'op': 'lookup', 'via': rng.choice(VIAS), 'height': height, 'chunk': chunk.hex(), 'io': False})
        run.count('lookup-answer:' + name)
    # the checkpointed range above: wrong chunk refused, right chunk stored
    bad = bytearray(b''.join(upper))
    bad[rng.randrange(len(bad))] ^= 1
    h.do({'op': 'lookup', 'via': rng.choice(VIAS), 'height': CHUNK + rng.randrange(CHUNK), 'chunk': bytes(bad).hex(),
          'io': False})
    for name, reply in rng.sample(reply_classes(rng, b''.join(upper)), 3):
        run.count('reply-length:' + name)
        h.do({'op': 'lookup', 'via': rng.choice(VIAS), 'height': CHUNK + rng.randrange(CHUNK), 'chunk': reply.hex(),
              'io': False})
    h.do({'op': 'lookup', 'via': rng.choice(VIAS), 'height': CHUNK + rng.randrange(CHUNK),
          'chunk': b''.join(upper).hex(), 'io': False})
    h.do({'op': 'lookup', 'via': 'get_raw_header', 'height': rng.randrange(0, n), 'chunk': b''.join(upper).hex()})
    return h.finish()


def reply_classes(rng, good):
    """server replies for a checkpointed range that contain (most of) the genuine chunk but have another length:
    the WHOLE reply has to hash to the checkpoint, so every one of them must be refused and leave no trace"""
    junk = lambda k: b''.join(rand_header(rng) for _ in range(k))
    linked = lambda k: b''.join(linked_chain(rng, k + 1, first=good[-HS:])[1:])
    return [('+1', good + junk(1)), ('+3-linked', good + linked(3)), ('+1000', good + linked(CHUNK)),
            ('+partial', good + rng.randbytes(rng.randrange(1, HS))), ('-1', good[:-HS]), ('-3', good[:-3 * HS]),
            ('-partial', good[:-rng.randrange(1, HS)]), ('+zeros', good + bytes(HS)),
            ('doubled', good + good)]


@guarded
def gen_short_fork_restart(run, model, rng, kind, rel='shorter', box=None):
    """connect, close, reopen, connect a valid fork at a lower height that leaves the chain SHORTER, close, reopen:
    the loaded chain must be exactly the stored one. rel: the fork is 'shorter' than the tail it replaces, of 'equal'
    length (the file keeps its size, every replaced byte still has to reach the disk), 'longer', or 'same' (the stored
    headers are connected again: nothing changes). kind: 'small' (a store below the 999-header horizon, where open()
    re-checks nothing), 'big' (1000+ headers without checkpoints), 'checkpointed' (one built-in checkpoint)"""
    if kind == 'small':
        cfg = easy_cfg(rng)
        miner = Miner(rng, cfg)
        full = miner.extend([miner.genesis()], rng.randrange(5, 12))
        cfg = with_genesis(cfg, full)
        miner.cfg = cfg
        base, file0 = 0, None
    else:
        chain = linked_chain(rng, CHUNK + (rng.randrange(1, 6) if kind == 'big' else 0))
        blob = b''.join(chain)
        cfg = {'max_target': (1 << 255) - 1, 'genesis': dsha(chain[0]).hex(), 'vd': True,
               'checkpoints': [[0, dsha(blob[:CHUNK * HS]).hex()]] if kind == 'checkpointed' else []}
        miner = Miner(rng, cfg)
        full = chain + miner.extend(chain[-2:], rng.randrange(6, 12))[2:]
        base, file0 = len(chain), blob
    run.count('short-fork-restart:%s/%s' % (kind, rel))
    big = kind != 'small'
    h = History(run, model, cfg, file0, 'short-fork-restart', box)
    h.do({'op': 'open', 'io': not big})
    if big and h.size() != base:
        # a store that ends in headers nobody validated: open() drops an invalid tip; build on what was loaded
        chain = split(h.impl.io())[:h.size()]
        full = chain + miner.extend(chain[-2:], len(full) - base)[2:]
        base = len(chain)
    h.connect(base, full[base:], io=not big)
    h.do({'op': 'close', 'io': not big})
    h.do({'op': 'open', 'io': not big})
    n = len(full)
    j = rng.randrange(base + 1, n - 2)
    if rel == 'shorter':
        k = rng.randrange(1, n - j - 1)           # strictly shorter than the old tail
    elif rel == 'longer':
        k = n - j + rng.randrange(1, 3)
    else:
        k = n - j                                 # same number of headers as the tail it replaces
    fork = full if rel == 'same' else miner.extend(full[:j], k)
    h.connect(j, fork[j:], io=not big)
    h.do({'op': 'close', 'io': not big})
    h.do({'op': 'open', 'io': not big})
    more = miner.extend(fork, 2)
    h.connect(len(fork), more[len(fork):], io=not big)
    h.connect(n, miner.extend(full, 1)[n:], io=not big)      # the abandoned chain's continuation at its old length
    h.do({'op': 'close', 'io': not big})
    h.do({'op': 'open', 'io': not big})
    return h.finish()


@guarded
def gen_overlapping_connects(run, model, rng, box=None):
    """two connect() calls in flight on one Headers object (asyncio.gather): a batch of 300 headers and, meanwhile, a
    short valid fork below it / its continuation above it / the same pair the other way round. The invariant is proved
    for sequences of atomic connect steps; the ledger serialises callers behind a lock, this pins the atomicity
    itself"""
    cfg = {'max_target': (1 << 248) - 1, 'genesis': None, 'vd': True, 'checkpoints': []}
    miner = Miner(rng, cfg)
    main = miner.extend([miner.genesis()], 352, delta=150)
    cfg = with_genesis(cfg, main)
    miner.cfg = cfg
    fork = miner.extend(main[:40], 5, delta=150)
    h = History(run, model, cfg, None, 'overlapping-connects', box)

    def pair(a, b):
        return h.do({'op': 'connect_pair', 'io': False,
                     'a': {'start': a[0], 'batch': b''.join(a[1]).hex()},
                     'b': {'start': b[0], 'batch': b''.join(b[1]).hex()}})
    big = (50, main[50:350])
    for other, first in [((40, fork[40:]), True), ((350, main[350:353]), True), ((40, fork[40:]), False),
                         ((49, main[49:52]), True)]:
        h.do({'op': 'setfile', 'file': None})
        h.do({'op': 'open'})
        h.connect(0, main[:50], io=False)
        run.count('overlap:%s-at-%d' % ('big-first' if first else 'big-second', other[0]))
        pair(big, other) if first else pair(other, big)
        h.connect(h.size(), miner.extend(split(h.impl.io())[-2:], 1, delta=150)[-1:] if h.size() >= 2 else [], io=False)
        h.do({'op': 'close', 'io': False})
    return h.finish()


def run_schedule(run, model, cfg, schedule):
    """several header stores alive in one process: schedule = [[store name, op], ...] executed in order, every store
    compared with its own model run; each reported case carries the whole schedule so that it replays on its own"""
    stores, done = {}, []
    try:
        for name, op in schedule:
            if name not in stores:
                stores[name] = History(run, model, cfg, None, 'stores/' + name)
                stores[name].guard = True
                stores[name].case_extra = {'schedule': done}
            done.append([name, op])
            stores[name].do(op)
    except Stop:
        pass
    ok = True
    for name in sorted(stores):
        ok = stores[name].finish() and ok
    return ok


def gen_two_stores(run, model, rng):
    """two header stores alive in one process (same built-in checkpoints, different files): what one store fetches or
    verifies must not change what the other one believes to have; a third store opened meanwhile starts from scratch"""
    chain = linked_chain(rng, 2 * CHUNK)
    good = [b''.join(chain[:CHUNK]), b''.join(chain[CHUNK:])]
    cfg = {'max_target': (1 << 255) - 1, 'genesis': dsha(chain[0]).hex(), 'vd': True,
           'checkpoints': [[0, dsha(good[0]).hex()], [CHUNK, dsha(good[1]).hex()]]}
    junk = b''.join(rand_header(rng) for _ in range(CHUNK))

    def look(height, chunk, via=None):
        return {'op': 'lookup', 'via': via or rng.choice(VIAS), 'height': height, 'chunk': chunk.hex(), 'io': False}
    opn, cls = {'op': 'open', 'io': False}, {'op': 'close', 'io': False}
    schedule = [
        ['A', opn], ['B', opn],
        ['A', look(CHUNK + rng.randrange(CHUNK), good[1])],                   # A fetches the upper chunk
        ['B', {'op': 'has_header', 'height': CHUNK + rng.randrange(CHUNK)}],
        ['B', look(CHUNK + rng.randrange(CHUNK), junk)],                      # B still has to fetch it, refuses junk
        ['B', look(rng.randrange(CHUNK), good[0])],                           # B fetches the lower chunk
        ['A', {'op': 'has_header', 'height': rng.randrange(CHUNK)}],
        ['A', look(rng.randrange(CHUNK), junk)],
        ['B', look(CHUNK + rng.randrange(CHUNK), good[1], 'get_raw_header')],
        ['A', look(rng.randrange(CHUNK), good[0], 'hash')],
        ['C', opn], ['C', {'op': 'has_header', 'height': 1500}], ['C', look(1500, junk)],
        ['A', cls], ['B', cls], ['B', opn], ['A', opn],
        ['B', {'op': 'has_header', 'height': 500}], ['A', {'op': 'has_header', 'height': 1500}],
    ]
    return run_schedule(run, model, cfg, schedule)


TIP_FIELDS = [('version', 0, 4), ('prev', 4, 36), ('merkle', 36, 68), ('claim', 68, 100), ('time', 100, 104),
              ('bits', 104, 108), ('nonce', 108, 112)]


@guarded
def gen_tip_damage(run, model, rng, box=None):
    """a validly stored chain whose LAST header is overwritten in one field (no successor exposes it through a link):
    open() has to validate the tip itself and drop exactly it. Aligned and misaligned files, no checkpoints."""
    cfg = {'max_target': (1 << 248) - 1, 'genesis': None, 'vd': True, 'checkpoints': []}
    miner = Miner(rng, cfg)
    main = miner.extend([miner.genesis()], rng.randrange(3, 8), delta=rng.choice([150, 150, 300]))
    cfg = with_genesis(cfg, main)
    blob = b''.join(main)
    files = []
    for name, lo, hi in TIP_FIELDS:
        for _ in range(2):
            b = bytearray(blob)
            i = len(blob) - HS + rng.randrange(lo, hi)
            old = bytes(b[i:i + 1])
            b[i] ^= 1 << rng.randrange(8)
            still = ref_first_invalid(cfg, [], split(bytes(b))) is None
            run.count('tip-damage:%s%s' % (name, '/still-valid' if still else ''))
            files.append((bytes(b) + rng.choice([b'', b'', b'\x01']), (i, old)))
    # the whole tip replaced; a one-header store; an untouched file
    files.append((blob[:-HS] + rng.randbytes(HS), (len(blob) - HS, blob[-HS:])))
    files.append((blob[:-HS] + bytes(HS), (len(blob) - HS, blob[-HS:])))
    files.append(blob)
    files.append(blob[:HS])
    return reopen_cases(run, model, cfg, files, 'tip-damage')


def check_builtin_table(run):
    """the BUILT-IN checkpoint table (lbry/wallet/checkpoints.py) and a fresh store opened with it: zero filler must never
    pass for a downloaded chunk, so no entry may be the hash of an all-zero (or empty, or shorter all-zero) chunk, and a
    fresh Headers(':memory:') has to report every checkpointed chunk as missing and no header of it as present"""
    import random as _random
    from lbry.wallet.checkpoints import HASHES
    case = {'generate': 'builtin_checkpoints'}
    run.case(case)
    run.count('builtin-checkpoints', len(HASHES))
    bad = None
    zero_hashes = {hexlify(dsha(bytes(HS * k))[::-1]).decode(): k for k in (0, 1, 999, CHUNK, CHUNK + 1)}
    keys = sorted(HASHES)
    if keys != list(range(0, len(keys) * CHUNK, CHUNK)):
        bad = 'the built-in checkpoint heights are not 0, 1000, 2000, ... without a gap'
    for h in keys:
        v = HASHES[h]
        if bad:
            break
        if not (isinstance(v, str) and len(v) == 64 and v == v.lower() and all(ch in '0123456789abcdef' for ch in v)):
            bad = f'built-in checkpoint {h} is not a 64-digit lower-case hex hash'
        elif v in zero_hashes:
            bad = (f'built-in checkpoint {h} is the hash of {zero_hashes[v]} all-zero headers: the zero filler of a chunk '
                   f'that was never downloaded would count as the checkpointed chunk')
    if bad is None and len(set(HASHES.values())) != len(HASHES):
        bad = 'two built-in checkpoints carry the same hash'
    if bad is None:
        loop = asyncio.new_event_loop()
        try:
            hd = Headers(':memory:')
            loop.run_until_complete(hd.open())
            missing = set(hd.known_missing_checkpointed_chunks)
            present = [h for h in keys if h not in missing]
            sample = _random.Random(7).sample(keys, 12) + [keys[0], keys[-1]]
            if present:
                bad = (f'fresh store with the built-in table: chunk {present[0]} counts as present although nothing was '
                       f'downloaded ({len(present)} such chunks)')
            elif len(hd) != keys[-1] + CHUNK:
                bad = f'fresh store with the built-in table has len {len(hd)}'
            else:
                for h in sample:
                    if hd.has_header(h + 500):
                        bad = f'fresh store with the built-in table: has_header({h + 500}) is True'
                        break
        finally:
            loop.close()
    if bad:
        run.violation(case, bad, signature={'site': 'lbry/wallet/checkpoints.py', 'what': bad[:60]})
        return False
    return True


def gen_ledger_notifications(run, model, seed, shape='fork-then-old-tip'):
    """the REAL Ledger.receive_header / update_headers on top of the real Headers (fake network underneath): while an
    on-demand download of a checkpointed chunk is in flight (it holds Headers.check_chunk_lock), two header
    notifications arrive -- one replaces the tip, one extends the old tip (or: two for the next height, or a
    fork below and the next height). Whatever the order of arrival, the outcome has to be that of the two connect()
    calls one after the other, and the stored chain has to validate."""
    import random as _random
    from lbry.wallet.ledger import Ledger
    from lbry.wallet.database import Database
    rng = _random.Random(seed)
    case = {'generate': 'ledger_notifications', 'seed': seed, 'shape': shape}
    run.case(case)
    run.count('ledger-notifications:' + shape)
    chain = linked_chain(rng, 2 * CHUNK)
    good = [b''.join(chain[:CHUNK]), b''.join(chain[CHUNK:])]
    cfg = {'max_target': (1 << 255) - 1, 'genesis': dsha(chain[0]).hex(), 'vd': True,
           'checkpoints': [[0, dsha(good[0]).hex()], [CHUNK, dsha(good[1]).hex()]]}
    miner = Miner(rng, cfg)
    try:
        top = miner.extend(chain[-2:], rng.randrange(3, 7))[2:]
        full = chain + top
        n = len(full)
        if shape == 'fork-then-old-tip':
            first = (n - 1, miner.extend(full[:-1], 1)[-1:])          # replaces the tip (locked path)
            second = (n, miner.extend(full, 1)[-1:])                  # extends the OLD tip (next height)
        elif shape == 'two-for-next-height':
            first = (n, miner.extend(full, 1)[-1:])
            second = (n, miner.extend(full, 1)[-1:])
        else:                                                        # 'deeper-fork-then-next'
            first = (n - 2, miner.extend(full[:-2], 2)[-2:])
            second = (n, miner.extend(full, 1)[-1:])
    except TooHard:
        run.count('skipped:target-too-hard')
        return True

    class FakeStream:
        def listen(self, *a, **k):
            return None

    class FakeNetwork:
        def __init__(self):
            self.on_header, self.on_status, self.requests = FakeStream(), FakeStream(), []

        async def retriable_call(self, fn, *a, **k):
            return await fn(*a, **k)

        async def get_headers(self, height, count=10000, b64=False):
            self.requests.append(height)
            return {'hex': '', 'base64': ''}

    cls = make_class(cfg)

    loop = asyncio.new_event_loop()
    out = {}

    async def scenario():
        hd = cls(':memory:')
        ledger = Ledger({'db': Database(':memory:'), 'headers': hd, 'network': FakeNetwork()})
        hd.checkpoints = cls.checkpoints      # Ledger.__init__ installs the main-net table; this store has its own
        await hd.open()
        waiting = {}

        async def getter(start):
            fut = waiting.get(start)
            if fut is not None:
                await fut
            co = zlib.compressobj(wbits=-15)
            data = good[start // CHUNK]
            return {'base64': base64.b64encode(co.compress(data) + co.flush()).decode()}
        hd.chunk_getter = getter
        await hd.ensure_chunk_at(CHUNK + 999)
        for i, raw in enumerate(top):
            await ledger.receive_header([{'height': 2 * CHUNK + i, 'hex': raw.hex()}])
        out['synced'] = len(hd)
        # the download of chunk 0 is in flight
        waiting[0] = loop.create_future()
        t1 = loop.create_task(hd.get(rng.randrange(CHUNK)))
        for _ in range(3):
            await asyncio.sleep(0)
        t2 = loop.create_task(ledger.receive_header([{'height': first[0], 'hex': b''.join(first[1]).hex()}]))
        for _ in range(3):
            await asyncio.sleep(0)
        t3 = loop.create_task(ledger.receive_header([{'height': second[0], 'hex': b''.join(second[1]).hex()}]))
        for _ in range(5):
            await asyncio.sleep(0)
        waiting[0].set_result(True)
        res = await asyncio.gather(t1, t2, t3, return_exceptions=True)
        out['errors'] = [type(r).__name__ for r in res if isinstance(r, Exception)]
        out['size'] = len(hd)
        out['io'] = hd.io.getvalue()
        out['missing'] = sorted(hd.known_missing_checkpointed_chunks)
    try:
        loop.run_until_complete(scenario())
    finally:
        loop.close()
    size, buf = out['size'], out['io']
    bad = None
    if out['synced'] != n:
        bad = f'the {len(top)} tip notifications delivered one by one left len(headers) = {out["synced"]}, expected {n}'
    elif out['errors']:
        bad = f'a header notification / lookup raised {out["errors"]}'
    elif size * HS > len(buf):
        bad = f'len(headers) = {size} exceeds the store'
    else:
        inv = ref_first_invalid(cfg, chain[-2:], split(buf[2 * CHUNK * HS:size * HS]))
        if buf[:2 * CHUNK * HS] != good[0] + good[1]:
            bad = 'the checkpointed chunks are not what the server delivered'
        elif inv is not None:
            bad = (f'two header notifications ({shape}: heights {first[0]} and {second[0]}) delivered while a chunk '
                   f'download was in flight left {size} headers whose chain breaks rule {inv[1]} at height '
                   f'{2 * CHUNK + inv[0]}')
    if bad:
        run.violation(case, bad, signature={'generate': 'ledger_notifications', 'seed': seed, 'shape': shape})
        return False
    # model: the same calls as atomic steps one after the other
    lk = lambda hgt, chunk: {'op': 'lookup', 'via': 'get_raw_header', 'height': hgt, 'chunk': chunk.hex(), 'io': False}
    ops = [{'op': 'open', 'io': False}, lk(CHUNK + 999, good[1])]
    ops += [{'op': 'connect', 'start': 2 * CHUNK + i, 'batch': raw.hex(), 'io': False} for i, raw in enumerate(top)]
    ops += [lk(5, good[0]),
            {'op': 'connect_pair', 'io': True,
             'a': {'start': first[0], 'batch': b''.join(first[1]).hex()},
             'b': {'start': second[0], 'batch': b''.join(second[1]).hex()}}]
    mod = model.call('run', cfg=cfg, file=None, ops=ops)[-1]
    return run.compare('C07.ledger_notifications', case,
                       {'size': size, 'io': buf.hex(), 'missing': out['missing']},
                       {'size': mod['size'], 'io': mod['io'], 'missing': mod['missing']})


RESTART_VARIANTS = ['hole-low', 'both', 'damaged-low', 'hole-high', 'none-fetched']
CUT_CLASSES = ['tip-flip', 'mid-last', 'last-byte', 'first-byte-of-last', 'mid-tip', 'in-chunk1', 'in-chunk0', 'tiny', 'aligned-tip',
               'aligned-2000', 'aligned-1500', 'no-cut', 'appended-junk']


@guarded
def gen_checkpoint_restart(run, model, rng, variant, cut, box=None):
    """two built-in checkpoints (ranges 0 and 1000); the ledger's order -- highest chunk first, then the tip --; shut
    down; crash cut of every class (misaligned cuts make open() repair from genesis, which truncates at a hole);
    restart; has_header / lookups with a chunk getter / re-connect of the tip; restart again"""
    chain = linked_chain(rng, 2 * CHUNK)
    good = [b''.join(chain[:CHUNK]), b''.join(chain[CHUNK:])]
    cfg = {'max_target': (1 << 255) - 1, 'genesis': dsha(chain[0]).hex(), 'vd': True,
           'checkpoints': [[0, dsha(good[0]).hex()], [CHUNK, dsha(good[1]).hex()]]}
    miner = Miner(rng, cfg)
    top = miner.extend(chain[-2:], rng.randrange(3, 9))[2:]
    h = History(run, model, cfg, None, 'checkpoint-restart', box)
    run.count('checkpoint-restart:%s/%s' % (variant, cut))

    def look(height, chunk, via=None):
        return h.do({'op': 'lookup', 'via': via or rng.choice(VIAS), 'height': height, 'chunk': chunk.hex(), 'io': False})

    h.do({'op': 'open', 'io': False})
    if variant in ('hole-low', 'both', 'damaged-low'):
        look(CHUNK + rng.randrange(CHUNK), good[1])
    if variant in ('hole-high', 'both', 'damaged-low'):
        look(rng.randrange(CHUNK), good[0])
    h.connect(2 * CHUNK, top, io=False)
    h.do({'op': 'close', 'io': False})
    n = len(h.impl.get_file())
    if variant == 'damaged-low':
        off = rng.randrange(1, CHUNK - 1) * HS + rng.randrange(4, 36)
        h.do({'op': 'patchfile', 'off': off, 'data': rng.randbytes(2).hex()})
    cuts = {'mid-last': n - 50, 'last-byte': n - 1, 'first-byte-of-last': n - HS + 1,
            'mid-tip': n - HS * rng.randrange(1, len(top)) - rng.randrange(1, HS),
            'in-chunk1': (CHUNK + rng.randrange(1, CHUNK)) * HS - rng.randrange(1, HS),
            'in-chunk0': rng.randrange(1, CHUNK) * HS - rng.randrange(1, HS), 'tiny': rng.randrange(1, HS),
            'aligned-tip': n - HS, 'aligned-2000': 2 * CHUNK * HS, 'aligned-1500': 1500 * HS}
    if cut == 'tip-flip':
        name, lo, hi = rng.choice(TIP_FIELDS)
        h.do({'op': 'patchfile', 'off': n - HS + rng.randrange(lo, hi), 'data': bytes([rng.randrange(1, 256)]).hex()})
    elif cut in cuts:
        h.do({'op': 'patchfile', 'cut': cuts[cut]})
    elif cut == 'appended-junk':
        h.do({'op': 'patchfile', 'off': n, 'data': rng.randbytes(rng.randrange(1, HS)).hex()})
    h.do({'op': 'open', 'io': False})
    for hgt in (500, 1500, 2 * CHUNK + 1):
        h.do({'op': 'has_header', 'height': hgt})
    bad = bytearray(good[1])
    bad[rng.randrange(len(bad))] ^= 0x10
    look(1500, bytes(bad))
    look(1500, bytes(bad), 'get_raw_header')        # a second attempt after the refusal: still refused, still fetched
    for k, (name, reply) in enumerate(reply_classes(rng, good[1])):
        if k % 3 == rng.randrange(3):
            run.count('reply-length:' + name)
            look(CHUNK + rng.randrange(CHUNK), reply)
    for name, reply in rng.sample(reply_classes(rng, good[0]), 2):
        run.count('reply-length:' + name)
        look(rng.randrange(CHUNK), reply)
    look(1500, good[1], 'get_raw_header')
    look(1999, good[1])
    look(rng.randrange(CHUNK), good[0])
    look(0, good[0], 'hash')
    h.connect(2 * CHUNK, top, io=False)
    h.connect(h.size(), miner.extend(chain[-2:] + top, 1)[-1:], io=False)
    h.do({'op': 'close', 'io': False})
    h.do({'op': 'open', 'io': False})
    return h.finish()


# ---------------- pure functions ----------------

def boundary_values():
    out = set(range(0, 300)) | {2 ** 16 - 1, 2 ** 16, 2 ** 23 - 1, 2 ** 23, 2 ** 24 - 1, 2 ** 24, 2 ** 24 + 1}
    for k in range(1, 257):
        for d in (-2, -1, 0, 1, 2):
            v = (1 << k) + d
            if 0 <= v < M256:
                out.add(v)
        out.add(((1 << k) - 1) & (M256 - 1))
        if k >= 24:
            out.add((0x7fffff << (k - 23)) & (M256 - 1))
            out.add((0x800000 << (k - 24)) & (M256 - 1))
            out.add((0xffffff << (k - 24)) & (M256 - 1))
    return sorted(out)


def check_compact(run, model, v, kind):
    try:
        impl = {'c': ArithUint256(v).compact, 'ok': True}
    except AssertionError:
        impl = None
    mod = model.call('compact', v=v)
    if not mod['ok']:
        mod = None
    case = {'op': 'compact', 'v': str(v), 'kind': kind}
    run.case(case, nontrivial=v > 0)
    run.count('compact:bits=%d' % (v.bit_length() // 32 * 32))
    bad = None
    if impl is not None:
        c = impl['c']
        back = ArithUint256.from_compact(c).value
        size = c >> 24
        sh = 8 * max(0, size - 3)
        if c & 0x00800000:
            bad = f'compact({v}) = {c:#x} has the sign bit set'
        elif back > v:
            bad = f'from_compact(compact({v})) = {back} exceeds the value'
        elif back >> sh != v >> sh:
            bad = f'from_compact(compact({v})) = {back} does not agree with the value in its top bits'
        elif v > 0 and ref_compact(v) != c:
            bad = f'compact({v}) = {c:#x} differs from the Bitcoin rule {ref_compact(v):#x}'
        elif back != ref_from_compact(c):
            bad = f'from_compact({c:#x}) = {back}'
    if bad:
        run.violation(case, bad, signature={'op': 'compact', 'v': str(v)})
    else:
        run.compare('C07.compact', case, impl, mod)
        if impl is not None:
            c = impl['c']
            run.compare('C07.from_compact', case, ArithUint256.from_compact(c).value,
                        int(model.call('from_compact', c=c)))


def check_from_compact(run, model, c, kind):
    impl = ArithUint256.from_compact(c).value
    mod = int(model.call('from_compact', c=c))
    case = {'op': 'from_compact', 'c': c, 'kind': kind}
    run.case(case)
    run.count('from_compact:size' + ('<=3' if (c >> 24) <= 3 else '>3'))
    if impl != ref_from_compact(c):
        run.violation(case, f'from_compact({c:#x}) = {impl}', signature={'op': 'from_compact', 'c': c})
    else:
        run.compare('C07.from_compact', case, impl, mod)


def gen_div_pairs(rng, n):
    out = []
    for _ in range(n):
        c = rng.random()
        if c < 0.25:
            a, b = rng.getrandbits(rng.randrange(1, 270)), rng.getrandbits(rng.randrange(1, 70)) or 1
        elif c < 0.5:
            # exact ties: a / b = (2m+1) * 2^(s-1) with m a 53-bit significand
            m = rng.randrange(2 ** 52, 2 ** 53)
            s = rng.randrange(1, 150)
            b = rng.choice([1, 3, 150, rng.getrandbits(40) | 1, rng.getrandbits(8) + 1])
            a = (2 * m + 1) * (1 << (s - 1)) * b + rng.choice([0, 0, 0, 1, -1, b, -b])
        elif c < 0.65:
            # the production shape: (target * timespan) / 150
            t = (rng.getrandbits(23) | 1) << (8 * rng.randrange(0, 29))
            a, b = (t * rng.randrange(132, 226)) % M256, 150
        elif c < 0.8:
            # quotient below 2^53 (a fraction is dropped by int()), including quotients just below an integer
            b = rng.getrandbits(rng.randrange(1, 200)) + 1
            q = rng.getrandbits(rng.randrange(1, 54))
            a = q * b + rng.choice([0, 1, b - 1, b // 2, rng.randrange(b)])
        elif c < 0.9:
            # a < b and a close to b
            b = rng.getrandbits(rng.randrange(2, 300)) + 2
            a = rng.choice([b - 1, b // 2, b // 3, 1, b - rng.randrange(1, 4), rng.randrange(b)])
        else:
            k = rng.randrange(1, 256)
            a, b = (1 << k) + rng.choice([-1, 0, 1]), rng.choice([1, 2, 3, 150, (1 << rng.randrange(1, 60)) + 1])
        out.append((max(0, a), max(1, b)))
    return out


def check_divs(run, model, pairs, kind):
    mods = model.call('divs', pairs=[[str(a), str(b)] for a, b in pairs])
    for (a, b), m in zip(pairs, mods):
        impl = (ArithUint256(a) / b).value
        case = {'op': 'div', 'a': str(a), 'b': str(b), 'kind': kind}
        run.case(case, nontrivial=a > 0, sample=False)
        q, r = divmod(a, b)
        run.count('div:' + ('exact' if r == 0 else 'tie' if (q.bit_length() > 53 and (a * 2) % (b << (q.bit_length() - 53)) == 0
                                                            and (a % (b << (q.bit_length() - 53)) != 0)) else 'inexact'))
        if impl != int(a / b):
            run.violation(case, f'ArithUint256({a}) / {b} = {impl}', signature=case)
        else:
            run.compare('C07.div_round53', case, impl, int(m))


def rand_header(rng, ts=None, bits=None):
    return pack(rng.choice([1, 0x20000000, rng.getrandbits(32)]), rng.randbytes(32), rng.randbytes(32),
                rng.randbytes(32), rng.getrandbits(32) if ts is None else ts,
                rng.getrandbits(32) if bits is None else bits, rng.getrandbits(32))


def check_next_target(run, model, rng, kind):
    mt = rng.choice([Headers.max_target, (1 << 255) - 1, rng.getrandbits(rng.randrange(200, 257)) or 1])
    c = rng.random()
    if c < 0.6:
        bits = ref_compact(rng.getrandbits(rng.randrange(1, 257)) % (mt + 1))
    elif c < 0.8:
        bits = rng.getrandbits(32)
    else:
        bits = rng.choice([0, 0x01000000, 0x03000001, 0x04000001, 0x1f00ffff, 0x207fffff, 0x20ffffff, 0xff7fffff,
                           0x21000001, 0x22000100])
    t0 = rng.randrange(0, 2 ** 32)
    delta = rng.choice(DELTAS + [rng.randrange(-2000, 2000), rng.randrange(-2 ** 31, 2 ** 31)])
    t1 = min(2 ** 32 - 1, max(0, t0 + delta))
    pp = rng.choice([None, rand_header(rng, ts=t0)])
    p = rand_header(rng, ts=t1, bits=bits)
    hd = Headers(':memory:')
    impl_t = hd.get_next_block_target(ArithUint256(mt), None if pp is None else Headers.deserialize(0, pp),
                                      Headers.deserialize(1, p))
    impl = impl_t.value
    mod = int(model.call('next_target', max_target=mt, pp=None if pp is None else pp.hex(), p=p.hex()))
    case = {'op': 'next_target', 'max_target': str(mt), 'pp': None if pp is None else pp.hex(), 'p': p.hex(),
            'kind': kind}
    run.case(case)
    run.count('next_target:' + ('no-pp' if pp is None else 'clamp-lo' if t1 - t0 <= 6 else
                                'clamp-hi' if t1 - t0 >= 750 else 'mid'))
    if impl != ref_next_target(mt, pp, p):
        run.violation(case, f'next target {impl} differs from the retarget rule {ref_next_target(mt, pp, p)}',
                      signature=case)
    else:
        run.compare('C07.next_target', case, impl, mod)


def check_codec(run, model, rng):
    raw = rand_header(rng)
    if rng.random() < 0.2:
        raw = raw[:rng.randrange(0, 112)] if rng.random() < 0.5 else raw + rng.randbytes(rng.randrange(1, 20))
    try:
        d = Headers.deserialize(7, raw)
        impl = {k: (v.decode() if isinstance(v, bytes) else str(v)) for k, v in d.items() if k != 'block_height'}
    except struct.error:
        d, impl = None, None
    mod = model.call('deserialize', raw=raw.hex())
    if mod is not None:
        mod = {k: str(v) for k, v in mod.items()}
    case = {'op': 'deserialize', 'raw': raw.hex()}
    run.case(case)
    run.count('codec:deserialize' + ('' if impl else '-short'))
    bad = None
    if d is not None and len(raw) == HS:
        want = {'version': int.from_bytes(raw[0:4], 'little'), 'timestamp': int.from_bytes(raw[100:104], 'little'),
                'bits': int.from_bytes(raw[104:108], 'little'), 'nonce': int.from_bytes(raw[108:112], 'little')}
        got = {k: d[k] for k in want}
        try:
            back = Headers.serialize(d)
        except struct.error as e:
            back = 'struct.error: %s' % e
        if got != want:
            bad = f'deserialize reads {got} where the header holds the unsigned little-endian fields {want}'
        elif back != raw:
            bad = f'serialize(deserialize(raw)) != raw ({back if isinstance(back, str) else "different bytes"})'
    if bad:
        run.violation(case, bad, signature=case)
    else:
        run.compare('C07.deserialize', case, impl, mod)
    # serialize, also with out-of-range integers
    hdr = {'version': rng.choice([1, 2 ** 32 - 1, 2 ** 32, rng.getrandbits(33)]),
           'prev_block_hash': rng.randbytes(32).hex(), 'merkle_root': rng.randbytes(32).hex(),
           'claim_trie_root': rng.randbytes(rng.choice([32, 32, 32, 0, 31, 33])).hex(),
           'timestamp': rng.getrandbits(32), 'bits': rng.choice([rng.getrandbits(32), 2 ** 32]),
           'nonce': rng.getrandbits(32)}
    try:
        impl = Headers.serialize({k: (v.encode() if isinstance(v, str) else v) for k, v in hdr.items()}).hex()
    except struct.error:
        impl = None
    mod = model.call('serialize', **hdr)
    case = {'op': 'serialize', 'header': {k: str(v) for k, v in hdr.items()}}
    run.case(case)
    run.count('codec:serialize' + ('' if impl else '-range'))
    run.compare('C07.serialize', case, impl, mod)
    # proof-of-work hash
    hh = rng.randbytes(32)
    impl = bytes.fromhex(Headers.header_hash_to_pow_hash(hexlify(hh[::-1])).decode())[::-1].hex()
    case = {'op': 'pow_hash', 'hh': hh.hex()}
    run.case(case)
    h5 = sha512(hh)
    if impl != dsha(rmd160(h5[:32]) + rmd160(h5[32:])).hex():
        run.violation(case, 'pow hash is not dsha(ripemd(sha512[:32]) + ripemd(sha512[32:]))', signature=case)
    else:
        run.compare('C07.pow_hash', case, impl, model.call('pow_hash', hh=hh.hex()))


# ------------------------------------------------------------------------------------------------

def mainnet():
    with open(os.path.join(CORPUS, 'mainnet20.hex')) as f:
        blob = bytes.fromhex(f.read().strip())
    return split(blob)


MAINNET_GENESIS_DISPLAY = '9c89283ba0f3227f6c03b70216b9f665f0118d5e0fa729cedf4fb34d6a34f463'


def mainnet_cfg():
    return {'max_target': Headers.max_target, 'genesis': bytes.fromhex(MAINNET_GENESIS_DISPLAY)[::-1].hex(),
            'vd': True, 'checkpoints': []}


def gen_mainnet(run, model, rng, variants):
    """the 20 main-net fixture headers at real difficulty: whole, in pieces, from the middle, altered"""
    hs = mainnet()
    cfg = mainnet_cfg()
    assert Headers.genesis_hash.decode() == MAINNET_GENESIS_DISPLAY
    h = History(run, model, cfg, None, 'mainnet')
    h.do({'op': 'open'})
    h.connect(0, hs)
    h.do({'op': 'close'})
    h.finish()
    for _ in range(variants):
        h = History(run, model, cfg, None, 'mainnet')
        h.do({'op': 'open'})
        pos = 0
        while pos < 20:
            k = rng.randrange(1, 21 - pos)
            c = rng.random()
            if c < 0.5:
                h.connect(pos, hs[pos:pos + k])
                pos += k
            elif c < 0.8:
                batch = list(hs[pos:pos + k])
                i = rng.randrange(k)
                batch[i], _ = mutate_field(rng, batch[i])
                h.connect(pos, batch)
            elif c < 0.9:
                h.connect(rng.choice([pos + 1, max(0, pos - 1), 0]), hs[pos:pos + k])
            else:
                h.do({'op': 'close'})
                f = h.impl.get_file()
                if rng.random() < 0.5 and f:
                    h.do({'op': 'patchfile', 'cut': rng.randrange(len(f) + 1)})
                h.do({'op': 'open'})
                pos = min(pos, h.size())
                buf = h.impl.io()
                while pos > 0 and buf[(pos - 1) * HS:pos * HS] != hs[pos - 1]:
                    pos -= 1
        h.finish()


def main(run):
    model = vlib.Model('C07', oracles=ORACLES)
    rng = run.rng
    T = run.tier
    run.rule = (
        'pure functions: compact/from_compact on every power of two +-2, all-ones and 0x7fffff/0x800000/0xffffff '
        'mantissas at every shift, 0..299 and random values of random bit length; int(a/b) on random pairs, exact '
        'ties (2m+1)*2^(s-1)*b with +-1 neighbours, the production shape target*timespan/150, quotients below 2^53 '
        'and a<b; next_target on random header pairs with boundary time deltas and canonical / arbitrary bits; header '
        'codec incl. short input and out-of-range integers. histories: chains mined by the harness under a random easy '
        'max_target (valid extensions in random splits, forks at lower heights shorter and longer than the old tail, '
        'the old chain continued at len(headers), one header altered in one field, headers mined valid except for '
        'prev / bits / pow, wrong start, misaligned and empty batches, re-connects), close, cut or overwrite the file '
        'at a random byte, reopen; the 20 main-net fixture headers at real difficulty; every cut offset and every '
        'single-field damage of small chains in misaligned and aligned files (no checkpoints: checked from genesis); '
        'aligned files of 1001..1100 headers; 1 and 2 checkpointed chunks fetched with wrong / truncated / right content; lookups (get / hash / '
        'get_raw_header / ensure_chunk_at) with a chunk getter installed at stored heights, above the tip, in all-zero '
        'slots and in checkpointed ranges while the server answers with junk, a linked but unvalidated chunk, our own '
        'headers, a valid continuation, nothing or a misaligned blob; otherwise valid headers whose proof-of-work value '
        'sits at the target its bits encode (+-1), between that and the exact retarget value, at the exact value (+-1), inside / at the top of / just past the band that rounds to the same compact bits '
        '(PoW hash replaced for exactly those headers on both sides; one such header pre-mined with the real hash is in '
        'the corpus); two built-in checkpoints with the higher / lower / both / no chunk fetched or a lower header damaged, '
        'the built-in checkpoint table itself and a fresh store opened with it; the real Ledger.receive_header with a fake network delivering two header notifications while an on-demand chunk download holds the chunk lock; the last header overwritten in each field (aligned / misaligned files, and above two checkpoints); two connect() calls in flight at once on one store (300 headers and a short fork below / a continuation above); two and three stores with the same checkpoints alive in one process; a valid fork that leaves the chain shorter / of equal length / longer (or the same headers again) followed by a clean close / reopen in stores below the 999-header '
        'horizon, above it and with a checkpoint; every class of crash cut (misaligned in the last header, the tip, either chunk; aligned; appended junk), then '
        'restart, has_header, lookups and re-connect of the tip; in every fetch / lookup scenario for a checkpointed range '
        'also replies of another length (genuine chunk + 1 / 3 / 1000 headers, + a partial header, + zeros, doubled, '
        'truncated by 1 / 3 headers or a few bytes) and a second attempt after a refusal. distinct = distinct '
        'full case (config, file, op list); non-trivial = more than one operation or a non-zero pure input.')

    # corpus first
    for path in sorted(glob.glob(os.path.join(CORPUS, '*.json'))):
        with open(path) as f:
            case = json.load(f)
        run_case(run, model, case)
        run.count('corpus')

    # ---- pure functions
    for v in boundary_values():
        check_compact(run, model, v, 'boundary')
    for _ in range(vlib.scaled(T, 1500, 60000)):
        v = rng.getrandbits(rng.randrange(1, 257))
        check_compact(run, model, v, 'random')
    for c in [0, 1, 0x00ffffff, 0x01000000, 0x01003456, 0x02008000, 0x03000001, 0x03123456, 0x04123456, 0x04923456,
              0x05009234, 0x1f00ffff, 0x207fffff, 0x20ffffff, 0x21000001, 0xff7fffff, 0xffffffff]:
        check_from_compact(run, model, c, 'boundary')
    for _ in range(vlib.scaled(T, 500, 20000)):
        check_from_compact(run, model, rng.getrandbits(32), 'random')
    npairs = vlib.scaled(T, 12000, 100000)
    pairs = gen_div_pairs(rng, npairs)
    for i in range(0, len(pairs), 2000):
        check_divs(run, model, pairs[i:i + 2000], 'generated')
    for _ in range(vlib.scaled(T, 1500, 40000)):
        check_next_target(run, model, rng, 'generated')
    for _ in range(vlib.scaled(T, 300, 6000)):
        check_codec(run, model, rng)

    # ---- main-net fixture
    gen_mainnet(run, model, rng, vlib.scaled(T, 20, 300))
    hs = mainnet()
    blob_len = 20 * HS
    if T == 'thorough':
        offsets = list(range(blob_len + 1))
    else:
        offsets = sorted(set(rng.randrange(blob_len + 1) for _ in range(150)) | {0, 1, 111, 112, 113, blob_len - 1,
                                                                               blob_len})
    for i in range(0, len(offsets), 200):
        gen_cuts(run, model, rng, hs, mainnet_cfg(), offsets[i:i + 200], 'mainnet-cut')
    run.count('mainnet-cut-offsets', len(offsets))

    # ---- small mined chain: every cut offset, every damaged position
    while True:
        cfg = easy_cfg(rng)
        miner = Miner(rng, cfg)
        try:
            small = miner.extend([miner.genesis()], vlib.scaled(T, 4, 7))
            break
        except TooHard:
            run.count('skipped:target-too-hard')
    cfg = with_genesis(cfg, small)
    offs = list(range(len(small) * HS + 1))
    for i in range(0, len(offs), 250):
        gen_cuts(run, model, rng, small, cfg, offs[i:i + 250], 'small-cut')
    run.count('small-cut-offsets', len(offs))
    positions = []
    for hgt in range(len(small)):
        for off in (range(HS) if T == 'thorough' else [0, 3, 4, 5, 20, 35, 36, 67, 68, 99, 100, 103, 104, 107, 108, 111]):
            positions.append((hgt, off, bytes([small[hgt][off] ^ 0x40])))
        positions.append((hgt, 0, bytes(HS)))
        positions.append((hgt, 0, b'\xff' * HS))
    for i in range(0, len(positions), 250):
        gen_damage_small(run, model, rng, small, cfg, positions[i:i + 250], 'small-damage')
        gen_damage_small(run, model, rng, small, cfg, positions[i:i + 250], 'small-damage-aligned', tail=b'')
    run.count('small-damage-positions', len(positions))
    # link-only chains around the repair batch size (36): damaged tip / last link at every length
    for n in (list(range(1, 80)) if T == 'thorough' else [1, 2, 3, 35, 36, 37, 38, 39, 72, 73, 74]):
        ch = linked_chain(rng, n)
        c2 = {'max_target': (1 << 255) - 1, 'genesis': dsha(ch[0]).hex(), 'vd': True, 'checkpoints': []}
        pos = [(n - 1, 4, b'\xee' * 32), (n - 1, 40, b'\xee')]
        if n > 1:
            pos += [(n - 2, 40, b'\xee'), (0, 40, b'\xee')]
        gen_damage_small(run, model, rng, ch, c2, pos, 'batch-boundary')
        gen_damage_small(run, model, rng, ch, c2, pos, 'batch-boundary-aligned', tail=b'')

    # ---- histories
    for _ in range(vlib.scaled(T, 100, 1500)):
        gen_history(run, model, rng, rng.randrange(4, 14))
    for _ in range(vlib.scaled(T, 3, 40)):
        gen_stale_tail(run, model, rng)

    # ---- files longer than the horizon
    for n in (vlib.scaled(T, [1001, 1036, 1037, 1038], [1000, 1001, 1002, 1035, 1036, 1037, 1038, 1039, 1072, 1073,
                                                        1074, 1100])):
        damage = [(None, 0, 0), (n - 1, 4, 36), (n - 1, 40, 41)]
        if n > 1002:
            damage += [(1000, 4, 36), (1001, 4, 36), (1001, 50, 51), (n - 2, 60, 61), (999, 4, 36), (998, 50, 51),
                       (500, 4, 36)]
        if T == 'thorough':
            damage += [(rng.randrange(990, n), lo, lo + 1) for lo in (4, 35, 36, 100, 104, 108) for _ in range(3)]
        gen_big_reopen(run, model, rng, n, damage)
    for i in range(vlib.scaled(T, 2, 12)):
        gen_checkpoints(run, model, rng, two=bool(i % 2))

    # ---- reorganisation to a shorter chain, then a clean restart
    plan = [('small', 'shorter'), ('small', 'equal'), ('small', 'longer'), ('big', 'shorter'), ('big', 'equal'),
            ('checkpointed', 'shorter'), ('checkpointed', 'equal'), ('small', 'same'), ('small', 'equal'),
            ('checkpointed', 'longer'), ('big', 'same'), ('big', 'longer')]
    for i in range(vlib.scaled(T, 9, 180)):
        gen_short_fork_restart(run, model, rng, *plan[i % len(plan)])

    # ---- restart with checkpoints: which chunks count as present after a crash cut
    combos = [(v, c) for v in RESTART_VARIANTS for c in CUT_CLASSES]
    if T != 'thorough':
        fixed = [('hole-low', 'mid-last'), ('hole-low', 'in-chunk1'), ('damaged-low', 'last-byte'),
                 ('both', 'mid-tip'), ('hole-high', 'first-byte-of-last'), ('hole-low', 'aligned-tip'), ('both', 'tip-flip')]
        rest = [x for x in combos if x not in fixed]
        rng.shuffle(rest)
        combos = fixed + rest[:2]
    for v, c in combos:
        gen_checkpoint_restart(run, model, rng, v, c)

    # ---- proof of work exactly at / just above the target
    for _ in range(vlib.scaled(T, 25, 400)):
        gen_pow_boundary(run, model, rng)

    # ---- damaged tip
    for _ in range(vlib.scaled(T, 6, 100)):
        gen_tip_damage(run, model, rng)

    # ---- the built-in table; the real Ledger delivering notifications while a chunk download is in flight
    check_builtin_table(run)
    for i in range(vlib.scaled(T, 3, 30)):
        gen_ledger_notifications(run, model, rng.getrandbits(32),
                                 ['fork-then-old-tip', 'two-for-next-height', 'deeper-fork-then-next'][i % 3])

    # ---- overlapping calls and several stores in one process
    for _ in range(vlib.scaled(T, 1, 8)):
        gen_overlapping_connects(run, model, rng)
    for _ in range(vlib.scaled(T, 2, 20)):
        gen_two_stores(run, model, rng)
        run.count('two-stores')

    # ---- lookups while a chunk getter is installed
    for _ in range(vlib.scaled(T, 40, 600)):
        gen_lookups(run, model, rng)
    for _ in range(vlib.scaled(T, 3, 20)):
        gen_lookups_zero_slot(run, model, rng)

    run.partial = []
    run.supporting = {}
    run.extra_assumptions.append('hashlib SHA-256 / SHA-512 / RIPEMD-160 answer the model\'s oracle calls; the '
                                 'theorems hold for every function in their place')
    model.close()


def replay(run, case):
    model = vlib.Model('C07', oracles=ORACLES)
    kind = case.get('op')
    if 'ops' in case:
        run_case(run, model, case)
    elif kind == 'compact':
        check_compact(run, model, int(case['v']), 'replay')
    elif kind == 'from_compact':
        check_from_compact(run, model, int(case['c']), 'replay')
    elif kind == 'div':
        check_divs(run, model, [(int(case['a']), int(case['b']))], 'replay')
    else:
        run.disagreement('replay', case, None, 'this kind of case is regenerated from the seed, not replayed')
    model.close()
