"""C16  Claim metadata and LBRY URLs encode and decode without loss.

Correspondence of Model/C16_Env.v (Signable envelope, Claim.from_bytes dispatch, Purchase start byte),
Model/C16_Wire.v (generic protobuf wire model, nested by a schema table read from the _pb2 descriptors)
and Model/C16_Url.v (URL grammar) with lbry.schema.{base,claim,attrs,compat,support,purchase,url,tags},
plus the property's own statement as a monitor (what was set is read back through the typed accessors and
shows up at the expected field numbers of a plain protobuf parse; URLs generated from the grammar parse
into their parts and print back; strings outside the grammar are refused)."""
import json
import os
import struct
from decimal import Decimal, ROUND_UP
from fractions import Fraction

import lbry.wallet  # noqa: F401  (import order, see DESIGN 2.3)
from google.protobuf.message import DecodeError
from google.protobuf.descriptor import FieldDescriptor as FD
from lbry.schema.claim import Claim
from lbry.schema.support import Support
from lbry.schema.purchase import Purchase
from lbry.schema.url import URL
from lbry.schema.types.v2 import claim_pb2, support_pb2, purchase_pb2
from lbry.schema.types.v1 import legacy_claim_pb2

import vlib

CORPUS = os.path.join(os.path.dirname(os.path.dirname(os.path.abspath(__file__))), 'corpus', 'C16')
DEPTH = 12
M64 = 1 << 64

# ------------------------------------------------------------------------------------------------
# schema table from the descriptors; tree view of a real protobuf message ("plain protobuf parse")
# ------------------------------------------------------------------------------------------------
VARINT_TYPES = {FD.TYPE_INT32, FD.TYPE_INT64, FD.TYPE_UINT32, FD.TYPE_UINT64, FD.TYPE_SINT32, FD.TYPE_SINT64,
                FD.TYPE_BOOL, FD.TYPE_ENUM}
F64_TYPES = {FD.TYPE_FIXED64, FD.TYPE_SFIXED64, FD.TYPE_DOUBLE}
F32_TYPES = {FD.TYPE_FIXED32, FD.TYPE_SFIXED32, FD.TYPE_FLOAT}


class Schema:
    def __init__(self, roots):
        self.ids = {}
        self.descs = []
        for r in roots:
            self._walk(r)
        self.table = []
        self.strings = set()          # (msgid, fno) of string-typed fields (must be UTF-8)
        for d in self.descs:
            fl = []
            for f in d.fields:
                if f.type == FD.TYPE_MESSAGE:
                    fl.append([f.number, 'm', self.ids[f.message_type.full_name]])
                elif f.type in VARINT_TYPES:
                    fl.append([f.number, 'v'])
                elif f.type in F64_TYPES:
                    fl.append([f.number, 'f64'])
                elif f.type in F32_TYPES:
                    fl.append([f.number, 'f32'])
                else:
                    fl.append([f.number, 'b'])
                    if f.type == FD.TYPE_STRING:
                        self.strings.add((self.ids[d.full_name], f.number))
            self.table.append([self.ids[d.full_name], fl])

    def _walk(self, d):
        if d.full_name in self.ids:
            return
        self.ids[d.full_name] = len(self.descs)
        self.descs.append(d)
        for f in d.fields:
            if f.message_type is not None:
                self._walk(f.message_type)

    def id_of(self, cls):
        return self.ids[cls.DESCRIPTOR.full_name]

    def msg_of(self, m, fno):
        for e in self.table[m][1]:
            if e[0] == fno and e[1] == 'm':
                return e[2]
        return None


def _scalar(f, v):
    t = f.type
    if t in (FD.TYPE_UINT32, FD.TYPE_UINT64):
        return ['v', v]
    if t in (FD.TYPE_INT32, FD.TYPE_INT64, FD.TYPE_ENUM):
        return ['v', v % M64]
    if t == FD.TYPE_BOOL:
        return ['v', 1 if v else 0]
    if t == FD.TYPE_SINT32:
        return ['v', ((v << 1) ^ (v >> 31)) & 0xFFFFFFFF]
    if t == FD.TYPE_SINT64:
        return ['v', ((v << 1) ^ (v >> 63)) & (M64 - 1)]
    if t == FD.TYPE_STRING:
        return ['b', v.encode('utf-8').hex()]
    if t == FD.TYPE_BYTES:
        return ['b', bytes(v).hex()]
    if t == FD.TYPE_FLOAT:
        return ['f32', struct.pack('<f', v).hex()]
    if t == FD.TYPE_DOUBLE:
        return ['f64', struct.pack('<d', v).hex()]
    if t in (FD.TYPE_FIXED32, FD.TYPE_SFIXED32):
        return ['f32', (v % (1 << 32)).to_bytes(4, 'little').hex()]
    if t in (FD.TYPE_FIXED64, FD.TYPE_SFIXED64):
        return ['f64', (v % M64).to_bytes(8, 'little').hex()]
    raise ValueError(f'type {t}')


def msg_tree(msg):
    """what the parsed message holds, as (field number, wire kind, value) in serialisation order"""
    out = []
    for f, v in sorted(msg.ListFields(), key=lambda fv: fv[0].number):
        items = list(v) if f.is_repeated else [v]
        for it in items:
            if f.type == FD.TYPE_MESSAGE:
                out.append([f.number, 'm', msg_tree(it)])
            else:
                out.append([f.number] + _scalar(f, it))
    return out


SCHEMA = Schema([claim_pb2.Claim.DESCRIPTOR, support_pb2.Support.DESCRIPTOR, purchase_pb2.Purchase.DESCRIPTOR,
                 legacy_claim_pb2.Claim.DESCRIPTOR])
M_CLAIM = SCHEMA.id_of(claim_pb2.Claim)
M_SUPPORT = SCHEMA.id_of(support_pb2.Support)
M_PURCHASE = SCHEMA.id_of(purchase_pb2.Purchase)
M_V1 = SCHEMA.id_of(legacy_claim_pb2.Claim)

# ------------------------------------------------------------------------------------------------
# independent helpers for the monitor (none of these call lbry code)
# ------------------------------------------------------------------------------------------------
B58 = '123456789ABCDEFGHJKLMNPQRSTUVWXYZabcdefghijkmnopqrstuvwxyz'


def b58encode(b):
    n = int.from_bytes(b, 'big')
    s = ''
    while n:
        n, r = divmod(n, 58)
        s = B58[r] + s
    return '1' * (len(b) - len(b.lstrip(b'\0'))) + s


def tv(k, n):
    return [k, 'v', n] if n else None


def ts(k, s):
    return [k, 'b', s.encode('utf-8').hex()] if s else None


def tb(k, b):
    return [k, 'b', b.hex()] if b else None


def tm(k, fields):
    return [k, 'm', [f for f in fields if f is not None]]


def zigzag32(v):
    return ((v << 1) ^ (v >> 31)) & 0xFFFFFFFF


def normalize_tag_ref(tag):
    """reference reading of tags.normalize_tag: lower case, apostrophes dropped, # ! ~ become blanks,
    runs of white space become one blank, trimmed"""
    t = tag.lower().replace("'", '')
    t = ''.join(' ' if c in '#!~' else c for c in t)
    out, run = [], []
    for c in t:
        if c.isspace():
            run.append(c)
        else:
            if run:
                out.append(' ' if len(run) >= 2 else run[0])
                run = []
            out.append(c)
    if run:
        out.append(' ' if len(run) >= 2 else run[0])
    return ''.join(out).strip()


# ------------------------------------------------------------------------------------------------
# claim specs: a JSON-able description of the field assignments; applied through the real API
# ------------------------------------------------------------------------------------------------
TEXT_POOL = (list('abcdefghijklmnopqrstuvwxyzABCDEFGHIJKLMNOPQRSTUVWXYZ0123456789') * 2 + list(' .,:;/-_#!~\'"\n\t@$%&?=<>[]{}|\\^`') +
             list('\u00e9\u00fc\u00f1\u00df\u00f8\u00e5\u00e7\u03bb\u0436\u044f\u05e9\u05dc\u05d5\u05dd\u0645\u0631\u062d\u0628\u0627\u4e2d\u6587\u5b57\u65e5\u672c\u8a9e\ud55c\uad6d\uc5b4') +
             ['\U0001F600', '\U0001F4A9', '\U00010000', '\U0010FFFF', '\u0000', '\u0301', '\u200b', '\ufffd', '\ud7ff',
              '\ue000', '\uffff', '\u0080', '\u07ff', '\u0800'])
LEN_EDGES = [0, 1, 2, 126, 127, 128, 129, 255, 256, 16383, 16384, 16385]
U64_EDGES = [0, 1, 127, 128, 255, 256, 16383, 16384, 2 ** 31 - 1, 2 ** 31, 2 ** 32 - 1, 2 ** 32, 2 ** 53, 2 ** 53 + 1,
             2 ** 56 - 1, 2 ** 56, 2 ** 63 - 1, 2 ** 63, 2 ** 64 - 2, 2 ** 64 - 1]
U32_EDGES = [1, 127, 128, 16383, 16384, 2 ** 21 - 1, 2 ** 21, 2 ** 28 - 1, 2 ** 28, 2 ** 31 - 1, 2 ** 31, 2 ** 32 - 1]
I64_EDGES = [0, 1, -1, 127, 128, -128, -129, 2 ** 31, -2 ** 31, 2 ** 32, 2 ** 53 + 1, -2 ** 53 - 1, 2 ** 63 - 1, -2 ** 63,
             -2 ** 63 + 1, 1600000000]
LANGS = [k for k, v in claim_pb2.Language.Language.items() if v != 0]
SCRIPTS = [k for k, v in claim_pb2.Language.Script.items() if v != 0]
COUNTRIES = [k for k, v in claim_pb2.Location.Country.items() if v != 0]
ALPHA2 = [k for k in COUNTRIES if len(k) == 2]
REGION3 = [k[1:] for k in COUNTRIES if len(k) == 4 and k[0] == 'R' and k[1:].isdigit()]
CURRENCIES = ['lbc', 'btc', 'usd']


def gen_text(rng, maxlen=40, allow_empty=True):
    c = rng.random()
    if c < 0.08 and allow_empty:
        return ''
    if c < 0.16:
        n = rng.choice(LEN_EDGES[1:9])
        ch = rng.choice(['a', 'é', '中', '\U0001F600'])
        # byte length exactly at a varint-length edge when the unit divides it, else close to it
        return ch * max(1, n // len(ch.encode('utf-8')))
    n = rng.randrange(0 if allow_empty else 1, maxlen)
    return ''.join(rng.choice(TEXT_POOL) for _ in range(n)) or ('' if allow_empty else 'x')


def gen_hex(rng, nbytes):
    return bytes(rng.randrange(256) for _ in range(nbytes)).hex()


def gen_claim_id(rng):
    c = rng.random()
    if c < 0.1:
        return rng.choice(['00' * 20, 'ff' * 20, '00' * 19 + '01', '01' + '00' * 19])
    return gen_hex(rng, 20)


def gen_address(rng):
    c = rng.random()
    if c < 0.6:
        raw = bytes([0x55]) + bytes(rng.randrange(256) for _ in range(24))          # LBRY 'b...'
    elif c < 0.85:
        raw = bytes([0x00]) + bytes(rng.randrange(256) for _ in range(24))          # Bitcoin P2PKH '1...'
    elif c < 0.92:
        raw = bytes([0x00, 0x00]) + bytes(rng.randrange(1, 256) for _ in range(23))  # two leading zero bytes '11...'
    else:
        raw = bytes([0x05]) + bytes(rng.randrange(256) for _ in range(24))          # Bitcoin P2SH '3...'
    return b58encode(raw), raw.hex()


def gen_amount(rng, currency):
    """a decimal string the currency can hold exactly (<= 8 / 2 decimals), sometimes finer (then the
    documented rounding applies), sometimes at the uint64 edge"""
    places = 2 if currency == 'usd' else 8
    c = rng.random()
    if c < 0.1:
        units = rng.choice([1, 10 ** places, 2 ** 53 + 1, 2 ** 63, 2 ** 64 - 1, 10 ** 18, 99999999, 100000001])
    elif c < 0.2:
        units = rng.randrange(1, 2 ** 64)
    else:
        units = rng.randrange(1, 10 ** rng.randrange(1, 14))
    s = str(Decimal(units).scaleb(-places))
    if rng.random() < 0.12 and units < 2 ** 63:
        s += str(rng.randrange(1, 1000))       # finer than the smallest unit
    elif rng.random() < 0.2 and '.' in s:
        s = s.rstrip('0').rstrip('.') or '0'
    return s


def gen_language(rng):
    tag = rng.choice(LANGS)
    if rng.random() < 0.3:
        tag += '-' + rng.choice(SCRIPTS)
    c = rng.random()
    if c < 0.3:
        tag += '-' + rng.choice(ALPHA2)
    elif c < 0.4 and REGION3:
        tag += '-' + rng.choice(REGION3)
    return tag


def gen_coord(rng, lim):
    c = rng.random()
    if c < 0.15:
        return rng.choice([str(lim), str(-lim), '0.0000001', '-0.0000001', '1', '-1', str(lim - 1) + '.9999999'])
    whole = rng.randrange(0, lim)
    frac = rng.randrange(0, 10 ** 7)
    d = rng.randrange(0, 8)
    s = f'{whole}.{frac:07d}'[:len(str(whole)) + 1 + d].rstrip('.')
    if rng.random() < 0.5:
        s = '-' + s
    return s


def gen_plain(rng, maxlen=12):
    return ''.join(rng.choice('abcdefghijklmnopqrstuvwxyzABCDEF 0123456789éü中-') for _ in range(rng.randrange(1, maxlen))).strip() or 'x'


def gen_location(rng):
    d = {}
    if rng.random() < 0.8:
        d['country'] = rng.choice(ALPHA2)
    if rng.random() < 0.5:
        d['state'] = gen_plain(rng)
    if rng.random() < 0.5:
        d['city'] = gen_plain(rng)
    if rng.random() < 0.4:
        d['code'] = ''.join(rng.choice('0123456789ABC -') for _ in range(rng.randrange(1, 8))).strip() or '1'
    c = rng.random()
    if c < 0.35:
        d['latitude'] = gen_coord(rng, 90)
        d['longitude'] = gen_coord(rng, 180)
    elif c < 0.45:
        d['latitude'] = gen_coord(rng, 90)                       # latitude only
    elif c < 0.55:
        d['longitude'] = gen_coord(rng, 180)                     # longitude only
    elif c < 0.62:
        d['latitude'], d['longitude'] = gen_coord(rng, 90), rng.choice(['0', '0.0', '-0'])      # on the Greenwich meridian
    elif c < 0.69:
        d['latitude'], d['longitude'] = rng.choice(['0', '0.0', '-0']), gen_coord(rng, 180)     # on the equator
    elif c < 0.72:
        d['latitude'], d['longitude'] = '0', '0'
    if not d:
        d['country'] = 'US'
    form = 'dict'
    nocountry = False
    c = rng.random()
    if c < 0.25:
        form = 'json'
    elif c < 0.6 and ('country' in d or set(d) == {'latitude', 'longitude'} or set(d) == {'latitude'}):
        form = 'string'
    elif c < 0.6 and any(k in d for k in ('state', 'city', 'code')):
        # the compact form with an EMPTY country: ':NH:Manchester', '::Manchester', ':::03101:42.9:-71.4' (three or more parts)
        form = 'string'
        nocountry = True
    if form == 'string' and 'longitude' in d and 'latitude' not in d:
        form = 'dict'                                            # the colon form cannot say "longitude only"
    if form in ('dict', 'json') and rng.random() < 0.15:
        # the coordinates as numbers instead of strings (natural in JSON)
        for k in ('latitude', 'longitude'):
            if k in d:
                d[k] = float(d[k])
    elif form == 'string' and nocountry:
        rng.random()                                             # keeps the random stream of the older shapes where it was
    return {'form': form, 'value': d}


def location_arg(loc):
    d = loc['value']
    if loc['form'] == 'dict':
        return dict(d)
    if loc['form'] == 'json':
        return json.dumps(d)
    parts = [d.get('country', ''), d.get('state', ''), d.get('city', ''), d.get('code', ''),
             d.get('latitude', ''), d.get('longitude', '')]
    if loc['form'] == 'string6':
        return ':'.join(parts)                                   # all six positions written out, e.g. '::::42.99:-71.46'
    if set(d) == {'latitude', 'longitude'}:
        return f"{d['latitude']}:{d['longitude']}"
    if set(d) == {'latitude'}:
        return d['latitude']
    while parts and parts[-1] == '':
        parts.pop()
    while 'country' not in d and len(parts) < 3:
        parts.append('')                                         # ':NH' would be 'lat:long'; with no country the named form has >= 3 parts
    return ':'.join(parts)


def compact_location_specs(rng):
    """every non-empty choice of the six positions of the compact 'country:state:city:code:lat:long' string, in the shortest and
    in the fully written-out spelling, set through update() and through locations.append(): in particular the strings with an
    EMPTY country and three or more parts"""
    out = []
    keys = ('country', 'state', 'city', 'code', 'latitude', 'longitude')
    for mask in range(1, 64):
        d = {}
        for i, k in enumerate(keys):
            if mask >> i & 1:
                d[k] = (rng.choice(ALPHA2) if k == 'country' else gen_plain(rng) if k in ('state', 'city') else
                        (''.join(rng.choice('0123456789ABC -') for _ in range(rng.randrange(1, 8))).strip() or '1') if k == 'code' else
                        gen_coord(rng, 90 if k == 'latitude' else 180))
        for form in ('string', 'string6'):
            for via in ('update', 'setters'):
                out.append({'type': 'stream', 'via': via, 'tags': [], 'languages': [], 'signed': None, 'source': {}, 'media': {'kind': 'none'},
                            'locations': [{'form': form, 'value': dict(d)}]})
    return out


def gen_tags(rng):
    n = rng.choice([0, 0, 1, 2, 3, 5, 8])
    tags = []
    for _ in range(n):
        if rng.random() < 0.7:
            t = ''.join(rng.choice('abcdefghijklmnopqrstuvwxyz0123456789 -éü中') for _ in range(rng.randrange(1, 14)))
        else:
            t = gen_text(rng, 16)
        tags.append(t)
    if tags and rng.random() < 0.2:
        tags.append(tags[0])                 # duplicate: kept once
    return tags


def gen_common(rng):
    s = {}
    if rng.random() < 0.8:
        s['title'] = gen_text(rng, 60)
    if rng.random() < 0.7:
        s['description'] = gen_text(rng, 300) if rng.random() < 0.9 else 'd' * rng.choice(LEN_EDGES)
    if rng.random() < 0.5:
        s['thumbnail_url'] = 'https://' + gen_plain(rng, 30).replace(' ', '')
    if rng.random() < 0.15:
        s['thumbnail_hash'] = gen_hex(rng, 48)
    s['tags'] = gen_tags(rng)
    s['languages'] = [gen_language(rng) for _ in range(rng.choice([0, 0, 1, 1, 2, 4]))]
    s['locations'] = [gen_location(rng) for _ in range(rng.choice([0, 0, 1, 1, 2, 3]))]
    return s


def gen_claim_spec(rng):
    t = rng.choice(['stream', 'stream', 'stream', 'channel', 'channel', 'repost', 'collection'])
    s = {'type': t, 'via': rng.choice(['update', 'setters'])}
    s.update(gen_common(rng))
    if rng.random() < 0.5:
        s['signed'] = {'hash': gen_hex(rng, 20), 'sig': gen_hex(rng, 64), 'by_id': rng.random() < 0.3}
    else:
        s['signed'] = None
    if t == 'stream':
        for k in ('author', 'license', 'license_url'):
            if rng.random() < 0.5:
                s[k] = gen_text(rng, 40)
        if rng.random() < 0.6:
            s['release_time'] = rng.choice(I64_EDGES) if rng.random() < 0.5 else rng.randrange(-2 ** 63, 2 ** 63)
        if rng.random() < 0.6:
            cur = rng.choice(CURRENCIES)
            addr, raw = gen_address(rng)
            fee = {'currency': cur, 'amount': gen_amount(rng, cur)}
            if rng.random() < 0.8:
                fee['address'] = addr
                fee['address_raw'] = raw
            s['fee'] = fee
        src = {}
        c = rng.random()
        if c < 0.6:
            src['sd_hash'] = gen_hex(rng, 48)
        elif c < 0.8:
            src['bt_infohash'] = gen_hex(rng, 20)
        elif c < 0.9:
            src['sd_hash'] = gen_hex(rng, 48)
            src['bt_infohash'] = gen_hex(rng, 20)          # a source may carry both
        if rng.random() < 0.4:
            src['file_hash'] = gen_hex(rng, 48)
        if rng.random() < 0.5:
            src['size'] = rng.choice(U64_EDGES[1:]) if rng.random() < 0.5 else rng.randrange(1, 2 ** 64)
        if rng.random() < 0.3:
            src['url'] = 'https://' + gen_plain(rng, 20).replace(' ', '')
        kind = rng.choice(['none', 'none', 'image', 'video', 'video', 'audio', 'binary'])
        media = {'kind': kind}
        if kind != 'none':
            src['media_type'] = {'image': 'image/png', 'video': 'video/mp4', 'audio': 'audio/mpeg',
                                 'binary': 'application/octet-stream'}[kind]
        for k, kinds in (('width', ('image', 'video')), ('height', ('image', 'video')), ('duration', ('video', 'audio'))):
            if kind in kinds and rng.random() < 0.75:
                media[k] = rng.choice(U32_EDGES) if rng.random() < 0.5 else rng.randrange(1, 2 ** 32)
        if rng.random() < 0.4:
            src['name'] = gen_plain(rng, 16)        # set through the accessor, after update()
        s['source'] = src
        s['media'] = media
    elif t == 'channel':
        if rng.random() < 0.9:
            s['public_key'] = ('02' if rng.random() < 0.5 else '03') + gen_hex(rng, 32)
        for k in ('email', 'website_url'):
            if rng.random() < 0.5:
                s[k] = gen_text(rng, 30)
        if rng.random() < 0.4:
            s['cover_url'] = 'https://' + gen_plain(rng, 20).replace(' ', '')
        if rng.random() < 0.2:
            s['cover_hash'] = gen_hex(rng, 48)
        s['featured'] = [gen_claim_id(rng) for _ in range(rng.choice([0, 0, 1, 2, 5]))]
    elif t == 'repost':
        if rng.random() < 0.9:
            s['claim_id'] = gen_claim_id(rng)
    else:
        s['claims'] = [gen_claim_id(rng) for _ in range(rng.choice([0, 1, 2, 3, 8, 20]))]
    return s


# ------------------------------------------------------------------------------------------------
# applying a spec through the real API
# ------------------------------------------------------------------------------------------------
def apply_common_setters(obj, s):
    if 'title' in s:
        obj.title = s['title']
    if 'description' in s:
        obj.description = s['description']
    if 'thumbnail_url' in s:
        obj.thumbnail.url = s['thumbnail_url']
    if 'thumbnail_hash' in s:
        obj.thumbnail.file_hash = s['thumbnail_hash']
    for t in s['tags']:
        obj.tags.append(t)
    for lang in s['languages']:
        obj.languages.append(lang)
    for loc in s['locations']:
        obj.locations.append(location_arg(loc))


def common_kwargs(s):
    kw = {}
    for k in ('title', 'description', 'thumbnail_url'):
        if k in s:
            kw[k] = s[k]
    if 'thumbnail_hash' in s:
        kw['thumbnail_file_hash'] = s['thumbnail_hash']
    if s['tags']:
        kw['tags'] = list(s['tags'])
    if s['languages']:
        kw['languages'] = list(s['languages'])
    if s['locations']:
        kw['locations'] = [location_arg(loc) for loc in s['locations']]
    return kw


def build_claim(s):
    claim = Claim()
    t, via = s['type'], s['via']
    if t == 'stream':
        st = claim.stream
        src, media = s['source'], s['media']
        if 'media_type' in src:
            st.source.media_type = src['media_type']
        if via == 'update':
            kw = common_kwargs(s)
            for k in ('author', 'license', 'license_url', 'release_time'):
                if k in s:
                    kw[k] = s[k]
            if 'fee' in s:
                kw['fee_currency'] = s['fee']['currency']
                kw['fee_amount'] = s['fee']['amount']
                if 'address' in s['fee']:
                    kw['fee_address'] = s['fee']['address']
            for k in ('sd_hash', 'bt_infohash', 'file_hash'):
                if k in src:
                    kw[k] = src[k]
            second = {}
            if 'sd_hash' in kw and 'bt_infohash' in kw:
                second['bt_infohash'] = kw.pop('bt_infohash')      # update() takes one of the two per call
            if 'size' in src:
                kw['file_size'] = src['size']
            for k in ('width', 'height', 'duration'):
                if k in media:
                    kw[k] = media[k]
            st.update(**kw)
            if second:
                st.update(**second)
        else:
            apply_common_setters(st, s)
            for k in ('author', 'license', 'license_url', 'release_time'):
                if k in s:
                    setattr(st, k, s[k])
            if 'fee' in s:
                setattr(st.fee, s['fee']['currency'], Decimal(s['fee']['amount']))
                if 'address' in s['fee']:
                    st.fee.address = s['fee']['address']
            if 'sd_hash' in src:
                st.source.sd_hash = src['sd_hash']
            if 'bt_infohash' in src:
                st.source.bt_infohash_bytes = bytes.fromhex(src['bt_infohash'])
            if 'file_hash' in src:
                st.source.file_hash_bytes = bytes.fromhex(src['file_hash'])
            if 'size' in src:
                st.source.size = src['size']
            if media['kind'] in ('image', 'video', 'audio'):
                m = getattr(st, media['kind'])
                for k in ('width', 'height', 'duration'):
                    if k in media:
                        setattr(m, k, media[k])
        if 'url' in src:
            st.source.url = src['url']
        if 'name' in src:
            st.source.name = src['name']
    elif t == 'channel':
        ch = claim.channel
        if via == 'update':
            kw = common_kwargs(s)
            for k in ('public_key', 'email', 'website_url', 'cover_url'):
                if k in s:
                    kw[k] = s[k]
            if 'cover_hash' in s:
                kw['cover_file_hash'] = s['cover_hash']
            if s['featured']:
                kw['featured'] = list(s['featured'])
            ch.update(**kw)
        else:
            apply_common_setters(ch, s)
            if 'public_key' in s:
                ch.public_key_bytes = bytes.fromhex(s['public_key'])
            for k in ('email', 'website_url'):
                if k in s:
                    setattr(ch, k, s[k])
            if 'cover_url' in s:
                ch.cover.url = s['cover_url']
            if 'cover_hash' in s:
                ch.cover.file_hash = s['cover_hash']
            for cid in s['featured']:
                ch.featured.append(cid)
    elif t == 'repost':
        rp = claim.repost
        if via == 'update':
            rp.update(**common_kwargs(s))
        else:
            apply_common_setters(rp, s)
        if 'claim_id' in s:
            rp.reference.claim_id = s['claim_id']
    else:
        col = claim.collection
        if via == 'update':
            kw = common_kwargs(s)
            if s['claims']:
                kw['claims'] = list(s['claims'])
            col.update(**kw)
        else:
            apply_common_setters(col, s)
            for cid in s['claims']:
                col.claims.append(cid)
    sg = s.get('signed')
    if sg:
        claim.signature = bytes.fromhex(sg['sig'])
        if sg.get('by_id'):
            claim.signing_channel_id = bytes.fromhex(sg['hash'])[::-1].hex()
        else:
            claim.signing_channel_hash = bytes.fromhex(sg['hash'])
    return claim


# ------------------------------------------------------------------------------------------------
# what the spec must look like afterwards: field numbers and encodings written down here by hand
# (claim.proto), independent of lbry.schema.attrs
# ------------------------------------------------------------------------------------------------
def expected_tags(tags):
    out = []
    for t in tags:
        n = normalize_tag_ref(t)
        if n and n not in out:
            out.append(n)
    return out


_COORD_MODE = ['exact']


def coord_units(x):
    """1e-7 degrees.  A number given as a float means its shortest decimal spelling (51.4779), which is what was set;
    mode 'binary' is the reading through Decimal(float) (51.477899999999998...), kept to recognise that one finding"""
    if isinstance(x, float):
        return int((Decimal(x) if _COORD_MODE[0] == 'binary' else Decimal(repr(x))) * 10 ** 7)
    return int(Decimal(x) * 10 ** 7)


def has_float_coord(s):
    return any(isinstance(loc['value'].get(k), float) for loc in s['locations'] for k in ('latitude', 'longitude'))


def fee_units(cur, amount):
    a = Decimal(amount)
    if cur == 'usd':
        return int(a.quantize(Decimal('0.01'), ROUND_UP) * 100)
    return int(a * 10 ** 8)


def lang_fields(tag):
    parts = tag.split('-')
    f = [tv(1, claim_pb2.Language.Language.Value(parts.pop(0)))]
    if parts and len(parts[0]) == 4:
        f.append(tv(2, claim_pb2.Language.Script.Value(parts.pop(0))))
    if parts:
        r = parts.pop(0)
        f.append(tv(3, claim_pb2.Location.Country.Value('R' + r if len(r) == 3 else r)))
    return f


def loc_fields(d):
    f = [tv(1, claim_pb2.Location.Country.Value(d['country'])) if 'country' in d else None,
         ts(2, d.get('state', '')), ts(3, d.get('city', '')), ts(4, d.get('code', ''))]
    if 'latitude' in d:
        f.append(tv(5, zigzag32(coord_units(d['latitude']))))
    if 'longitude' in d:
        f.append(tv(6, zigzag32(coord_units(d['longitude']))))
    return f


def ref_field(k, cid):
    return tm(k, [tb(1, bytes.fromhex(cid)[::-1])])


def expected_tree(s):
    t = s['type']
    top = []
    if t == 'stream':
        src, media = s['source'], s['media']
        srcf = [tb(1, bytes.fromhex(src.get('file_hash', ''))), ts(2, src.get('name', '')), tv(3, src.get('size', 0)),
                ts(4, src.get('media_type', '')), ts(5, src.get('url', '')), tb(6, bytes.fromhex(src.get('sd_hash', ''))),
                tb(7, bytes.fromhex(src.get('bt_infohash', '')))]
        body = []
        if any(x is not None for x in srcf) or 'size' in src:
            # assigning a size, even 0, makes the (possibly empty) source sub-message present
            body.append(tm(1, srcf))
        body += [ts(2, s.get('author', '')), ts(3, s.get('license', '')), ts(4, s.get('license_url', '')),
                 tv(5, s.get('release_time', 0) % M64)]
        if 'fee' in s:
            fee = s['fee']
            body.append(tm(6, [tv(1, {'lbc': 1, 'btc': 2, 'usd': 3}[fee['currency']]),
                               tb(2, bytes.fromhex(fee.get('address_raw', ''))),
                               tv(3, fee_units(fee['currency'], fee['amount']))]))
        kind = media['kind']
        if kind == 'image' and ('width' in media or 'height' in media):
            body.append(tm(10, [tv(1, media.get('width', 0)), tv(2, media.get('height', 0))]))
        if kind == 'video' and ('width' in media or 'height' in media or 'duration' in media):
            body.append(tm(11, [tv(1, media.get('width', 0)), tv(2, media.get('height', 0)), tv(3, media.get('duration', 0))]))
        if kind == 'audio' and 'duration' in media:
            body.append(tm(12, [tv(1, media['duration'])]))
        top.append(tm(1, body))
    elif t == 'channel':
        body = [tb(1, bytes.fromhex(s.get('public_key', ''))), ts(2, s.get('email', '')), ts(3, s.get('website_url', ''))]
        if s.get('cover_url') or s.get('cover_hash'):
            body.append(tm(4, [tb(1, bytes.fromhex(s.get('cover_hash', ''))), ts(5, s.get('cover_url', ''))]))
        if s['featured']:
            body.append(tm(5, [ref_field(2, c) for c in s['featured']]))
        top.append(tm(2, body))
    elif t == 'repost':
        top.append(tm(4, [tb(1, bytes.fromhex(s['claim_id'])[::-1])] if 'claim_id' in s else []))
    else:
        top.append(tm(3, [ref_field(2, c) for c in s['claims']]))
    top += [ts(8, s.get('title', '')), ts(9, s.get('description', ''))]
    if s.get('thumbnail_url') or s.get('thumbnail_hash'):
        top.append(tm(10, [tb(1, bytes.fromhex(s.get('thumbnail_hash', ''))), ts(5, s.get('thumbnail_url', ''))]))
    top += [ts(11, tg) for tg in expected_tags(s['tags'])]
    top += [tm(12, lang_fields(lg)) for lg in s['languages']]
    top += [tm(13, loc_fields(loc['value'])) for loc in s['locations']]
    return [f for f in top if f is not None]


def expected_read(s):
    """what the typed accessors must return after the round trip (canonical JSON-able form)"""
    t = s['type']
    e = {'claim_type': t, 'title': s.get('title', ''), 'description': s.get('description', ''),
         'thumbnail_url': s.get('thumbnail_url', ''), 'thumbnail_hash': s.get('thumbnail_hash', ''),
         'tags': expected_tags(s['tags']), 'langtags': list(s['languages']), 'locations': []}
    for loc in s['locations']:
        d = loc['value']
        x = {k: d[k] for k in ('country', 'state', 'city', 'code') if d.get(k)}
        for k in ('latitude', 'longitude'):
            if k in d and coord_units(d[k]) != 0:
                x[k] = coord_units(d[k])
        e['locations'].append(x)
    sg = s.get('signed')
    e['signed'] = {'hash': sg['hash'], 'sig': sg['sig'], 'id': bytes.fromhex(sg['hash'])[::-1].hex()} if sg else None
    if t == 'stream':
        src, media = s['source'], s['media']
        e.update(author=s.get('author', ''), license=s.get('license', ''), license_url=s.get('license_url', ''),
                 release_time=s.get('release_time', 0))
        if 'fee' in s:
            fee = s['fee']
            units = fee_units(fee['currency'], fee['amount'])
            per = 100 if fee['currency'] == 'usd' else 10 ** 8
            fr = Fraction(units, per)
            e['fee'] = {'currency': fee['currency'].upper(), 'amount': [fr.numerator, fr.denominator], 'units': units,
                        'address': fee.get('address'), 'address_bytes': fee.get('address_raw', '')}
        else:
            e['fee'] = None
        e['source'] = {'sd_hash': src.get('sd_hash', ''), 'bt_infohash': src.get('bt_infohash', ''),
                       'file_hash': src.get('file_hash', ''), 'name': src.get('name', ''), 'size': src.get('size', 0),
                       'media_type': src.get('media_type', ''), 'url': src.get('url', '')}
        kind = media['kind']
        if kind in ('image', 'video', 'audio') and any(k in media for k in ('width', 'height', 'duration')):
            e['stream_type'] = kind
            e['media'] = {k: media.get(k, 0) for k in
                          {'image': ('width', 'height'), 'video': ('width', 'height', 'duration'), 'audio': ('duration',)}[kind]}
        else:
            e['stream_type'] = None
            e['media'] = None
    elif t == 'channel':
        e.update(public_key=s.get('public_key', ''), email=s.get('email', ''), website_url=s.get('website_url', ''),
                 cover_url=s.get('cover_url', ''), cover_hash=s.get('cover_hash', ''), featured=list(s['featured']))
    elif t == 'repost':
        e['claim_id'] = s.get('claim_id', '')
    else:
        e['claims'] = list(s['claims'])
    return e


# ------------------------------------------------------------------------------------------------
# the JSON view (to_dict) users see: compared field by field with what was set
# ------------------------------------------------------------------------------------------------
def _coord_view(v):
    if isinstance(v, str):
        try:
            return coord_units(v)
        except Exception:                        # noqa
            return ['not a decimal', v]
    return ['not a string', v]


def expected_dict_view(s):
    t = s['type']
    e = {'title': s.get('title', ''), 'description': s.get('description', ''), 'tags': expected_tags(s['tags']),
         'languages': list(s['languages']), 'locations': [], 'thumbnail_hash': s.get('thumbnail_hash', '')}
    if t == 'channel':
        e['cover_hash'] = s.get('cover_hash', '')
    for loc in s['locations']:
        d = loc['value']
        x = {k: d[k] for k in ('country', 'state', 'city', 'code') if d.get(k)}
        for k in ('latitude', 'longitude'):
            if k in d and coord_units(d[k]) != 0:
                x[k] = coord_units(d[k])
        e['locations'].append(x)
    if t == 'stream':
        e['fee'] = None
        if 'fee' in s:
            fee = s['fee']
            units = fee_units(fee['currency'], fee['amount'])
            fr = Fraction(units, 100 if fee['currency'] == 'usd' else 10 ** 8)
            e['fee'] = {'currency': fee['currency'].upper(), 'address': fee.get('address'),
                        'amount': [fr.numerator, fr.denominator] if units else None}
        src = s['source']
        e['source'] = {k: src.get(k, '') for k in ('sd_hash', 'bt_infohash', 'file_hash')}
        e['stream_type'] = MEDIA_TYPE_KIND.get(src['media_type'], 'binary') if src.get('media_type') else None
        kind = s['media']['kind']
        e['media'] = {}
        if kind in MEDIA_FIELDS and any(f in s['media'] for f in MEDIA_FIELDS[kind]):
            e['media'] = {kind: {f: s['media'][f] for f in MEDIA_FIELDS[kind] if s['media'].get(f)}}
    elif t == 'channel':
        e['public_key'] = s.get('public_key', '')
        e['featured'] = list(s['featured'])
    elif t == 'repost':
        e['claim_id'] = s.get('claim_id', '')
    else:
        e['claims'] = list(s['claims'])
    return e


def dict_view(claim):
    t = claim.claim_type
    d = getattr(claim, t).to_dict()
    e = {'title': d.get('title', ''), 'description': d.get('description', ''), 'tags': d.get('tags', []),
         'languages': d.get('languages', []), 'locations': [], 'thumbnail_hash': d.get('thumbnail', {}).get('hash', '')}
    if t == 'channel':
        e['cover_hash'] = d.get('cover', {}).get('hash', '')
    for loc in d.get('locations', []):
        x = {k: loc[k] for k in ('country', 'state', 'city', 'code') if k in loc}
        for k in ('latitude', 'longitude'):
            if k in loc:
                x[k] = _coord_view(loc[k])
        e['locations'].append(x)
    if t == 'stream':
        e['fee'] = None
        if 'fee' in d:
            fee = d['fee']
            amount = None
            if 'amount' in fee:
                try:
                    fr = Fraction(Decimal(fee['amount']))
                    amount = [fr.numerator, fr.denominator]
                except Exception:                # noqa
                    amount = ['not a decimal', fee['amount']]
            e['fee'] = {'currency': fee.get('currency'), 'address': fee.get('address'), 'amount': amount}
        src = d.get('source', {})
        e['source'] = {'sd_hash': src.get('sd_hash', ''), 'bt_infohash': src.get('bt_infohash', ''), 'file_hash': src.get('hash', '')}
        e['stream_type'] = d.get('stream_type')
        e['media'] = {k: d[k] for k in ('image', 'video', 'audio') if k in d}
    elif t == 'channel':
        e['public_key'] = d.get('public_key', '')
        e['featured'] = d.get('featured', [])
    elif t == 'repost':
        e['claim_id'] = d.get('claim_id', '')
    else:
        e['claims'] = d.get('claims', [])
    return e


def read_back(claim):
    """the same canonical form, read from a Claim through the typed accessors of lbry.schema"""
    t = claim.claim_type
    obj = getattr(claim, t)
    e = {'claim_type': t, 'title': obj.title, 'description': obj.description, 'thumbnail_url': obj.thumbnail.url,
         'thumbnail_hash': obj.thumbnail.file_hash, 'tags': list(obj.tags), 'langtags': obj.langtags, 'locations': []}
    for loc in obj.locations:
        x = {}
        for k in ('country', 'state', 'city', 'code'):
            v = getattr(loc, k)
            if v:
                x[k] = v
        for k in ('latitude', 'longitude'):
            v = getattr(loc, k)
            if v is not None:
                x[k] = coord_units(v)
        e['locations'].append(x)
    if claim.is_signed:
        e['signed'] = {'hash': claim.signing_channel_hash.hex(), 'sig': claim.signature.hex(), 'id': claim.signing_channel_id}
    else:
        e['signed'] = None
    if t == 'stream':
        e.update(author=obj.author, license=obj.license, license_url=obj.license_url, release_time=obj.release_time)
        if obj.has_fee:
            fee = obj.fee
            cur = fee.currency
            amount = getattr(fee, cur.lower())
            units = {'LBC': lambda: fee.dewies, 'BTC': lambda: fee.satoshis, 'USD': lambda: fee.pennies}[cur]()
            fr = Fraction(amount)
            same = fee.amount == amount
            e['fee'] = {'currency': cur, 'amount': [fr.numerator, fr.denominator] if same else 'amount accessor differs',
                        'units': units, 'address': fee.address, 'address_bytes': fee.address_bytes.hex()}
        else:
            e['fee'] = None
        src = obj.source
        e['source'] = {'sd_hash': src.sd_hash, 'bt_infohash': src.bt_infohash, 'file_hash': src.file_hash,
                       'name': src.name, 'size': src.size, 'media_type': src.media_type, 'url': src.url}
        if src.sd_hash_bytes.hex() != src.sd_hash or src.file_hash_bytes.hex() != src.file_hash:
            e['source']['bytes_accessors'] = 'differ from hex accessors'
        st = obj.stream_type
        e['stream_type'] = st
        if st == 'image':
            e['media'] = {'width': obj.image.width, 'height': obj.image.height}
        elif st == 'video':
            e['media'] = {'width': obj.video.width, 'height': obj.video.height, 'duration': obj.video.duration}
        elif st == 'audio':
            e['media'] = {'duration': obj.audio.duration}
        else:
            e['media'] = None
    elif t == 'channel':
        pk = obj.message.public_key
        e.update(public_key=obj.public_key if pk else '', email=obj.email, website_url=obj.website_url,
                 cover_url=obj.cover.url, cover_hash=obj.cover.file_hash, featured=obj.featured.ids)
        if pk and obj.public_key_bytes != pk:
            e['public_key_bytes'] = 'differs'
    elif t == 'repost':
        e['claim_id'] = obj.reference.claim_id
        if obj.reference.claim_hash[::-1].hex() != e['claim_id']:
            e['claim_hash'] = 'differs'
    else:
        e['claims'] = obj.claims.ids
    return e


# ------------------------------------------------------------------------------------------------
# one claim case: build -> to_bytes -> from_bytes; monitor; model comparison
# ------------------------------------------------------------------------------------------------
def diff_keys(a, b, prefix=''):
    out = []
    if isinstance(a, dict) and isinstance(b, dict):
        for k in sorted(set(a) | set(b)):
            if a.get(k) != b.get(k):
                out += diff_keys(a.get(k), b.get(k), prefix + '.' + str(k))
        return out
    return [f'{prefix}: read {a!r} expected {b!r}'[:300]]


def env_view(obj, payload):
    if obj.is_signed:
        return {'kind': 'signed', 'hash': obj.signing_channel_hash.hex(), 'sig': obj.signature.hex(), 'payload': payload.hex()}
    return {'kind': 'unsigned', 'payload': payload.hex()}


_reported = set()


def report_once(run, case, what, signature):
    key = vlib.canon(signature)
    if key in _reported:
        return
    _reported.add(key)
    run.violation(case, what, signature=signature)


def check_claim(run, model, spec, kind):
    case = {'op': 'claim', 'spec': spec, 'kind': kind}
    run.case(case, nontrivial=True)
    run.count('claim:' + spec['type'] + ':' + ('signed' if spec.get('signed') else 'unsigned'))
    run.count('claim-via:' + spec['via'])
    claim = build_claim(spec)
    return verify_claim(run, model, case, spec, claim, {'op': 'claim', 'spec': spec})


def sig_view(o):
    return {'is_signed': o.is_signed, 'signature': o.signature.hex() if o.signature is not None else None,
            'hash': o.signing_channel_hash.hex() if o.signing_channel_hash is not None else None, 'id': o.signing_channel_id}


KNOWN_DICT_FIELDS = {'.source.bt_infohash': 'source.bt_infohash', '.thumbnail_hash': 'thumbnail.hash', '.cover_hash': 'cover.hash'}


def monitor_claim(run, case, spec, claim, back, raw):
    """the property's own statement on one (object, its bytes, what they parse back to); -> list of complaints"""
    bad = []
    if back.message != claim.message:
        bad.append('parsed message differs from the one serialised')
    if back.to_bytes() != raw:
        bad.append('re-serialised bytes differ')
    if back.version != 2:
        bad.append(f'version {back.version}')
    if sig_view(claim) != sig_view(back):
        bad.append(f'the object shows {sig_view(claim)} but its own bytes parse back to {sig_view(back)}')
    want = expected_read(spec)
    got = read_back(back)
    # known separately: a two-letter region that begins with 'R' loses that letter in Language.region
    for i, (g, w) in enumerate(zip(got['langtags'], want['langtags'])):
        reg = w.split('-')[-1]
        if g != w and '-' in w and len(reg) == 2 and reg[0] == 'R' and g == w[:-2] + reg[1:]:
            report_once(run, case, f'language tag {w!r} reads back as {g!r} (Language.region drops the leading R)',
                        {'accessor': 'Language.region'})
            got['langtags'][i] = w
    if got != want:
        bad += diff_keys(got, want)
    if spec['type'] != 'channel' or spec.get('public_key'):          # Channel.to_dict() needs a key to show
        try:
            dv, dw = dict_view(back), expected_dict_view(spec)
            if dv != dw:
                for x in diff_keys(dv, dw):
                    field = x.split(':')[0]
                    if field in KNOWN_DICT_FIELDS:
                        # known separately: hashes that to_dict() leaves in base64
                        report_once(run, case, 'to_dict()' + x, {'view': 'to_dict', 'field': KNOWN_DICT_FIELDS[field]})
                    else:
                        bad.append('to_dict()' + x)
        except Exception as ex:                  # noqa
            bad.append(f'to_dict() raises {type(ex).__name__}: {ex}')
    plain = claim_pb2.Claim()
    plain.ParseFromString(raw[85:] if raw[:1] == b'\x01' else raw[1:])
    ptree = msg_tree(plain)
    etree = expected_tree(spec)
    if ptree != etree:
        bad.append('plain protobuf parse does not show what was set: ' + json.dumps(ptree)[:400] + ' expected ' + json.dumps(etree)[:400])
    return bad


def verify_claim(run, model, case, spec, claim, signature):
    """claim: the live object after the assignments described by spec.  to_bytes -> from_bytes, monitor, model."""
    _COORD_MODE[0] = 'exact'
    raw = claim.to_bytes()
    try:
        back = Claim.from_bytes(raw)
    except Exception as ex:                      # noqa
        run.violation(case, f'to_bytes() gives {len(raw)} bytes that from_bytes() refuses: {type(ex).__name__}: {ex} '
                            f'(bytes {raw.hex()[:400]})', signature=signature)
        return None
    payload = back.to_message_bytes()
    run.count('claim-bytes:' + str(min(len(raw).bit_length(), 16)))
    bad = monitor_claim(run, case, spec, claim, back, raw)
    if bad and has_float_coord(spec):
        # the same with the coordinates read through Decimal(float): recognises that one finding, nothing else
        _COORD_MODE[0] = 'binary'
        try:
            bad2 = monitor_claim(run, case, spec, claim, back, raw)
        finally:
            _COORD_MODE[0] = 'exact'
        if not bad2:
            report_once(run, case, 'a latitude / longitude given as a number goes through Decimal(float) and does not read back '
                                   'as set: ' + '; '.join(bad)[:400], {'accessor': 'Location.latitude/longitude', 'input': 'float'})
            bad = []
            _COORD_MODE[0] = 'binary-for-this-case'
    etree = None
    # known separately: the one accessor that does not give back what was set
    if spec['type'] == 'stream' and spec['source'].get('bt_infohash'):
        try:
            v = back.stream.source.bt_infohash_bytes
            ok = (v == bytes.fromhex(spec['source']['bt_infohash']))
            desc = repr(v)[:80]
        except Exception as ex:            # noqa
            ok, desc = False, type(ex).__name__
        if not ok:
            report_once(run, case, f'Source.bt_infohash_bytes returns {desc} instead of the bytes that were set',
                        {'accessor': 'Source.bt_infohash_bytes'})
    if bad:
        run.violation(case, '; '.join(bad)[:1500], signature=signature)
        return None
    if _COORD_MODE[0] != 'exact':
        _COORD_MODE[0] = 'binary'
    try:
        etree = expected_tree(spec)
    finally:
        _COORD_MODE[0] = 'exact'
    # -- correspondence ---------------------------------------------------------------------------
    if spec['type'] == 'stream' and back.stream.has_fee and back.stream.fee.address_bytes:
        ab = back.stream.fee.address_bytes
        run.compare('C16.fee_address', case, back.stream.fee.address,
                    bytes.fromhex(model.call('fee_address', b=ab.hex()) or '').decode('ascii'))
        run.compare('C16.fee_address_bytes', case, {'ok': ab.hex()},
                    model.call('fee_address_bytes', t=spec['fee']['address'].encode().hex()))
    impl = {'env': env_view(back, payload), 'tree': {'ok': msg_tree(back.message)}}
    mod = model.call('decode_all', d=raw.hex(), schema=SCHEMA.table, depth=DEPTH, m=M_CLAIM)
    run.compare('C16.decode_all', case, impl, mod)
    sg = spec.get('signed')
    mod2 = model.call('encode_all', tree=etree, hash=sg['hash'] if sg else None, sig=sg['sig'] if sg else None)
    run.compare('C16.encode_all', case, raw.hex(), mod2)
    ok = model.call('tree_ok', tree=etree, schema=SCHEMA.table, m=M_CLAIM)
    run.compare('C16.tree_ok', case, True, ok['ok'] and ok['depth'] <= DEPTH)
    fmt = model.call('claim_format', d=raw[:1].hex())
    run.compare('C16.claim_format', case, 'v2', fmt)
    return back


def check_bare(run, model, which, sg, kind):
    """an object with NO field set at all (Claim() without a type, Support() without text), signed or not:
    what the API builds must serialise and parse back to an equal object -- the signed ones are exactly 85 bytes"""
    case = {'op': 'bare', 'which': which, 'signed': sg, 'kind': kind}
    run.case(case, nontrivial=sg is not None)
    run.count('bare:' + which + ':' + ('signed' if sg else 'unsigned'))
    cls, m = {'claim': (Claim, M_CLAIM), 'support': (Support, M_SUPPORT)}[which]
    obj = cls()
    if sg:
        obj.signature = bytes.fromhex(sg['sig'])
        obj.signing_channel_hash = bytes.fromhex(sg['hash'])
    raw = obj.to_bytes()
    sig = {'op': 'bare', 'which': which, 'data': raw.hex()}
    if len(raw) != (85 if sg else 1):
        run.violation(case, f'an empty {which} serialises to {len(raw)} bytes', signature=sig)
        return
    try:
        back = cls.from_bytes(raw)
    except Exception as ex:                      # noqa
        run.violation(case, f'the {len(raw)}-byte encoding {raw.hex()} of an empty {"signed " if sg else ""}{which} is refused by '
                            f'from_bytes: {type(ex).__name__}: {ex}', signature=sig)
        return
    bad = []
    if back.message != obj.message or back.to_bytes() != raw:
        bad.append('does not round-trip')
    if back.is_signed != bool(sg) or (sg and (back.signature.hex() != sg['sig'] or back.signing_channel_hash.hex() != sg['hash'])):
        bad.append('signature envelope not read back')
    if bad:
        run.violation(case, '; '.join(bad), signature=sig)
        return
    impl = {'env': env_view(back, b''), 'tree': {'ok': []}}
    run.compare('C16.decode_all', case, impl, model.call('decode_all', d=raw.hex(), schema=SCHEMA.table, depth=DEPTH, m=m))
    run.compare('C16.encode_all', case, raw.hex(),
                model.call('encode_all', tree=[], hash=sg['hash'] if sg else None, sig=sg['sig'] if sg else None))


# ------------------------------------------------------------------------------------------------
# several updates on ONE stream claim (the stream_update flow): the spec is updated alongside by the rules
# of the API as documented (a given currency wins over the stored one, an amount alone keeps the currency,
# an address alone keeps both, clear_fee removes the fee), and everything is verified after every step
# ------------------------------------------------------------------------------------------------
MEDIA_FIELDS = {'image': ('width', 'height'), 'video': ('width', 'height', 'duration'), 'audio': ('duration',)}
MEDIA_CODE = {'image': 0, 'video': 1, 'audio': 2}
# file names used by the type-switching steps: what the media type / stream type of each must be
FILES = {'movie.mp4': ('video/mp4', 'video'), 'clip.mkv': ('video/x-matroska', 'video'), 'A.MP4': ('video/mp4', 'video'),
         'cover.png': ('image/png', 'image'), 'pic.jpg': ('image/jpeg', 'image'), 'song.mp3': ('audio/mpeg', 'audio'),
         'd.flac': ('audio/flac', 'audio'), 'report.pdf': ('application/pdf', 'document'),
         'setup.exe': ('application/octet-stream', 'binary'), 'notes.txt': ('text/plain', 'document'),
         'thing.unknownext': ('application/x-ext-unknownext', 'binary'), 'noext': ('application/octet-stream', 'binary'),
         'model.stl': ('model/stl', 'model'), 'e.epub': ('application/epub+zip', 'document')}
MEDIA_TYPE_KIND = dict(FILES.values())
NON_MEDIA_FILES = [n for n, (_, k) in FILES.items() if k not in MEDIA_FIELDS]
MEDIA_FILES = [n for n, (_, k) in FILES.items() if k in MEDIA_FIELDS]


def media_state(kind, media):
    """[kind code, width, height, duration] when the image/video/audio sub-message is there, else None"""
    if kind in MEDIA_FIELDS and media is not None and any(f in media for f in MEDIA_FIELDS[kind]):
        return [MEDIA_CODE[kind], media.get('width', 0), media.get('height', 0), media.get('duration', 0)]
    return None


def gen_step(rng, spec):
    kinds = ['fee-new', 'fee-new', 'fee-new', 'title', 'tags', 'release', 'author', 'size', 'file', 'file', 'file', 'sign']
    if spec.get('signed'):
        kinds += ['clear-signature'] * 4
    mkind = spec.get('media', {}).get('kind')
    if mkind in MEDIA_FIELDS:
        kinds += ['media'] * 4 + ['file-non-media'] * 3
    if 'fee' in spec:
        kinds += ['fee-other-currency', 'fee-other-currency', 'fee-other-currency', 'fee-amount', 'fee-address', 'fee-clear']
    k = rng.choice(kinds)
    st = {'kind': k, 'reparse': rng.random() < 0.6}
    if k in ('fee-new', 'fee-other-currency'):
        cur = rng.choice(CURRENCIES)
        if k == 'fee-other-currency':
            cur = rng.choice([c for c in CURRENCIES if c != spec['fee']['currency']])
        st['currency'] = cur if rng.random() < 0.7 else cur.upper()
        st['amount'] = gen_amount(rng, cur)
        if rng.random() < 0.4 or 'fee' not in spec:
            st['address'], st['address_raw'] = gen_address(rng)
    elif k == 'fee-amount':
        st['amount'] = gen_amount(rng, spec['fee']['currency'])
    elif k == 'fee-address':
        st['address'], st['address_raw'] = gen_address(rng)
    elif k == 'title':
        st['title'] = gen_text(rng, 30)
    elif k == 'author':
        st['author'] = gen_text(rng, 30)
    elif k == 'tags':
        st['tags'] = gen_tags(rng) or ['x']
    elif k == 'release':
        st['release_time'] = rng.choice(I64_EDGES + [0, 0])
    elif k == 'size':
        st['size'] = rng.choice([0, 0, 1, 2 ** 64 - 1, rng.randrange(2 ** 64)])
    elif k == 'sign':
        st['hash'], st['sig'], st['by_id'] = gen_hex(rng, 20), gen_hex(rng, 64), rng.random() < 0.3
    elif k == 'media':
        fields = [f for f in MEDIA_FIELDS[mkind] if rng.random() < 0.6] or [rng.choice(MEDIA_FIELDS[mkind])]
        st['values'] = {f: rng.choice([0, 0, 0, 1, 2 ** 32 - 1, rng.randrange(1, 2 ** 32)]) for f in fields}
    elif k in ('file', 'file-non-media'):
        # the publisher replaces the file: the stream type is guessed again from the new name
        st['kind'] = 'file'
        st['name'] = rng.choice(NON_MEDIA_FILES) if k == 'file-non-media' or rng.random() < 0.4 else rng.choice(MEDIA_FILES)
        if rng.random() < 0.5:
            # numbers given along with the file, also ones the new type has no use for
            st['values'] = {f: rng.choice([0, 1, 2 ** 32 - 1, rng.randrange(1, 2 ** 32)])
                            for f in ('width', 'height', 'duration') if rng.random() < 0.5}
    if k in ('fee-new', 'fee-other-currency', 'fee-amount') and rng.random() < 0.08:
        st['amount'] = rng.choice(['0', '0.0', '0.00'])
    return st


def step_effect(spec, st):
    """-> (keyword arguments of the Stream.update call, the spec as the claim must read afterwards)"""
    spec = json.loads(json.dumps(spec))
    k = st['kind']
    kw = {}
    if k in ('fee-new', 'fee-other-currency'):
        kw = {'fee_currency': st['currency'], 'fee_amount': st['amount']}
        fee = dict(spec.get('fee') or {})
        fee['currency'], fee['amount'] = st['currency'].lower(), st['amount']
        if 'address' in st:
            kw['fee_address'] = st['address']
            fee['address'], fee['address_raw'] = st['address'], st['address_raw']
        spec['fee'] = fee
    elif k == 'fee-amount':
        kw = {'fee_amount': st['amount']}
        spec['fee']['amount'] = st['amount']
    elif k == 'fee-address':
        kw = {'fee_address': st['address']}
        spec['fee']['address'], spec['fee']['address_raw'] = st['address'], st['address_raw']
    elif k == 'fee-clear':
        kw = {'clear_fee': True}
        spec.pop('fee', None)
    elif k == 'title':
        kw = {'title': st['title']}
        spec['title'] = st['title']
    elif k == 'author':
        kw = {'author': st['author']}
        spec['author'] = st['author']
    elif k == 'tags':
        kw = {'tags': list(st['tags'])}
        spec['tags'] = spec['tags'] + st['tags']
    elif k == 'release':
        kw = {'release_time': st['release_time']}
        spec['release_time'] = st['release_time']
    elif k == 'size':
        kw = {'file_size': st['size']}
        spec['source']['size'] = st['size']
    elif k == 'sign':
        kw = None
        spec['signed'] = {'hash': st['hash'], 'sig': st['sig'], 'by_id': st['by_id']}
    elif k == 'clear-signature':
        kw = None
        spec['signed'] = None
    elif k == 'media':
        kw = dict(st['values'])
        spec['media'].update(st['values'])
    elif k == 'file':
        name = st['name']
        media_type, kind = FILES[name]
        given = st.get('values', {})
        kw = dict(given, file_name=name)
        spec['source']['name'], spec['source']['media_type'] = name, media_type
        old = spec['media']
        if kind in MEDIA_FIELDS:
            vals = {f: v for f, v in given.items() if f in MEDIA_FIELDS[kind]}
            # the same kind keeps what it had; another kind starts from nothing
            new = dict(old) if old.get('kind') == kind else {'kind': kind}
            new.update(vals)
        else:
            new = {'kind': 'none'}          # document / binary / model: no image, video or audio info may remain
        spec['media'] = new
    return kw, spec


def apply_step(claim, spec, st):
    kw, spec = step_effect(spec, st)
    if st['kind'] == 'sign':
        claim.signature = bytes.fromhex(st['sig'])
        if st['by_id']:
            claim.signing_channel_id = bytes.fromhex(st['hash'])[::-1].hex()
        else:
            claim.signing_channel_hash = bytes.fromhex(st['hash'])
    elif st['kind'] == 'clear-signature':
        claim.clear_signature()
    else:
        claim.stream.update(**kw)
    return spec


def gen_sequence(rng):
    spec = gen_claim_spec(rng)
    while spec['type'] != 'stream':
        spec = gen_claim_spec(rng)
    spec['source'].pop('name', None)          # update() re-guesses the media type from the file name: names come in by 'file' steps
    steps = []
    cur = spec
    for _ in range(rng.choice([1, 2, 2, 3, 4])):
        st = gen_step(rng, cur)
        steps.append(st)
        _, cur = step_effect(cur, st)
    return {'spec': spec, 'steps': steps}


def check_sequence(run, model, seq, kind):
    case = {'op': 'sequence', 'seq': seq, 'kind': kind}
    run.case(case, nontrivial=True)
    spec = seq['spec']
    sig = {'op': 'sequence', 'seq': seq}
    try:
        live = build_claim(spec)
        back = verify_claim(run, model, dict(case, step=0), spec, live, sig)
        sigops = [['sign', spec['signed']['hash'], spec['signed']['sig']]] if spec.get('signed') else []
        for i, st in enumerate(seq['steps'], 1):
            if back is None:
                return
            run.count('sequence-step:' + st['kind'] + (':on-parsed-copy' if st['reparse'] else ':on-same-object'))
            target = back if st['reparse'] else live          # stream_update works on Claim.from_bytes(old)
            before = media_state(spec['media'].get('kind'), spec['media'])
            spec = apply_step(target, spec, st)
            back = verify_claim(run, model, dict(case, step=i), spec, target, sig)
            live = target
            if back is not None and st['kind'] in ('sign', 'clear-signature'):
                # the signature state of the object against the model's history of sign / clear operations
                sigops.append(['sign', st['hash'], st['sig']] if st['kind'] == 'sign' else ['clear'])
                mod = model.call('sig_run', ops=sigops, payload=target.to_message_bytes().hex())
                v = sig_view(target)
                run.compare('C16.sig_run', dict(case, step=i), {'signature': v['signature'], 'hash': v['hash'], 'bytes': target.to_bytes().hex()}, mod)
            if back is not None and st['kind'] in ('file', 'media'):
                # the image/video/audio bookkeeping of Stream.update against the model's media_step
                given = st.get('values', {})
                new_kind = FILES[st['name']][1] if st['kind'] == 'file' else spec['media']['kind']
                mod = model.call('media_step', old=before, kind=MEDIA_CODE.get(new_kind), w=given.get('width'),
                                 h=given.get('height'), d=given.get('duration'))
                got = read_back(back)
                run.compare('C16.media_step', dict(case, step=i), media_state(got['stream_type'], got['media']), mod)
        if back is not None and seq['steps']:
            # the same final settings assembled directly must give the same bytes
            direct = build_claim(spec).to_bytes()
            if direct != live.to_bytes():
                run.violation(case, f'after the updates the claim is {live.to_bytes().hex()[:300]} but the same settings assembled '
                                    f'directly give {direct.hex()[:300]}', signature=sig)
    except Exception as ex:                      # noqa
        import traceback
        run.violation(case, f'{type(ex).__name__}: {ex} during an update sequence: ' + traceback.format_exc()[-500:], signature=sig)


def gen_support_spec(rng):
    s = {'emoji': rng.choice(['', '\U0001F600', '\U0001F44D\U0001F3FD', 'x']) if rng.random() < 0.7 else gen_text(rng, 6),
         'comment': gen_text(rng, 120) if rng.random() < 0.8 else ''}
    s['signed'] = {'hash': gen_hex(rng, 20), 'sig': gen_hex(rng, 64)} if rng.random() < 0.5 else None
    return s


def check_support(run, model, spec, kind):
    case = {'op': 'support', 'spec': spec, 'kind': kind}
    run.case(case, nontrivial=bool(spec['emoji'] or spec['comment'] or spec['signed']))
    run.count('support:' + ('signed' if spec['signed'] else 'unsigned'))
    sup = Support()
    if spec['emoji']:
        sup.emoji = spec['emoji']
    if spec['comment']:
        sup.comment = spec['comment']
    if spec['signed']:
        sup.signature = bytes.fromhex(spec['signed']['sig'])
        sup.signing_channel_hash = bytes.fromhex(spec['signed']['hash'])
    raw = sup.to_bytes()
    try:
        back = Support.from_bytes(raw)
    except Exception as ex:                      # noqa
        run.violation(case, f'to_bytes() gives {len(raw)} bytes that from_bytes() refuses: {type(ex).__name__}: {ex} '
                            f'(bytes {raw.hex()[:400]})', signature={'op': 'support', 'spec': spec})
        return
    bad = []
    if sig_view(sup) != sig_view(back):
        bad.append(f'the object shows {sig_view(sup)} but its own bytes parse back to {sig_view(back)}')
    if back.message != sup.message or back.to_bytes() != raw:
        bad.append('support does not round-trip')
    if back.emoji != spec['emoji'] or back.comment != spec['comment']:
        bad.append(f'emoji/comment read back {back.emoji!r} {back.comment!r}')
    if back.is_signed != bool(spec['signed']) or (spec['signed'] and (
            back.signature.hex() != spec['signed']['sig'] or back.signing_channel_hash.hex() != spec['signed']['hash'])):
        bad.append('signature envelope not read back')
    etree = [f for f in (ts(1, spec['emoji']), ts(2, spec['comment'])) if f]
    plain = support_pb2.Support()
    plain.ParseFromString(raw[85:] if spec['signed'] else raw[1:])
    if msg_tree(plain) != etree:
        bad.append('plain protobuf parse differs')
    if bad:
        run.violation(case, '; '.join(bad), signature={'op': 'support', 'spec': spec})
        return
    impl = {'env': env_view(back, back.to_message_bytes()), 'tree': {'ok': msg_tree(back.message)}}
    run.compare('C16.decode_all', case, impl, model.call('decode_all', d=raw.hex(), schema=SCHEMA.table, depth=DEPTH, m=M_SUPPORT))
    sg = spec['signed']
    run.compare('C16.encode_all', case, raw.hex(),
                model.call('encode_all', tree=etree, hash=sg['hash'] if sg else None, sig=sg['sig'] if sg else None))


def check_purchase(run, model, cid, kind):
    case = {'op': 'purchase', 'claim_id': cid, 'kind': kind}
    run.case(case, nontrivial=cid is not None)
    run.count('purchase')
    p = Purchase(cid)
    raw = p.to_bytes()
    back = Purchase.from_bytes(raw)
    bad = []
    if back.message != p.message or back.to_bytes() != raw:
        bad.append('purchase does not round-trip')
    if cid is not None and (back.claim_id != cid or back.claim_hash != bytes.fromhex(cid)[::-1]):
        bad.append(f'claim id read back {back.claim_id}')
    etree = [f for f in (tb(1, bytes.fromhex(cid)[::-1]) if cid else None,) if f]
    if bad:
        run.violation(case, '; '.join(bad), signature={'op': 'purchase', 'claim_id': cid})
        return
    payload = model.call('purchase_decode', d=raw.hex())
    run.compare('C16.purchase_decode', case, raw[1:].hex(), payload)
    run.compare('C16.purchase_decode_all', case, {'ok': msg_tree(back.message)},
                model.call('purchase_decode_all', d=raw.hex(), schema=SCHEMA.table, depth=DEPTH, m=M_PURCHASE))
    run.compare('C16.purchase_encode_all', case, raw.hex(), model.call('purchase_encode_all', tree=etree))
    for bad in (b'', raw[1:], b'Q' + raw[1:], b'p' + raw[1:]):
        try:
            Purchase.from_bytes(bad)
            impl = 'accepted'
        except DecodeError:
            impl = None
        run.compare('C16.purchase_reject', case, impl, model.call('purchase_decode', d=bad.hex()) if not bad.startswith(b'P') else 'accepted')


# ------------------------------------------------------------------------------------------------
# the stored form: the object inside an output script, through a serialised transaction and back
# (Output.pay_claim_name_pubkey_hash / pay_update_claim_pubkey_hash / pay_support_data_pubkey_hash /
#  add_purchase_data -> Transaction.raw -> Transaction(raw).outputs[0].claim / .support / .purchase_data)
# ------------------------------------------------------------------------------------------------
EMBED_PKH = bytes(range(20))
EMBED_CLAIM_ID = 'be' * 20
EMBED_SIG = {'hash': bytes(range(100, 120)).hex(), 'sig': bytes(range(64)).hex()}
EMBED_SIZES = list(range(70, 81)) + list(range(250, 261)) + list(range(65530, 65541))


def embed_build(obj, pad, extra):
    """an object of the given shape whose text is padded with `pad` characters (`extra` shifts the size by a few bytes)"""
    if obj in ('stream', 'signed-stream'):
        c = Claim()
        c.stream.update(sd_hash='cd' * 48, title='t' * pad)
        if extra:
            c.stream.description = 'd' * extra
        if obj == 'signed-stream':
            c.signature, c.signing_channel_hash = bytes.fromhex(EMBED_SIG['sig']), bytes.fromhex(EMBED_SIG['hash'])
        return c
    if obj == 'channel':
        c = Claim()
        c.channel.public_key_bytes = b'\x02' + bytes(range(32))
        c.channel.title = 'k' * pad
        if extra:
            c.channel.description = 'd' * extra
        return c
    if obj in ('support', 'signed-support'):
        sp = Support()
        if pad:
            sp.comment = 'c' * pad
        if extra:
            sp.emoji = 'e' * extra
        if obj == 'signed-support':
            sp.signature, sp.signing_channel_hash = bytes.fromhex(EMBED_SIG['sig']), bytes.fromhex(EMBED_SIG['hash'])
        return sp
    p = Purchase()
    p.claim_hash = bytes((i * 7 + extra) % 256 for i in range(pad))
    return p


def embed_fit(obj, size):
    """(pad, extra) such that the object serialises to exactly `size` bytes, or None"""
    for extra in (0, 1, 2):
        lo, hi = 0, size
        while lo <= hi:
            mid = (lo + hi) // 2
            n = len(embed_build(obj, mid, extra).to_bytes())
            if n == size:
                return mid, extra
            if n < size:
                lo = mid + 1
            else:
                hi = mid - 1
    return None


def check_embedding(run, model, obj, carrier, pad, extra, kind):
    from lbry.wallet import Transaction, Input, Output
    case = {'op': 'embed', 'obj': obj, 'carrier': carrier, 'pad': pad, 'extra': extra, 'kind': kind}
    o = embed_build(obj, pad, extra)
    data = o.to_bytes()
    case['size'] = len(data)
    run.case(case, nontrivial=True)
    run.count('embed:' + carrier + ':' + ('<76' if len(data) < 76 else '76..255' if len(data) < 256 else '256..65535' if len(data) < 65536 else '>=65536'))
    sig = {'op': 'embed', 'obj': obj, 'carrier': carrier, 'size': len(data)}
    name = '@name' if obj == 'channel' else 'name'
    if carrier == 'claim_name':
        txo = Output.pay_claim_name_pubkey_hash(1000, name, o, EMBED_PKH)
    elif carrier == 'update_claim':
        txo = Output.pay_update_claim_pubkey_hash(1000, name, EMBED_CLAIM_ID, o, EMBED_PKH)
    elif carrier == 'support_data':
        txo = Output.pay_support_data_pubkey_hash(1000, name, EMBED_CLAIM_ID, o, EMBED_PKH)
    else:
        txo = Output.add_purchase_data(o)
    try:
        source = txo.script.source
        funding = Transaction().add_outputs([Output.pay_pubkey_hash(10 ** 8, EMBED_PKH)])
        tx = Transaction().add_inputs([Input.spend(funding.outputs[0])]).add_outputs([txo])
        parsed = Transaction(tx.raw)
        back = parsed.outputs[0]
        got = back.claim if carrier in ('claim_name', 'update_claim') else back.support if carrier == 'support_data' else back.purchase_data
        bad = []
        if got.to_bytes() != data:
            bad.append(f'read back {got.to_bytes().hex()[:80]}... instead of {data.hex()[:80]}...')
        if carrier != 'return_data':
            if got.is_signed != o.is_signed or got.signature != o.signature or got.signing_channel_hash != o.signing_channel_hash:
                bad.append('signature envelope differs')
            if back.claim_name != name:
                bad.append(f'claim name {back.claim_name!r}')
            if carrier != 'claim_name' and back.claim_id != EMBED_CLAIM_ID:
                bad.append(f'claim id {back.claim_id}')
        if obj in ('stream', 'signed-stream') and (got.stream.title != 't' * pad or got.stream.source.sd_hash != 'cd' * 48):
            bad.append('title / sd_hash differ')
        if obj == 'channel' and (got.channel.title != 'k' * pad or got.channel.public_key_bytes != b'\x02' + bytes(range(32))):
            bad.append('title / public key differ')
        if obj in ('support', 'signed-support') and (got.comment != 'c' * pad or got.emoji != 'e' * extra):
            bad.append('comment / emoji differ')
        if obj == 'purchase' and got.claim_hash != o.claim_hash:
            bad.append('purchased claim hash differs')
    except Exception as ex:                      # noqa
        bad = [f'{type(ex).__name__}: {str(ex)[:120]}']
        source = back = None
    if bad:
        run.violation(case, f'a {len(data)}-byte {obj} stored in a {carrier} output does not come back from the serialised '
                            f'transaction: ' + '; '.join(bad), signature=sig)
        return
    cid_raw = b'' if carrier in ('claim_name', 'return_data') else bytes.fromhex(EMBED_CLAIM_ID)[::-1]
    nm = b'' if carrier == 'return_data' else name.encode()
    pk = b'' if carrier == 'return_data' else EMBED_PKH
    run.compare('C16.embed', case, source.hex(),
                model.call('embed', carrier=carrier, name=nm.hex(), claim_id=cid_raw.hex(), pkh=pk.hex(), payload=data.hex()))
    run.compare('C16.extract_payload', case, data.hex(), model.call('extract_payload', src=back.script.source.hex()))


def check_sign_clear(run, model, which, via, text, kind):
    """build, sign, clear again (directly, on a parsed copy, or through Output.clear_signature as claim_update /
    --clear_channel do): afterwards the object must equal what its own bytes parse back to and name no channel"""
    from lbry.wallet import Transaction, Input, Output
    from lbry.wallet.script import OutputScript
    case = {'op': 'sign-clear', 'which': which, 'via': via, 'text': text, 'kind': kind}
    run.case(case, nontrivial=True)
    run.count('sign-clear:' + which + ':' + via)
    sig = {'op': 'sign-clear', 'which': which, 'via': via, 'text': text}
    cls = Claim if which == 'claim' else Support
    o = cls()
    if which == 'claim':
        o.stream.title = text
    elif text:
        o.comment = text
    never_signed = o.to_bytes()
    o.signature, o.signing_channel_hash = bytes.fromhex(EMBED_SIG['sig']), bytes.fromhex(EMBED_SIG['hash'])
    signed = o.to_bytes()
    bad = []
    if via == 'object':
        o.clear_signature()
        final = o
    elif via == 'parsed-copy':
        final = cls.from_bytes(signed)
        final.clear_signature()
    else:
        if which == 'claim':
            txo = Output.pay_update_claim_pubkey_hash(1000, 'name', EMBED_CLAIM_ID, o, EMBED_PKH)
        else:
            txo = Output.pay_support_data_pubkey_hash(1000, 'name', EMBED_CLAIM_ID, o, EMBED_PKH)
        txo.clear_signature()
        final = txo.signable
        funding = Transaction().add_outputs([Output.pay_pubkey_hash(10 ** 8, EMBED_PKH)])
        tx = Transaction().add_inputs([Input.spend(funding.outputs[0])]).add_outputs([txo])
        stored = Transaction(tx.raw).outputs[0].signable
        if sig_view(stored) != sig_view(final) or stored.to_bytes() != final.to_bytes():
            bad.append(f'the stored output reads {sig_view(stored)}, the object in memory {sig_view(final)}')
    raw = final.to_bytes()
    back = cls.from_bytes(raw)
    if raw != never_signed:
        bad.append('after clear_signature the bytes differ from the never-signed object')
    if sig_view(final) != sig_view(back):
        bad.append(f'after clear_signature the object shows {sig_view(final)} but its own bytes parse back to {sig_view(back)}')
    if final.is_signed or final.signing_channel_id is not None or final.signing_channel_hash is not None:
        bad.append(f'after clear_signature the object still names channel {final.signing_channel_id}')
    if bad:
        run.violation(case, '; '.join(bad), signature=sig)
        return
    mod = model.call('sig_run', ops=[['sign', EMBED_SIG['hash'], EMBED_SIG['sig']], ['clear']], payload=final.to_message_bytes().hex())
    v = sig_view(final)
    run.compare('C16.sig_run', case, {'signature': v['signature'], 'hash': v['hash'], 'bytes': raw.hex()}, mod)
    mod = model.call('sig_run', ops=[['sign', EMBED_SIG['hash'], EMBED_SIG['sig']]], payload=final.to_message_bytes().hex())
    run.compare('C16.sig_run', case, {'signature': EMBED_SIG['sig'], 'hash': EMBED_SIG['hash'], 'bytes': signed.hex()}, mod)


# ------------------------------------------------------------------------------------------------
# typed views: a claim that has a type is asked for the view of ANOTHER type, directly or by the file database
# (SQLiteStorage.save_claims probes claim.stream.source.sd_hash on every claim before it serialises it)
# ------------------------------------------------------------------------------------------------
TYPE_CODE = {'stream': 1, 'channel': 2, 'collection': 3, 'repost': 4}
_storage = {}


def file_database():
    """one real SQLiteStorage per run, in a temporary directory"""
    if 'storage' not in _storage:
        import asyncio
        import tempfile
        from lbry.conf import Config
        from lbry.extras.daemon.storage import SQLiteStorage
        d = tempfile.mkdtemp(prefix='c16_')
        loop = asyncio.new_event_loop()
        conf = Config(data_dir=d, wallet_dir=d, download_dir=d, config=os.path.join(d, 'settings.yml'))
        st = SQLiteStorage(conf, os.path.join(d, 'lbrynet.sqlite'), loop=loop)
        loop.run_until_complete(st.open())
        _storage.update(storage=st, loop=loop, dir=d, n=0)
    return _storage


def close_file_database():
    if 'storage' in _storage:
        import shutil
        try:
            _storage['loop'].run_until_complete(_storage['storage'].close())
            _storage['loop'].close()
        finally:
            shutil.rmtree(_storage['dir'], ignore_errors=True)
            _storage.clear()


def check_type_probe(run, model, spec, other, via, kind):
    case = {'op': 'type-probe', 'spec': spec, 'other': other, 'via': via, 'kind': kind}
    run.case(case, nontrivial=True)
    run.count('type-probe:' + spec['type'] + '->' + other + ':' + via)
    sig = {'op': 'type-probe', 'spec': spec, 'other': other, 'via': via}
    try:
        claim = build_claim(spec)
        if via.startswith('parsed'):
            claim = Claim.from_bytes(claim.to_bytes())
        t0, raw0, view0 = claim.claim_type, claim.to_bytes(), read_back(claim)
        bad = []
        granted = None
        if via in ('accessor', 'parsed-accessor'):
            try:
                getattr(claim, other)
                granted = True
            except ValueError:
                granted = False
            if granted != (other == t0):
                bad.append(f'asking a {t0} claim for .{other} ' + ('did not raise ValueError' if granted else 'raised'))
        else:
            db = file_database()
            db['n'] += 1
            cid = '%040x' % db['n']
            db['loop'].run_until_complete(db['storage'].save_claims([{
                'claim_id': cid, 'name': 'name', 'amount': '1.0', 'address': 'bW5PZEvEBNPQRVhwpYXSjabFgbSw1oaHyR',
                'txid': '%064x' % db['n'], 'nout': 0, 'value': claim, 'height': 100, 'claim_sequence': -1}]))
            row = db['loop'].run_until_complete(db['storage'].db.execute_fetchall(
                'select serialized_metadata from claim where claim_id=?', (cid,)))
            v = row[0][0]
            stored = bytes.fromhex(v.decode() if isinstance(v, bytes) else v)
            if stored != raw0:
                try:
                    st_type = Claim.from_bytes(stored).claim_type
                except Exception as ex:          # noqa
                    st_type = type(ex).__name__
                bad.append(f'the file database stored {stored.hex()[:120]} (parses back as {st_type!r}) for the {t0} claim {raw0.hex()[:120]}')
        if claim.claim_type != t0:
            bad.append(f'the {t0} claim has become a {claim.claim_type!r} claim')
        elif claim.to_bytes() != raw0:
            bad.append(f'the bytes of the {t0} claim changed: {raw0.hex()[:120]} -> {claim.to_bytes().hex()[:120]}')
        elif read_back(claim) != view0:
            bad.append('the fields of the claim changed: ' + '; '.join(diff_keys(read_back(claim), view0))[:300])
    except Exception as ex:                      # noqa
        import traceback
        bad = [f'{type(ex).__name__}: {ex}: ' + traceback.format_exc()[-300:]]
    if bad:
        run.violation(case, '; '.join(bad), signature=sig)
        return
    if granted is not None:
        run.compare('C16.claim_view', case, {'type': TYPE_CODE[claim.claim_type], 'granted': granted},
                    model.call('claim_view', cur=TYPE_CODE[t0], req=TYPE_CODE[other]))
    # and the claim still is everything its spec says
    verify_claim(run, model, case, spec, claim, sig)


# ------------------------------------------------------------------------------------------------
# object independence: objects built earlier keep their bytes and values when later ones are built
# ------------------------------------------------------------------------------------------------
def gen_group(rng):
    items = []
    for _ in range(rng.choice([2, 2, 3, 4])):
        k = rng.choice(['purchase', 'purchase', 'purchase', 'support', 'claim'])
        if k == 'purchase':
            items.append({'kind': k, 'claim_id': gen_claim_id(rng) if rng.random() < 0.85 else None,
                          'via': rng.choice(['constructor', 'constructor', 'setter', 'from_bytes'])})
        elif k == 'support':
            items.append({'kind': k, 'spec': gen_support_spec(rng)})
        else:
            spec = gen_claim_spec(rng)
            items.append({'kind': k, 'spec': spec})
    return items


def _build_item(it):
    """-> (object, snapshot of what it shows)"""
    if it['kind'] == 'purchase':
        cid = it['claim_id']
        if it['via'] == 'constructor':
            p = Purchase(cid)
        elif it['via'] == 'setter':
            p = Purchase()
            if cid is not None:
                p.claim_id = cid
        else:
            p = Purchase.from_bytes(b'P' + ((b'\x0a\x14' + bytes.fromhex(cid)[::-1]) if cid is not None else b''))
        want = b'P' + ((b'\x0a\x14' + bytes.fromhex(cid)[::-1]) if cid is not None else b'')
        return p, want, (lambda o: (o.to_bytes(), o.claim_id, o.claim_hash))
    if it['kind'] == 'support':
        sp = it['spec']
        o = Support()
        if sp['emoji']:
            o.emoji = sp['emoji']
        if sp['comment']:
            o.comment = sp['comment']
        if sp['signed']:
            o.signature, o.signing_channel_hash = bytes.fromhex(sp['signed']['sig']), bytes.fromhex(sp['signed']['hash'])
        return o, None, (lambda o: (o.to_bytes(), o.emoji, o.comment, o.signature, o.signing_channel_hash))
    o = build_claim(it['spec'])
    return o, None, (lambda o: (o.to_bytes(), json.dumps(read_back(o), sort_keys=True)))


def check_independence(run, model, items, kind):
    case = {'op': 'independence', 'items': items, 'kind': kind}
    run.case(case, nontrivial=True)
    run.count('independence:%d-objects' % len(items))
    sig = {'op': 'independence', 'items': items}
    alive = []
    try:
        for i, it in enumerate(items):
            obj, want, view = _build_item(it)
            snap = view(obj)
            if want is not None and snap[0] != want:
                run.violation(case, f'object {i} ({it["kind"]} {it.get("claim_id")}) serialises to {snap[0].hex()}, expected {want.hex()} '
                                    f'(built after {i} other objects)', signature=sig)
                return
            alive.append((obj, snap, view, it))
            for j, (o, sn, vw, jt) in enumerate(alive[:-1]):
                now = vw(o)
                if now != sn:
                    run.violation(case, f'object {j} ({jt["kind"]}) changed after object {i} ({it["kind"]}) was built: '
                                        f'bytes {sn[0].hex()[:120]} -> {now[0].hex()[:120]}', signature=sig)
                    return
        fresh = Purchase()
        if fresh.to_bytes() != b'P' or fresh.claim_hash != b'':
            run.violation(case, f'a new Purchase() is not empty after others were built: {fresh.to_bytes().hex()}', signature=sig)
            return
        for o, sn, vw, jt in alive:
            if vw(o) != sn:
                run.violation(case, f'a {jt["kind"]} changed after an empty Purchase() was built', signature=sig)
                return
    except Exception as ex:                      # noqa
        import traceback
        run.violation(case, f'{type(ex).__name__}: {ex}: ' + traceback.format_exc()[-400:], signature=sig)
        return
    # the model is a pure function of each object's own fields: every purchase still encodes as the model says
    for o, sn, vw, it in alive:
        if it['kind'] == 'purchase':
            cid = it['claim_id']
            etree = [tb(1, bytes.fromhex(cid)[::-1])] if cid else []
            run.compare('C16.purchase_encode_all', case, sn[0].hex(), model.call('purchase_encode_all', tree=etree))


# ------------------------------------------------------------------------------------------------
# URLs
# ------------------------------------------------------------------------------------------------
PUNCT_FORBIDDEN = '=&#:$@%?;"/\\<>{}|^~`[]'
STRUCTURAL = ':#$/@'


def cp_forbidden(c):
    o = ord(c)
    return c in PUNCT_FORBIDDEN or o <= 0x20 or 0xD800 <= o <= 0xDFFF or o in (0xFFFE, 0xFFFF)


def ref_segment(t, want_channel):
    """hand-written reading of one claim segment (no regular expression)"""
    i = min([t.index(c) for c in ':#$' if c in t] or [len(t)])
    name, mod = t[:i], t[i:]
    inner = name
    if want_channel:
        if not name.startswith('@'):
            return None
        inner = name[1:]
    if not inner or any(cp_forbidden(c) for c in inner):
        return None
    seg = {'name': name, 'claim_id': None, 'amount': None}
    if mod == '':
        return seg
    body = mod[1:]
    if mod[0] in ':#':
        if 1 <= len(body) <= 40 and all(c in '0123456789abcdef' for c in body):
            seg['claim_id'] = body
            return seg
        return None
    if body and body[0] in '123456789' and all(c in '0123456789' for c in body):
        seg['amount'] = body
        return seg
    return None


def ref_parse(s):
    body = s[7:] if s.startswith('lbry://') else s
    parts = body.split('/')
    if len(parts) == 1:
        if body.startswith('@'):
            seg = ref_segment(body, True)
            return {'stream': None, 'channel': seg} if seg else None
        seg = ref_segment(body, False)
        return {'stream': seg, 'channel': None} if seg else None
    if len(parts) == 2:
        ch, st = ref_segment(parts[0], True), ref_segment(parts[1], False)
        return {'stream': st, 'channel': ch} if ch and st else None
    return None


def seg_view(p):
    if p is None:
        return None
    return {'name': p.name, 'claim_id': p.claim_id, 'amount': p.amount_order}


def impl_url(s):
    try:
        u = URL.parse(s)
    except ValueError:
        return None, None
    return {'stream': seg_view(u.stream), 'channel': seg_view(u.channel)}, str(u)


def cps(s):
    return [ord(c) for c in s]


def uncps(l):
    return ''.join(chr(c) for c in l)


def model_url_view(m):
    if m is None:
        return None
    out = {}
    for k in ('stream', 'channel'):
        g = m[k]
        out[k] = None if g is None else {'name': uncps(g['name']),
                                         'claim_id': None if g['claim_id'] is None else uncps(g['claim_id']),
                                         'amount': None if g['amount'] is None else uncps(g['amount'])}
    return out


def url_to_model(u):
    out = {}
    for k in ('stream', 'channel'):
        g = u[k]
        out[k] = None if g is None else {'name': cps(g['name']),
                                         'claim_id': None if g['claim_id'] is None else cps(g['claim_id']),
                                         'amount': None if g['amount'] is None else cps(g['amount'])}
    return out


NAME_POOL = (list('abcdefghijklmnopqrstuvwxyzABCDEFXYZ0123456789') * 2 + list("-_.*!'()+,") +
             ['é', '中', '́', '!', '\u007f', '\u0080', ' ', ' ', '퟿', '', '�',
              '﷐', '\U00010000', '\U0001F600', '\U0010FFFF', '　', '\u0085'])
BAD_POOL = (list(PUNCT_FORBIDDEN) + ['\u0000', '\u0001', '\t', '\n', '\r', '\u000b', '\u000c', '\u001f', ' ', '\ud800', '\udbff',
                                    '\udc00', '\udfff', '￾', '￿'])


def gen_name(rng):
    c = rng.random()
    if c < 0.12:
        return ''.join(rng.choice('0123456789abcdef') for _ in range(rng.randrange(1, 6)))     # looks like a claim id
    if c < 0.2:
        return rng.choice(['lbry', 'lbry:', 'a', '0', 'x' * 300, 'test*1', '퟿', '', '�']).replace(':', '')
    return ''.join(rng.choice(NAME_POOL) for _ in range(rng.randrange(1, 14)))


def gen_modifier(rng):
    c = rng.random()
    if c < 0.35:
        return None, None
    if c < 0.75:
        n = rng.choice([1, 1, 2, 8, 39, 40, 40, rng.randrange(1, 41)])
        return ''.join(rng.choice('0123456789abcdef') for _ in range(n)), None
    d = rng.choice('123456789') + ''.join(rng.choice('0123456789') for _ in range(rng.choice([0, 0, 1, 2, 5, 25])))
    return None, d


def gen_url(rng):
    """a URL drawn from the grammar: (parts, spelling)"""
    form = rng.choice(['stream', 'channel', 'both'])
    u = {'stream': None, 'channel': None}
    text = 'lbry://' if rng.random() < 0.6 else ''
    if form in ('channel', 'both'):
        cid, amt = gen_modifier(rng)
        u['channel'] = {'name': '@' + gen_name(rng), 'claim_id': cid, 'amount': amt}
        text += u['channel']['name'] + ((rng.choice(':#') + cid) if cid else ('$' + amt) if amt else '')
    if form == 'both':
        text += '/'
    if form in ('stream', 'both'):
        cid, amt = gen_modifier(rng)
        u['stream'] = {'name': gen_name(rng), 'claim_id': cid, 'amount': amt}
        text += u['stream']['name'] + ((rng.choice(':#') + cid) if cid else ('$' + amt) if amt else '')
    return u, text


def corrupt(rng, s):
    c = rng.random()
    if c < 0.3:
        i = rng.randrange(len(s) + 1)
        return s[:i] + rng.choice(BAD_POOL) + s[i:]
    if c < 0.45:
        i = rng.randrange(len(s))
        return s[:i] + rng.choice(BAD_POOL) + s[i + 1:]
    if c < 0.55:
        i = rng.randrange(len(s))
        return s[:i] + s[i + 1:]
    if c < 0.7:
        return s + rng.choice(['\n', ' ', '\r\n', '/', ':', '#', '$', '$0', ':g', ':A', '#' + 'a' * 41, ':' + 'f' * 41, '$01', '\x00',
                               '/x/y', '@', '?a=b', ' ', '\n\n'])
    if c < 0.8:
        return rng.choice(['lbry://', 'lbry:/', 'LBRY://', ' ', '\n', 'lbry://lbry://', 'x/', '@/', 'http://']) + s
    if c < 0.9:
        i = rng.randrange(len(s))
        return s[:i] + s[i].upper() + s[i + 1:] if s[i].upper() != s[i] else s[:i] + s[i] * 2 + s[i + 1:]
    i = rng.randrange(len(s) + 1)
    return s[:i] + rng.choice(NAME_POOL) + s[i:]


URL_VALID_FIXED = ['test', 'test*1', 'test$1', 'test#63f2da17b0d90042c559cc73b6b17f853945c43e',
                   'test:63f2da17b0d90042c559cc73b6b17f853945c43e', '@test', '@test$1', '@test#63f2', '@test:63f2',
                   'lbry://@test/stuff', 'lbry://@test$1/stuff', 'lbry://@test#ab/stuff', 'lbry://@test:ab/stuff',
                   '@test:1/stuff#2', '퟿', '', '�', 'lbry', 'lbry://lbry', 'lbry:a', 'lbry:ab', 'lbry://a:' + 'f' * 40, 'a$' + '9' * 60]
URL_INVALID_FIXED = ['', 'lbry://', 'lbry://\u0000', 'lbry://\u0008', 'lbry://\u000b', 'lbry://\u000c', 'lbry://\u000e', 'lbry://\u001f',
                     'lbry://\ud800', 'lbry://\udfff', 'lbry://\udffe', 'lbry://￿', 'lbry://￾', 'lbry://;', 'lbry://no\ttab',
                     'lbry://no space', 'lbry://no\rcr', 'lbry://no\new\nline', 'lbry://"', 'lbry://\\', 'lbry:///', 'lbry://<',
                     'lbry://>', 'lbry://{', 'lbry://}', 'lbry://[', 'lbry://]', 'lbry://%', 'lbry://|', 'lbry://^', 'lbry://~',
                     'lbry://`', 'lbry://test:3$1', 'lbry://test$1:1', 'lbry://test#x', 'lbry://test#x/page', 'lbry://test$',
                     'lbry://test#', 'lbry://test:', 'lbry://test$x', 'lbry://test:x', 'lbry://@test@', 'lbry://@test:',
                     'lbry://test@', 'lbry://tes@t', 'lbry://test:1#63f2da17b0d90042c559cc73b6b17f853945c43e', 'lbry://test$0',
                     'lbry://test/path', 'lbry://test:1:1:1', 'whatever/lbry://test', 'lbry://lbry://test', 'lbry://@/what',
                     'lbry://abc:0x123', 'lbry://abc:0x123/page', 'lbry://@test1#ABCDEF/fakepath',
                     'lbry://@test1$1/fakepath?arg1&arg2&arg3', 'lbry://foo\n', 'foo\n', '@foo\n', '@a/b\n', 'a:1\n', 'a$1\n',
                     '\nfoo', 'lbry://a:' + 'f' * 41, 'a#' + '0' * 41, '@', 'lbry://@', '@:1', '@$1', ':1', '$1', '#', '/', '@a/', '@a/@b',
                     'a/b', '@a/b/c', 'a$01', 'a$', 'a:F', 'LBRY://a', 'lbry:/a', 'lbry:', 'lbry:1/x', 'lbry:g']


def check_url(run, model, s, kind, parts=None):
    """parts: the reading the string was generated from (None for arbitrary strings)"""
    case = {'op': 'url', 's': s, 'kind': kind}
    if parts is not None:
        case['parts'] = parts
    impl, printed = impl_url(s)
    run.case(case, nontrivial=True)
    run.count('url:' + kind + ':' + ('accept' if impl is not None else 'reject'))
    bad = []
    ref = parts if parts is not None else ref_parse(s)
    if parts is not None and ref_parse(s) != parts:
        bad.append('harness: reference reading disagrees with the generator')
    if any(cp_forbidden(c) and c not in STRUCTURAL for c in s) and impl is not None:
        bad.append('a string containing a forbidden code point was accepted')
    if ref is None and impl is not None:
        bad.append(f'outside the grammar but parsed to {impl}')
    elif ref is not None and impl is None:
        bad.append('in the grammar but rejected')
    elif ref is not None:
        if impl != ref:
            bad.append(f'parts {impl} expected {ref}')
        canon = ('' if s.startswith('lbry://') else 'lbry://') + s.replace('#', ':')
        if printed != canon:
            bad.append(f'prints as {printed!r}, expected {canon!r}')
        again, printed2 = impl_url(printed)
        if again != impl or printed2 != printed:
            bad.append('parse(print(u)) differs from u')
    if bad:
        run.violation(case, '; '.join(bad)[:1000], signature={'op': 'url', 's': s})
        return
    m = model.call('url_parse', s=cps(s))
    run.compare('C16.url_parse', case, impl, model_url_view(m))
    if impl is not None:
        run.compare('C16.url_print', case, printed, uncps(model.call('url_print', u=url_to_model(impl))))
        run.compare('C16.url_canon', case, printed, uncps(model.call('canon', s=cps(s))))


# ------------------------------------------------------------------------------------------------
# the two legacy encodings (correspondence only: decoding still works and shows the recorded values)
# ------------------------------------------------------------------------------------------------
def load_corpus(name):
    p = os.path.join(CORPUS, name)
    if not os.path.exists(p):
        return []
    return json.load(open(p))


def legacy_read(claim):
    t = claim.claim_type
    out = {'version': claim.version, 'claim_type': t, 'signed': claim.is_signed}
    if t == 'stream':
        st = claim.stream
        out.update(title=st.title, description=st.description, author=st.author, license=st.license,
                   license_url=st.license_url, langtags=st.langtags, media_type=st.source.media_type,
                   sd_hash=st.source.sd_hash, thumbnail_url=st.thumbnail.url, tags=list(st.tags))
        if st.has_fee:
            out['fee'] = {'currency': st.fee.currency, 'units': st.message.fee.amount, 'address': st.fee.address}
        else:
            out['fee'] = None
    elif t == 'channel':
        out['public_key'] = claim.channel.public_key
    if claim.is_signed:
        out['signature'] = claim.signature.hex()
        out['signing_channel_id'] = claim.signing_channel_id
        out['signature_type'] = claim.signature_type
    return out


def ref_partial_langtag(tag):
    """what is left of a language tag after the decoder has consumed as much as it can, in its order: language,
    a 4-letter script, a 2-letter region, a 3-digit region; whatever cannot be consumed is dropped, an unknown code stops
    the reading; nothing at all readable leaves an empty entry"""
    parts = tag.split('-')
    lang = parts.pop(0)
    if lang not in LANGS:
        return ''
    script = region = None
    try:
        if parts and len(parts[0]) == 4:
            p = parts.pop(0)
            if p not in SCRIPTS:
                raise KeyError
            script = p
        if parts and len(parts[0]) == 2 and parts[0].isalpha():
            p = parts.pop(0)
            if p not in ALPHA2:
                raise KeyError
            region = p
        if parts and len(parts[0]) == 3 and parts[0].isdigit():
            p = parts.pop(0)
            if p not in REGION3:
                raise KeyError
            region = p
    except KeyError:
        pass
    return '-'.join(x for x in (lang, script, region) if x)


LEGACY_LANGUAGE_TAILS = ['-x', '-foo', '-cmn-Hans', '-US-x', '-Latn-US-posix', '-u-co-phonebk', '-1996', '-US-419', '-', '--',
                         '-Latn-', '-us', '-br', '-LATN', '-Hans-CN-x-private', '-001-x', '-valencia']


def gen_legacy_language(rng):
    """(value of the JSON "language" key, the language tags the decoded claim must show)"""
    c = rng.random()
    if c < 0.15:
        return rng.choice(['English', 'english', 'ENGLISH', 'eNgLiSh']), ['en']
    if c < 0.35:
        tag = rng.choice(LANGS)
        return tag, [tag]
    if c < 0.5:
        tag = gen_language(rng)                       # language[-script][-region], all known codes
        return tag, [tag]
    if c < 0.8:
        base = gen_language(rng) if rng.random() < 0.5 else rng.choice(['en', 'zh', 'es', 'pt', 'de'])
        tag = base + rng.choice(LEGACY_LANGUAGE_TAILS)  # a valid start followed by subtags the API cannot consume
        return tag, [ref_partial_langtag(tag)]
    tag = rng.choice(['Klingon', 'xx', 'e n', 'EN', 'En', 'en_US', 'EN-us', ' en', 'en ', 'eng', 'english-US', '-en', 'zz-Latn'])
    return tag, [ref_partial_langtag(tag)]


def gen_legacy_json(rng):
    d = {'sources': {'lbry_sd_hash': gen_hex(rng, 48)}}
    e = {'version': 0, 'claim_type': 'stream', 'signed': False, 'sd_hash': d['sources']['lbry_sd_hash']}
    for k in ('title', 'description', 'author', 'license', 'license_url'):
        if rng.random() < 0.7:
            d[k] = gen_text(rng, 40)
        e[k] = d.get(k, '')
    c = rng.random()
    if c < 0.4:
        d['content_type'] = 'video/mp4'
    elif c < 0.8:
        d['content-type'] = rng.choice(['audio/mpeg', 'application/x-msdownload', ''])
    e['media_type'] = d.get('content_type', d.get('content-type')) or 'application/octet-stream'
    if rng.random() < 0.5:
        d['thumbnail'] = rng.choice(['', 'http://t/x.png', '/home/x.jpg'])
    e['thumbnail_url'] = d.get('thumbnail', '')
    e['langtags'] = []
    if rng.random() < 0.8:
        d['language'], e['langtags'] = gen_legacy_language(rng)
    if rng.random() < 0.5:
        d['nsfw'] = rng.random() < 0.5
    e['tags'] = ['mature'] if d.get('nsfw') else []
    if rng.random() < 0.2:
        d['ver'] = rng.choice(['0.0.1', '0.0.2', '0.0.3'])
    e['fee'] = None
    if rng.random() < 0.5:
        cur = rng.choice(['LBC', 'USD', 'BTC'])
        addr, _ = gen_address(rng)
        # amounts exactly representable as binary floats with <= 2 decimals: no float noise, no rounding
        amount = rng.choice([1, 10, 1.0, 0.5, 0.25, 2.75, 15, 100.0, 12345, 0.75])
        d['fee'] = {cur: {'amount': amount, 'address': addr}}
        per = 100 if cur == 'USD' else 10 ** 8
        e['fee'] = {'currency': cur, 'units': int(Fraction(amount) * per), 'address': addr}
    return json.dumps(d, ensure_ascii=rng.random() < 0.5), e


def gen_legacy_v1(rng):
    old = legacy_claim_pb2.Claim()
    old.version = 1
    if rng.random() < 0.25:
        old.claimType = 2
        old.certificate.version = 1
        old.certificate.keyType = 3
        pk = bytes([rng.choice([2, 3])]) + bytes(rng.randrange(256) for _ in range(32))
        old.certificate.publicKey = pk
        return old.SerializeToString(), {'version': 1, 'claim_type': 'channel', 'signed': False, 'public_key': pk.hex()}
    old.claimType = 1
    st = old.stream
    st.version = 1
    md = st.metadata
    md.version = rng.choice([1, 2, 3, 4])
    lang = rng.choice(LANGS[:40])
    md.language = V1_LANGS.get(lang, 1)
    e_lang = lang if lang in V1_LANGS else 'en'
    md.title = gen_text(rng, 40)
    md.description = gen_text(rng, 120)
    md.author = gen_text(rng, 20)
    md.license = gen_text(rng, 20)
    md.nsfw = rng.random() < 0.4
    e = {'version': 1, 'claim_type': 'stream', 'title': md.title, 'description': md.description, 'author': md.author,
         'license': md.license, 'tags': ['mature'] if md.nsfw else [], 'thumbnail_url': '', 'license_url': '', 'fee': None}
    if rng.random() < 0.5:
        md.thumbnail = 'http://t/' + gen_plain(rng, 10).replace(' ', '')
        e['thumbnail_url'] = md.thumbnail
    if rng.random() < 0.5:
        md.licenseUrl = 'http://l/' + gen_plain(rng, 10).replace(' ', '')
        e['license_url'] = md.licenseUrl
    if rng.random() < 0.5:
        md.fee.version = 1
        cur = rng.choice(['LBC', 'BTC', 'USD'])
        md.fee.currency = {'LBC': 1, 'BTC': 2, 'USD': 3}[cur]
        addr, raw = gen_address(rng)
        md.fee.address = bytes.fromhex(raw)
        amount = rng.choice([1.0, 0.5, 15.0, 0.25, 100.0, 2.75, 4096.0])     # exact as float32
        md.fee.amount = amount
        per = 100 if cur == 'USD' else 10 ** 8
        e['fee'] = {'currency': cur, 'units': int(Fraction(amount) * per), 'address': addr}
    st.source.version = 1
    st.source.sourceType = 1
    st.source.source = bytes(rng.randrange(256) for _ in range(48))
    st.source.contentType = rng.choice(['video/mp4', 'application/octet-stream', 'audio/ogg'])
    e.update(sd_hash=st.source.source.hex(), media_type=st.source.contentType, langtags=[e_lang], signed=False)
    if rng.random() < 0.5:
        sig = old.publisherSignature
        sig.version = 1
        sig.signatureType = rng.choice([1, 2, 3])
        # NIST384p signatures are 96 bytes: such a claim decodes, but has no place in the 64-byte slot of the current envelope
        sig.signature = bytes(rng.randrange(256) for _ in range(96 if sig.signatureType == 2 and rng.random() < 0.6 else 64))
        sig.certificateId = bytes(rng.randrange(256) for _ in range(20))
        e.update(signed=True, signature=sig.signature.hex(), signing_channel_id=sig.certificateId.hex(),
                 signature_type={1: 'NIST256p', 2: 'NIST384p', 3: 'SECP256k1'}[sig.signatureType])
    return old.SerializeToString(), e


_md = legacy_claim_pb2.Claim.DESCRIPTOR.fields_by_name['stream'].message_type.fields_by_name['metadata'].message_type
V1_LANGS = {v.name: v.number for v in _md.fields_by_name['language'].enum_type.values if v.number != 0}


def rd_pb_varint(b, i):
    v, sh = 0, 0
    while True:
        c = b[i]
        i += 1
        v |= (c & 0x7F) << sh
        sh += 7
        if not c & 0x80:
            return v, i


def strip_top_field(data, fno):
    """the same message bytes with every top-level occurrence of field fno cut out (hand-written walk)"""
    out, i = b'', 0
    while i < len(data):
        start = i
        tag, i = rd_pb_varint(data, i)
        wt = tag & 7
        if wt == 0:
            _, i = rd_pb_varint(data, i)
        elif wt == 1:
            i += 8
        elif wt == 2:
            n, i = rd_pb_varint(data, i)
            i += n
        elif wt == 5:
            i += 4
        else:
            raise ValueError('group')
        if tag >> 3 != fno:
            out += data[start:i]
    return out


def check_legacy(run, model, data, expect, kind, channel_tx=None, stream_tx=None):
    """data: bytes of a claim in one of the two legacy encodings; expect: the values it must decode to"""
    case = {'op': 'legacy', 'data': data.hex(), 'expect': expect, 'kind': kind}
    run.case(case, nontrivial=True)
    fmt = model.call('claim_format', d=data.hex())
    run.count('legacy:' + fmt)
    try:
        claim = Claim.from_bytes(data)
    except Exception as ex:                                   # noqa
        run.violation(case, f'legacy claim no longer decodes ({type(ex).__name__} escapes Claim.from_bytes): {ex}'[:300],
                      signature={'op': 'legacy', 'data': data.hex()})
        return
    got = legacy_read(claim)
    want = dict(expect)
    miss = [f'{k}: read {got.get(k)!r} expected {v!r}'[:200] for k, v in want.items() if got.get(k) != v]
    if miss:
        run.violation(case, 'legacy claim decodes to other values: ' + '; '.join(miss)[:1200],
                      signature={'op': 'legacy', 'data': data.hex()})
        return
    run.compare('C16.claim_format', case, {0: 'json', 1: 'v1', 2: 'v2'}[claim.version], fmt)
    if claim.version == 1:
        # what a legacy signature is checked over: the v1 message without its publisherSignature (field 5), and the
        # signature / signing channel a plain protobuf parse of the same bytes shows
        plain = legacy_claim_pb2.Claim()
        plain.ParseFromString(data)
        sigbad = []
        if plain.HasField('publisherSignature'):
            run.count('legacy:v1-signed')
            want_payload = strip_top_field(data, 5)
            if claim.unsigned_payload != want_payload:
                up = claim.unsigned_payload
                sigbad.append(f'unsigned_payload is {len(up) if up is not None else None} bytes, not the {len(want_payload)} bytes of the '
                              'v1 message without its publisherSignature')
            if claim.signature != plain.publisherSignature.signature:
                sigbad.append('signature differs from the plain protobuf parse')
            if claim.signing_channel_hash != plain.publisherSignature.certificateId[::-1]:
                sigbad.append('signing channel differs from the plain protobuf parse')
        elif claim.is_signed or claim.unsigned_payload is not None:
            sigbad.append('an unsigned v1 claim decodes as signed')
        if not sigbad and channel_tx is not None:
            # a real on-chain signature must still validate over that payload
            from lbry.wallet import Ledger, Database, Headers, Transaction
            ledger = Ledger({'db': Database(':memory:'), 'headers': Headers(':memory:')})
            s_txo = Transaction(bytes.fromhex(stream_tx)).outputs[0]
            c_txo = Transaction(bytes.fromhex(channel_tx)).outputs[0]
            run.count('legacy:on-chain-signature')
            if not s_txo.is_signed_by(c_txo, ledger):
                sigbad.append('the on-chain legacy signature no longer validates')
        if sigbad:
            run.violation(case, 'signed legacy claim: ' + '; '.join(sigbad), signature={'op': 'legacy', 'data': data.hex()})
            return
        if plain.HasField('publisherSignature'):
            run.compare('C16.v1_unsigned_payload', case, {'ok': claim.unsigned_payload.hex()},
                        model.call('v1_unsigned_payload', d=data.hex()))
        # the v1 encoding is protobuf too (proto2, with a 32-bit float): the wire model reads it as well
        old = legacy_claim_pb2.Claim()
        old.ParseFromString(data)
        run.compare('C16.v1_tree', case, {'ok': msg_tree(old)},
                    model.call('parse_tree', d=data.hex(), schema=SCHEMA.table, depth=DEPTH, m=M_V1))
        run.compare('C16.v1_ser', case, data.hex(), model.call('ser_tree', tree=msg_tree(old)))
    if claim.is_signed and len(claim.signature) != 64:
        run.count('legacy:signature-not-64-bytes(decode only)')
        return
    # a decoded legacy claim is an ordinary claim from here on: it must survive the current encoding
    raw = claim.to_bytes()
    back = Claim.from_bytes(raw)
    if back.message != claim.message or back.is_signed != claim.is_signed:
        run.violation(case, 'a decoded legacy claim does not survive to_bytes/from_bytes',
                      signature={'op': 'legacy-reencode', 'data': data.hex()})
        return
    impl = {'env': env_view(back, back.to_message_bytes()), 'tree': {'ok': msg_tree(back.message)}}
    run.compare('C16.decode_all', case, impl, model.call('decode_all', d=raw.hex(), schema=SCHEMA.table, depth=DEPTH, m=M_CLAIM))


# ------------------------------------------------------------------------------------------------
# malformed stream: envelope / dispatch on damaged bytes, wire parser on damaged payloads
# ------------------------------------------------------------------------------------------------
def strings_valid(tree, m):
    """every string-typed field of a model tree holds valid UTF-8 (the real parser insists on that)"""
    for f in tree:
        k, t, v = f
        if t == 'm':
            sub = SCHEMA.msg_of(m, k)
            if sub is not None and not strings_valid(v, sub):
                return False
        elif t == 'b' and (m, k) in SCHEMA.strings:
            try:
                bytes.fromhex(v).decode('utf-8')
            except UnicodeDecodeError:
                return False
    return True


def known_only(tree, m):
    """drop what the real parser files under unknown fields (undeclared number, or wire type not the declared one):
    it keeps and re-emits them, but they are not fields of the message"""
    decl = {e[0]: e[1] for e in SCHEMA.table[m][1]}
    out = []
    for k, t, v in tree:
        if decl.get(k) != t:
            continue
        out.append([k, t, known_only(v, SCHEMA.msg_of(m, k))] if t == 'm' else [k, t, v])
    return out


def check_signable_bytes(run, model, data, kind):
    """Support.from_bytes is Signable.from_bytes unchanged: outcome class on arbitrary bytes"""
    case = {'op': 'support-bytes', 'data': data.hex(), 'kind': kind}
    run.case(case, nontrivial=len(data) > 0)
    try:
        sup = Support.from_bytes(data)
        impl = {'kind': 'signed' if sup.is_signed else 'unsigned'}
        if sup.is_signed:
            impl.update(hash=sup.signing_channel_hash.hex(), sig=sup.signature.hex())
        parsed = True
    except IndexError:
        impl, parsed = 'index-error', None          # the behaviour before ee15672: not a decode error
    except (DecodeError, UnicodeDecodeError) as ex:
        parsed = False
        impl = 'version' if 'format version' in str(ex) else 'payload'
        if 'Empty payload' in str(ex):
            impl, parsed = 'empty', None
    run.count('support-bytes:' + (impl if isinstance(impl, str) else impl['kind']))
    mod = model.call('decode_all', d=data.hex(), schema=SCHEMA.table, depth=DEPTH, m=M_SUPPORT)
    # monitor: version bytes other than 0 and 1 are refused, 0/1 are not refused for their version
    if data and data[0] > 1 and impl != 'version':
        run.violation(case, f'version byte {data[0]} was not refused', signature={'op': 'support-bytes', 'data': data.hex()})
        return
    if data and data[0] <= 1 and impl == 'version':
        run.violation(case, f'version byte {data[0]} refused', signature={'op': 'support-bytes', 'data': data.hex()})
        return
    if isinstance(mod, str):
        run.compare('C16.env_decode', case, impl, mod)
        return
    env = {k: v for k, v in mod['env'].items() if k != 'payload'}
    verdict = mod['tree']
    if verdict == 'group':
        run.count('support-bytes:group-skipped')
        return
    model_ok = isinstance(verdict, dict) and strings_valid(verdict['ok'], M_SUPPORT)
    run.compare('C16.env_decode', case, impl if parsed else 'payload', env if model_ok else 'payload')


def check_claim_dispatch(run, model, data, kind):
    """Claim.from_bytes on damaged bytes: which decoder is chosen"""
    case = {'op': 'claim-bytes', 'data': data.hex(), 'kind': kind}
    run.case(case, nontrivial=len(data) > 0)
    fmt = model.call('claim_format', d=data.hex())
    run.count('claim-bytes:' + fmt)
    try:
        c = Claim.from_bytes(data)
        impl = {0: 'json', 1: 'v1', 2: 'v2'}[c.version]
    except IndexError:
        impl = 'index-error'
    except DecodeError as ex:
        impl = 'empty' if 'Empty payload' in str(ex) else None
    except Exception as ex:                 # noqa  (which class a refusal has is not a matter of this property)
        run.count('claim-bytes:refused-with-' + type(ex).__name__)
        impl = None
    if impl is None:
        if fmt == 'v2':
            mod = model.call('decode_all', d=data.hex(), schema=SCHEMA.table, depth=DEPTH, m=M_CLAIM)
            v = mod['tree'] if isinstance(mod, dict) else mod
            if isinstance(v, dict) and strings_valid(v['ok'], M_CLAIM):
                run.disagreement('C16.claim_dispatch', case, 'refused', 'model parses the payload')
            else:
                run.compare('C16.claim_dispatch', case, 'refused', 'refused')
        return
    run.compare('C16.claim_dispatch', case, impl, fmt)


def check_wire(run, model, payload, m, cls, kind):
    """the wire model against the real protobuf parser on (possibly damaged) message bytes"""
    case = {'op': 'wire', 'data': payload.hex(), 'm': m, 'kind': kind}
    run.case(case, nontrivial=len(payload) > 0)
    msg = cls()
    try:
        msg.ParseFromString(payload)
        impl_ok = True
    except (DecodeError, UnicodeDecodeError):       # invalid UTF-8 in a string field surfaces as UnicodeDecodeError
        impl_ok = False
    mod = model.call('parse_tree', d=payload.hex(), schema=SCHEMA.table, depth=DEPTH, m=m)
    if mod == 'group':
        run.count('wire:group-skipped')
        return
    model_ok = isinstance(mod, dict) and strings_valid(mod['ok'], m)
    run.count('wire:' + ('ok' if impl_ok else 'refused'))
    if not run.compare('C16.wire_verdict', case, impl_ok, model_ok):
        return
    if impl_ok and msg.SerializeToString() == payload:
        run.count('wire:reserialises')
        run.compare('C16.wire_tree', case, msg_tree(msg), known_only(mod['ok'], m))
        if known_only(mod['ok'], m) == mod['ok']:
            # no unknown fields (those are kept and re-emitted verbatim, overlong tags included): the bytes are canonical
            run.count('wire:canonical')
            run.compare('C16.wire_ser', case, payload.hex(), model.call('ser_tree', tree=mod['ok']))
            flat = model.call('wire_parse', d=payload.hex())
            run.compare('C16.wire_flat_ser', case, payload.hex(),
                        model.call('ser_fields', fields=flat['ok']) if isinstance(flat, dict) else flat)


def damage(rng, b):
    if not b:
        return bytes([rng.randrange(256)])
    c = rng.random()
    ba = bytearray(b)
    if c < 0.35:
        i = rng.randrange(len(ba))
        ba[i] = rng.choice([0, 1, 2, 7, 0x7f, 0x80, 0xff, ba[i] ^ (1 << rng.randrange(8)), rng.randrange(256)])
    elif c < 0.55:
        del ba[rng.randrange(len(ba)):]
    elif c < 0.7:
        i = rng.randrange(len(ba) + 1)
        ba[i:i] = bytes(rng.randrange(256) for _ in range(rng.randrange(1, 4)))
    elif c < 0.8:
        del ba[rng.randrange(len(ba))]
    elif c < 0.9:
        ba += rng.choice([b'\x00', b'\x08', b'\x0a\x05ab', b'\x0d\x01\x02\x03\x04', b'\x09' + b'\x01' * 8, b'\xff' * 11,
                          b'\x80' * 9 + b'\x01', b'\x80' * 10, b'\x0b\x0c', b'\x0f', b'\x0e'])
    else:
        ba = bytearray(rng.randrange(256) for _ in range(rng.randrange(0, 12)))
    return bytes(ba)


def check_varint(run, model, n, kind):
    case = {'op': 'varint', 'n': n, 'kind': kind}
    run.case(case, nontrivial=n > 0)
    run.count('varint:bytes=%d' % max(1, (n.bit_length() + 6) // 7))
    # the real encoder: serialise a message holding n in a uint64 field (Source.size = field 3)
    src = claim_pb2.Source()
    src.size = n
    raw = src.SerializeToString()
    impl = raw[1:].hex() if n else model.call('varint_encode', n=0)      # zero is not written at all in proto3
    run.compare('C16.varint_encode', case, impl, model.call('varint_encode', n=n))
    if n:
        back = claim_pb2.Source()
        back.ParseFromString(raw)
        if back.size != n:
            run.violation(case, f'uint64 {n} read back as {back.size}', signature={'op': 'varint', 'n': n})
        run.compare('C16.varint_decode', case, [n, ''], model.call('varint_decode', d=raw[1:].hex()))
    # typed views
    z = n - 2 ** 63
    t = claim_pb2.Stream()
    t.release_time = z
    if z:
        run.compare('C16.int64', case, msg_tree(t)[0][2], model.call('int64_enc', z=z))
        run.compare('C16.int64_dec', case, z, model.call('int64_dec', n=model.call('int64_enc', z=z)))
    z32 = (n % 2 ** 32) - 2 ** 31
    loc = claim_pb2.Location()
    loc.latitude = z32
    if z32:
        run.compare('C16.zigzag', case, msg_tree(loc)[0][2], model.call('zigzag_enc', z=z32))
        run.compare('C16.zigzag_dec', case, z32, model.call('zigzag_dec', n=model.call('zigzag_enc', z=z32)))


# ------------------------------------------------------------------------------------------------
# hex / byte-order views of the accessors (claim ids, channel ids, hashes)
# ------------------------------------------------------------------------------------------------
def check_hash_view(run, model, h, kind):
    case = {'op': 'hash-view', 'h': h.hex(), 'kind': kind}
    run.case(case, nontrivial=len(h) > 0)
    run.count('hash-view:len=%d' % min(len(h), 49))
    ref = Purchase()
    ref.claim_hash = h
    cid = ref.claim_id
    src = claim_pb2.Source()
    from lbry.schema.attrs import Source
    acc = Source(src)
    acc.sd_hash_bytes = h
    sup = Support()
    sup.signing_channel_hash = h
    bad = []
    if cid != h[::-1].hex():
        bad.append(f'claim_id of hash is {cid}')
    if acc.sd_hash != h.hex():
        bad.append(f'sd_hash of bytes is {acc.sd_hash}')
    if h and sup.signing_channel_id != h[::-1].hex():
        bad.append(f'signing_channel_id is {sup.signing_channel_id}')
    ref2 = Purchase(cid)
    if ref2.claim_hash != h:
        bad.append('hash -> id -> hash is not the identity')
    if bad:
        run.violation(case, '; '.join(bad), signature={'op': 'hash-view', 'h': h.hex()})
        return
    run.compare('C16.claim_id_of_hash', case, cid, bytes.fromhex(model.call('claim_id_of_hash', h=h.hex())).decode('ascii'))
    run.compare('C16.hexlify', case, acc.sd_hash, bytes.fromhex(model.call('hexlify', b=h.hex())).decode('ascii'))


def check_claim_id_text(run, model, s, kind):
    """setting an id from arbitrary text: accepted exactly when it is an even number of hex digits"""
    case = {'op': 'claim-id-text', 's': s, 'kind': kind}
    run.case(case, nontrivial=len(s) > 0)
    ref = Purchase()
    try:
        ref.claim_id = s
        impl = ref.claim_hash.hex()
    except ValueError:                      # binascii.Error is a ValueError
        impl = None
    run.count('claim-id-text:' + ('accept' if impl is not None else 'reject'))
    want_ok = len(s) % 2 == 0 and all(c in '0123456789abcdefABCDEF' for c in s)
    if want_ok != (impl is not None):
        run.violation(case, f'claim id text {s!r}: accepted={impl is not None}', signature={'op': 'claim-id-text', 's': s})
        return
    if impl is not None and ref.claim_id != s.lower():
        run.violation(case, f'claim id {s!r} reads back as {ref.claim_id!r}', signature={'op': 'claim-id-text', 's': s})
        return
    run.compare('C16.hash_of_claim_id', case, impl, model.call('hash_of_claim_id', s=s.encode('utf-8').hex()))


def gen_id_text(rng):
    n = rng.choice([0, 1, 2, 3, 39, 40, 40, 41, 42, rng.randrange(0, 100)])
    s = ''.join(rng.choice('0123456789abcdef') for _ in range(n))
    c = rng.random()
    if c < 0.2:
        s = s.upper()
    elif c < 0.35:
        s = ''.join(ch.upper() if rng.random() < 0.5 else ch for ch in s)
    elif c < 0.55 and s:
        i = rng.randrange(len(s))
        s = s[:i] + rng.choice('gGxz /:@`\u00e9\uff11\u0661 \n') + s[i + 1:]
    return s


# ------------------------------------------------------------------------------------------------
def small_scope_urls(maxlen):
    """every string up to maxlen over an alphabet that holds one member of each class of the grammar"""
    alphabet = ['a', '1', '0', 'g', '@', ':', '#', '$', '/', '\n']
    out = ['']
    layer = ['']
    for _ in range(maxlen):
        layer = [p + c for p in layer for c in alphabet]
        out += layer
    return out


def run_claim_spec(run, model, spec, kind):
    try:
        check_claim(run, model, spec, kind)
    except Exception as ex:                  # noqa: the API refusing a well-formed assignment is a finding
        import traceback
        run.violation({'op': 'claim', 'spec': spec, 'kind': kind},
                      f'{type(ex).__name__}: {ex} while assembling / encoding / decoding the claim: '
                      + traceback.format_exc()[-600:], signature={'op': 'claim', 'spec': spec})


def main(run):
    model = vlib.Model('C16')
    rng = run.rng
    q = lambda a, b: vlib.scaled(run.tier, a, b)        # noqa
    run.rule = ('claims: random field assignments per claim type (stream/channel/repost/collection) applied through '
                'update() or through the accessors: unicode text incl. astral, NUL and length edges 127/128/16383/16384 bytes, '
                'uint64/uint32/int64 edges, fees in LBC/BTC/USD incl. the uint64 edge and finer-than-unit amounts, 0..N tags / '
                'languages (language[-script][-region], alpha-2 and UN M.49 regions) / locations (dict, JSON and colon forms incl. the colon '
                'form with an empty country and >= 3 parts, and every choice of the six positions short and written out, +-90/+-180) / claim references, with and without a signature envelope (hash set directly or by id); sequences of 1..4 '
                'further update() calls on one stream claim (fee re-priced in another currency, amount only, address only, clear_fee, title, '
                'tags, release time), applied to the same object or to the parsed copy and verified after every step; objects with no '
                'field at all, signed (exactly 85 bytes) and unsigned; every claim type asked for the typed view of every other type (directly, on a '
                'parsed copy, and through the real SQLiteStorage.save_claims) and re-read; the stored form: stream / signed stream / channel claims, supports and '
                'purchases padded to every serialised size 70..80, 250..260 and 65530..65540 bytes, put into claim_name / update_claim / '
                'support / OP_RETURN outputs, serialised as a transaction and read back (quick: the 65530..65540 sweep for three of the seven '
                'shapes, thorough: all); file-replacing update steps that switch the stream type media <-> document/binary/model; groups of 2..4 purchases / supports / claims built one after another and '
                're-read afterwards (object independence); the to_dict() JSON view (tags, languages, locations incl. single and zero '
                'coordinates, fee, hashes, references) against what was set; supports and '
                'purchases; legacy JSON and v1 protobuf claims built from random values (half of the v1 ones with a publisherSignature: '
                'unsigned_payload against the message minus field 5) plus the upstream fixtures and three on-chain ytsync claims whose '
                'signature must validate; damaged bytes '
                '(bit flips, truncation, insertions, every first byte) against envelope, dispatch and the wire parser; varint / '
                'int64 / zigzag values at every 7-bit boundary; URLs drawn from the grammar (names over ASCII, punctuation, BMP and '
                'astral code points, hex-looking names; claim ids of length 1..40, amount orders; both separators; with and without '
                'scheme), one-edit corruptions with every forbidden code point, modifier damage, trailing garbage, and all strings '
                'up to a small length over a 10-letter alphabet. distinct = distinct (op, input); non-trivial = non-empty input.')
    # -- corpus first ------------------------------------------------------------------------------
    for e in load_corpus('claims.json'):
        run_claim_spec(run, model, e['spec'], 'corpus')
    for e in load_corpus('legacy.json'):
        check_legacy(run, model, bytes.fromhex(e['data']), e['expect'], 'corpus')
    for e in load_corpus('legacy_signed.json'):
        from lbry.wallet import Transaction
        raw = Transaction(bytes.fromhex(e['txs']['stream_tx'])).outputs[0].script.values['claim']
        if raw[0] in (0, 1):
            # an on-chain claim in the current encoding: bytes -> object -> the same bytes, and the model reads the same
            case = {'op': 'onchain-v2', 'data': raw.hex(), 'kind': 'corpus-on-chain'}
            run.case(case, nontrivial=True)
            run.count('onchain-v2')
            c = Claim.from_bytes(raw)
            if c.to_bytes() != raw or c.version != 2:
                run.violation(case, 'an on-chain claim does not re-serialise to its own bytes', signature={'op': 'onchain-v2', 'data': raw.hex()})
            else:
                run.compare('C16.decode_all', case, {'env': env_view(c, c.to_message_bytes()), 'tree': {'ok': msg_tree(c.message)}},
                            model.call('decode_all', d=raw.hex(), schema=SCHEMA.table, depth=DEPTH, m=M_CLAIM))
            continue
        check_legacy(run, model, raw, {'version': 1, 'claim_type': 'stream', 'signed': True}, 'corpus-on-chain',
                     channel_tx=e['txs']['channel_tx'], stream_tx=e['txs']['stream_tx'])
    for e in load_corpus('sequences.json'):
        check_sequence(run, model, e['seq'], 'corpus')
    for which in ('support', 'claim'):
        check_bare(run, model, which, None, 'boundary')
        check_bare(run, model, which, {'hash': bytes(range(1, 21)).hex(), 'sig': bytes(range(100, 164)).hex()}, 'boundary')
        check_bare(run, model, which, {'hash': '00' * 20, 'sig': '00' * 64}, 'boundary')
    urls = load_corpus('urls.json') or {'valid': URL_VALID_FIXED, 'invalid': URL_INVALID_FIXED}
    for s in urls['valid']:
        check_url(run, model, s, 'corpus-valid')
        if impl_url(s)[0] is None:
            run.violation({'op': 'url', 's': s, 'kind': 'corpus-valid'}, 'a URL of the valid list is refused', signature={'op': 'url', 's': s})
    for s in urls['invalid']:
        check_url(run, model, s, 'corpus-invalid')
        if impl_url(s)[0] is not None:
            run.violation({'op': 'url', 's': s, 'kind': 'corpus-invalid'}, 'a URL of the invalid list is accepted', signature={'op': 'url', 's': s})
    # -- claims, supports, purchases ------------------------------------------------------------------
    raws = []
    for _ in range(q(2500, 60000)):
        spec = gen_claim_spec(rng)
        run_claim_spec(run, model, spec, 'generated')
        if len(raws) < 400 and rng.random() < 0.3:
            try:
                raws.append(build_claim(spec).to_bytes())
            except Exception:           # noqa
                pass
    for _ in range(q(500, 12000)):
        check_sequence(run, model, gen_sequence(rng), 'generated')
    for _ in range(q(300, 6000)):
        check_support(run, model, gen_support_spec(rng), 'generated')
        if rng.random() < 0.1:
            check_bare(run, model, rng.choice(['support', 'claim']), {'hash': gen_hex(rng, 20), 'sig': gen_hex(rng, 64)}, 'generated')
    check_purchase(run, model, None, 'boundary')
    # -- stored form: every shape at every size around the three push-encoding boundaries ----------------
    shapes = [('stream', 'claim_name'), ('stream', 'update_claim'), ('signed-stream', 'claim_name'), ('channel', 'claim_name'),
              ('support', 'support_data'), ('signed-support', 'support_data'), ('purchase', 'return_data')]
    for size in EMBED_SIZES:
        for obj, carrier in shapes:
            if size > 60000 and run.tier != 'thorough' and (obj, carrier) not in (('stream', 'claim_name'), ('support', 'support_data'),
                                                                                 ('signed-stream', 'claim_name')):
                continue
            fit = embed_fit(obj, size)
            if fit is None:
                run.count('embed:size-not-reachable')
                continue
            check_embedding(run, model, obj, carrier, fit[0], fit[1], 'size-sweep')
    for _ in range(q(60, 1500)):
        obj, carrier = rng.choice(shapes)
        check_embedding(run, model, obj, carrier, rng.choice([0, 1, 2, 19, 36, 73, rng.randrange(0, 400)]), rng.choice([0, 0, 1, 2]), 'generated')
    # -- typed views: every type asked for every other view, directly, on a parsed copy, and by the file database --
    probes = {}
    for e in load_corpus('claims.json'):
        probes.setdefault(e['spec']['type'], e['spec'])
    fixed = {t: sp for t, sp in (load_corpus('type_probe.json') or {}).items()}
    for t, sp in list(fixed.items()) + [(t, probes[t]) for t in probes if t not in fixed]:
        for other in ('stream', 'channel', 'collection', 'repost'):
            for via in ('accessor', 'parsed-accessor'):
                check_type_probe(run, model, sp, other, via, 'family')
        check_type_probe(run, model, sp, 'stream', 'save_claims', 'family')
        check_type_probe(run, model, sp, 'stream', 'parsed-save_claims', 'family')
    for _ in range(q(60, 1500)):
        sp = gen_claim_spec(rng)
        check_type_probe(run, model, sp, rng.choice(['stream', 'channel', 'collection', 'repost']),
                         rng.choice(['accessor', 'parsed-accessor', 'save_claims', 'parsed-save_claims']), 'generated')
    close_file_database()
    for which in ('claim', 'support'):
        for via in ('object', 'parsed-copy', 'output'):
            for text in ('', 'hello', 'x' * 200):
                if which == 'claim' or text != '' or via != 'output':
                    check_sign_clear(run, model, which, via, text, 'family')
    for e in load_corpus('groups.json'):
        check_independence(run, model, e['items'], 'corpus')
    for _ in range(q(200, 4000)):
        check_independence(run, model, gen_group(rng), 'generated')
    for _ in range(q(200, 4000)):
        check_purchase(run, model, gen_claim_id(rng), 'generated')
    # -- legacy ---------------------------------------------------------------------------------------
    for _ in range(q(300, 6000)):
        text, e = gen_legacy_json(rng)
        check_legacy(run, model, text.encode('utf-8'), e, 'generated-json')
        data, e = gen_legacy_v1(rng)
        check_legacy(run, model, data, e, 'generated-v1')
    # -- numbers --------------------------------------------------------------------------------------
    edges = {0, 1, 2 ** 64 - 1, 2 ** 63, 2 ** 63 - 1, 2 ** 63 + 1, 2 ** 32, 2 ** 31}
    for k in range(1, 10):
        edges |= {2 ** (7 * k) - 1, 2 ** (7 * k), 2 ** (7 * k) + 1}
    for n in sorted(edges):
        check_varint(run, model, n, 'boundary')
    for _ in range(q(500, 20000)):
        check_varint(run, model, rng.randrange(2 ** rng.randrange(1, 65)), 'generated')
    # -- hex views -----------------------------------------------------------------------------------------
    for n in (0, 1, 19, 20, 21, 32, 33, 48):
        check_hash_view(run, model, bytes(range(n)), 'boundary')
        check_hash_view(run, model, b'\xff' * n, 'boundary')
    for _ in range(q(300, 6000)):
        check_hash_view(run, model, bytes(rng.randrange(256) for _ in range(rng.choice([20, 20, 33, 48, rng.randrange(0, 50)]))), 'generated')
        check_claim_id_text(run, model, gen_id_text(rng), 'generated')
    # -- damaged bytes -----------------------------------------------------------------------------------
    sup = Support()
    sup.comment = 'hi'
    sup.signature, sup.signing_channel_hash = b'\x05' * 64, b'\x07' * 20
    sraw = sup.to_bytes()
    check_signable_bytes(run, model, b'', 'boundary')
    check_claim_dispatch(run, model, b'', 'boundary')
    for b0 in range(256):
        check_signable_bytes(run, model, bytes([b0]) + sraw[1:], 'first-byte')
        check_signable_bytes(run, model, bytes([b0]) + sraw[85:], 'first-byte')
        check_claim_dispatch(run, model, bytes([b0]) + sraw[85:], 'first-byte')
    for n in range(0, len(sraw) + 1):
        check_signable_bytes(run, model, sraw[:n], 'truncated')
    for _ in range(q(600, 20000)):
        base = rng.choice(raws) if raws else sraw
        d = damage(rng, base)
        check_claim_dispatch(run, model, d, 'damaged')
        check_signable_bytes(run, model, damage(rng, sraw), 'damaged')
        payload = base[85:] if base[:1] == b'\x01' else base[1:]
        check_wire(run, model, payload, M_CLAIM, claim_pb2.Claim, 'intact')
        check_wire(run, model, damage(rng, payload), M_CLAIM, claim_pb2.Claim, 'damaged')
    # -- URLs --------------------------------------------------------------------------------------------
    for _ in range(q(5000, 150000)):
        u, s = gen_url(rng)
        check_url(run, model, s, 'grammar', parts=u)
        check_url(run, model, corrupt(rng, s), 'one-edit')
    for c in BAD_POOL + [chr(i) for i in range(0, 0x21)]:
        for base in ('lbry://name', '@chan:ab/stream$2'):
            for pos in (0, 7 if base.startswith('lbry') else 1, len(base) // 2, len(base)):
                check_url(run, model, base[:pos] + c + base[pos:], 'forbidden-inserted')
    for s in small_scope_urls(q(3, 5)):
        check_url(run, model, s, 'small-scope')
    # -- compact location strings: every choice of positions (drawn last: the random stream of the older families stays where it was)
    for sp in compact_location_specs(rng):
        d = sp['locations'][0]['value']
        run.count('location-string:' + ('country' if 'country' in d else 'empty-country') + ':' + sp['locations'][0]['form'])
        run_claim_spec(run, model, sp, 'location-string-family')
    run.exhaustive = True
    run.notes.append({'exhaustive': f'all strings of length <= {q(3, 5)} over [a 1 0 g @ : # $ / \\n] (URL grammar); every first '
                                    'byte 0..255 and every truncation length of a signed envelope'})
    run.partial = ['the typed accessors of attrs.py (Fee decimal arithmetic, Language/Location parsing, hex <-> bytes views) are '
                   'covered by the correspondence and the monitor only, not by a Coq model',
                   'legacy JSON / v1 decoding (compat.py) is covered by correspondence only; the model only decides which '
                   'decoder Claim.from_bytes chooses',
                   'on damaged bytes the wire model is compared with the real parser for accept/refuse and, when the bytes are '
                   'canonical, for the parsed tree; protobuf groups (wire types 3/4) are outside the model']
    run.supporting = {'model_calls': model.calls}
    model.close()


def replay(run, case):
    model = vlib.Model('C16')
    op = case.get('op')
    if op == 'claim':
        run_claim_spec(run, model, case['spec'], 'replay')
    elif op == 'type-probe':
        check_type_probe(run, model, case['spec'], case['other'], case['via'], 'replay')
        close_file_database()
    elif op == 'sign-clear':
        check_sign_clear(run, model, case['which'], case['via'], case['text'], 'replay')
    elif op == 'embed':
        check_embedding(run, model, case['obj'], case['carrier'], case['pad'], case['extra'], 'replay')
    elif op == 'independence':
        check_independence(run, model, case['items'], 'replay')
    elif op == 'sequence':
        check_sequence(run, model, case['seq'], 'replay')
    elif op == 'bare':
        check_bare(run, model, case['which'], case['signed'], 'replay')
    elif op == 'support':
        check_support(run, model, case['spec'], 'replay')
    elif op == 'purchase':
        check_purchase(run, model, case['claim_id'], 'replay')
    elif op == 'legacy':
        check_legacy(run, model, bytes.fromhex(case['data']), case['expect'], 'replay')
    elif op == 'url':
        check_url(run, model, case['s'], 'replay', parts=case.get('parts'))
    elif op == 'support-bytes':
        check_signable_bytes(run, model, bytes.fromhex(case['data']), 'replay')
    elif op == 'claim-bytes':
        check_claim_dispatch(run, model, bytes.fromhex(case['data']), 'replay')
    elif op == 'wire':
        check_wire(run, model, bytes.fromhex(case['data']), case['m'], claim_pb2.Claim, 'replay')
    elif op == 'hash-view':
        check_hash_view(run, model, bytes.fromhex(case['h']), 'replay')
    elif op == 'claim-id-text':
        check_claim_id_text(run, model, case['s'], 'replay')
    elif op == 'varint':
        check_varint(run, model, int(case['n']), 'replay')
    model.close()
