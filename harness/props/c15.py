"""C15  Script templates: generation and parsing are mutually inverse and unambiguous.

Correspondence of Wire/Push.v + Wire/Script.v + Model/C15.v with lbry.wallet.script (push_data, tokenize,
Template.generate, Parser, Script.parse under the InputScript / OutputScript template order, the is_*
predicates) and with Output.is_* / Database.txo_to_row (type column); plus the property monitor, which
re-states the property on the implementation's behaviour with its own reference assembler, reference
tokenizer and opcode-shape tables (written here, sharing nothing with the model)."""
import asyncio
import json
import os
import random
import struct

import lbry.wallet  # noqa: F401  (import order)
from lbry.wallet import Ledger, Database, Headers, Wallet, Account
from lbry.wallet.bcd_data_stream import BCDataStream
from lbry.wallet.script import (OutputScript, InputScript, Script, tokenize, push_data, DataToken, SmallIntegerToken)
from lbry.wallet.transaction import Transaction, Output, Input
from lbry.schema.purchase import Purchase
from lbry.schema.claim import Claim
from lbry.schema.support import Support
from lbry.crypto.hash import hash160
from lbry.schema.types.v2.purchase_pb2 import Purchase as PurchaseMessage
from lbry.extras.daemon.json_response_encoder import JSONResponseEncoder

import vlib

CORPUS = os.path.join(os.path.dirname(os.path.abspath(__file__)), '..', 'corpus', 'C15')

# ------------------------------------------------------------------------------------------------
# data / script specs (cases stay small and self-contained: big data is (seed, len, prefix))
# ------------------------------------------------------------------------------------------------

def data_of(spec):
    if 'hex' in spec:
        return bytes.fromhex(spec['hex'])
    pre = bytes.fromhex(spec.get('prefix', ''))
    n = spec['len']
    body = random.Random(spec['seed']).randbytes(max(0, n - len(pre)))
    return (pre + body)[:n]


def mk_data(rng, n, prefix=b''):
    if n <= 96:
        d = (prefix + rng.randbytes(n))[:n]
        return {'hex': d.hex()}
    return {'len': n, 'seed': rng.randrange(1 << 30), 'prefix': prefix.hex()}


def apply_edits(b, edits):
    b = bytearray(b)
    for e in edits:
        k = e[0]
        if k == 'cut':
            del b[e[1]:]
        elif k == 'flip' and b:
            b[e[1] % len(b)] = e[2]
        elif k == 'ins':
            b.insert(e[1] % (len(b) + 1), e[2])
        elif k == 'del' and b:
            del b[e[1] % len(b)]
        elif k == 'app':
            b += bytes.fromhex(e[1])
        elif k == 'pre':
            b[0:0] = bytes.fromhex(e[1])
    return bytes(b)


# ------------------------------------------------------------------------------------------------
# the monitor's own description of the wire format (reference, independent of the model)
# ------------------------------------------------------------------------------------------------

def ref_push(d):
    n = len(d)
    if n <= 75:
        return bytes([n]) + d
    if n <= 0xff:
        return b'\x4c' + bytes([n]) + d
    if n <= 0xffff:
        return b'\x4d' + n.to_bytes(2, 'little') + d
    return b'\x4e' + n.to_bytes(4, 'little') + d


def ref_int(n):
    w = 1
    while True:
        try:
            return n.to_bytes(w, 'little', signed=True)
        except OverflowError:
            w += 1


def ref_tokens(b):
    """reference tokenizer: a push must be complete (length field whole, declared number of bytes present), otherwise
    the byte string is not a script (None). Tokens: ('D', bytes) | ('S', k) | ('O', opcode)."""
    out, i, n = [], 0, len(b)
    while i < n:
        op = b[i]
        i += 1
        if 1 <= op <= 0x4e:
            if op <= 0x4b:
                size = op
            else:
                w = {0x4c: 1, 0x4d: 2, 0x4e: 4}[op]
                if n - i < w:            # length field missing or partial
                    return None
                size = int.from_bytes(b[i:i + w], 'little')
                i += w
            if n - i < size:             # the push runs past the end of the script
                return None
            out.append(('D', b[i:i + size]))
            i += size
        elif 0x51 <= op <= 0x60:
            out.append(('S', op - 0x50))
        else:
            out.append(('O', op))
    return out


PKH = [0x76, 0xa9, 'pubkey_hash', 0x88, 0xac]
SH = [0xa9, 'script_hash', 0x87]
OUT_SHAPES = [
    ('pay_pubkey_full', ['pubkey', 0xac], 'payment'),
    ('pay_pubkey_hash', PKH, 'payment'),
    ('pay_script_hash', SH, 'payment'),
    ('pay_script_hash+segwit', [0x00, 'script_hash'], 'payment'),
    ('return_data', [0x6a, 'data'], 'data'),
    ('claim_name+pay_pubkey_hash', [0xb5, 'claim_name', 'claim', 0x6d, 0x75] + PKH, 'claim'),
    ('claim_name+pay_script_hash', [0xb5, 'claim_name', 'claim', 0x6d, 0x75] + SH, 'claim'),
    ('support_claim+pay_pubkey_hash', [0xb6, 'claim_name', 'claim_id', 0x6d, 0x75] + PKH, 'support'),
    ('support_claim+pay_script_hash', [0xb6, 'claim_name', 'claim_id', 0x6d, 0x75] + SH, 'support'),
    ('support_claim+data+pay_pubkey_hash', [0xb6, 'claim_name', 'claim_id', 'support', 0x6d, 0x6d] + PKH, 'support+data'),
    ('support_claim+data+pay_script_hash', [0xb6, 'claim_name', 'claim_id', 'support', 0x6d, 0x6d] + SH, 'support+data'),
    ('update_claim+pay_pubkey_hash', [0xb7, 'claim_name', 'claim_id', 'claim', 0x6d, 0x6d] + PKH, 'update'),
    ('update_claim+pay_script_hash', [0xb7, 'claim_name', 'claim_id', 'claim', 0x6d, 0x6d] + SH, 'update'),
]
OUT_SHAPE = {n: (s, c) for n, s, c in OUT_SHAPES}
IN_SHAPES = {
    'pubkey': ['signature'],
    'pubkey_hash': ['signature', 'pubkey'],
    'script_hash+timelock': ['signature', 'pubkey', ('sub', 'script')],
    'timelock': [('int', 'height'), 0xb1, 0x75] + PKH,
}


def ref_assemble(shape, values):
    out = b''
    for el in shape:
        if isinstance(el, int):
            out += bytes([el])
        elif isinstance(el, str):
            out += ref_push(values[el])
        elif el[0] == 'int':
            out += ref_push(ref_int(values[el[1]]))
        else:
            out += ref_push(values[el[1]])
    return out


def ref_match(shape, toks):
    """values if the token list has exactly this opcode shape, else None"""
    if len(shape) != len(toks):
        return None
    vals = {}
    for el, (k, v) in zip(shape, toks):
        if isinstance(el, int):
            if k != 'O' or v != el:
                return None
        elif isinstance(el, str):
            if k == 'D':
                vals[el] = v
            elif k == 'O' and v == 0:
                vals[el] = b''
            else:
                return None
        else:
            if k != 'D':
                return None
            vals[el[1]] = int.from_bytes(v, 'little') if el[0] == 'int' else v
    return vals


def ref_classify_output(src):
    """what the opcodes say: (template name, class, values) | 'empty' | 'nomatch' | 'error'; asserts unambiguity"""
    toks = ref_tokens(src)
    if toks is None:
        return 'error', None
    if not toks:
        return 'empty', None
    hits = []
    for name, shape, klass in OUT_SHAPES:
        vals = ref_match(shape, toks)
        if vals is not None:
            hits.append((name, klass, vals))
    if len(hits) > 1:
        return 'ambiguous', hits
    if not hits:
        return 'nomatch', None
    name, klass, vals = hits[0]
    if klass == 'data' and vals['data'][:1] == b'P':
        klass = 'purchase'
    return 'match', (name, klass, vals)


def ref_match_input(src):
    toks = ref_tokens(src)
    if toks is None:
        return 'error', None
    if not toks:
        return 'empty', None
    for name in ('pubkey', 'pubkey_hash', 'script_hash+timelock'):
        vals = ref_match(IN_SHAPES[name], toks)
        if vals is not None:
            return 'match', (name, vals)
    if len(toks) >= 3 and toks[0] == ('O', 0) and all(k == 'D' for k, _ in toks[1:]):
        return 'match', ('script_hash+multi_sig', {'signatures': [v for _, v in toks[1:-1]], 'script': toks[-1][1]})
    return 'nomatch', None


# expected truth of the 13 flags per class
FLAG_NAMES = ['is_pay_pubkey', 'is_pay_pubkey_hash', 'is_pay_script_hash', 'is_return_data', 'is_claim_name',
              'is_update_claim', 'is_support_claim', 'is_support_claim_data', 'is_claim_involved',
              'Output.is_claim', 'Output.is_support', 'Output.is_support_data', 'Output.is_purchase_data']


def expected_flags(name, klass):
    return [name.endswith('pay_pubkey_full'), name.endswith('pay_pubkey_hash'), name.endswith('pay_script_hash'),
            klass in ('data', 'purchase'), klass == 'claim', klass == 'update', klass in ('support', 'support+data'),
            klass == 'support+data', klass in ('claim', 'update', 'support', 'support+data'),
            klass in ('claim', 'update'), klass in ('support', 'support+data'), klass == 'support+data',
            klass == 'purchase']


ROW_OF_CLASS = {'claim': 1, 'update': 1, 'support': 3, 'support+data': 3}

# ------------------------------------------------------------------------------------------------
# implementation adapter
# ------------------------------------------------------------------------------------------------

# templates by the class attribute that holds them (not by Template.name, which is part of what is checked)
OUT_T = {
    'pay_pubkey_full': OutputScript.PAY_PUBKEY_FULL, 'pay_pubkey_hash': OutputScript.PAY_PUBKEY_HASH,
    'pay_script_hash': OutputScript.PAY_SCRIPT_HASH, 'pay_script_hash+segwit': OutputScript.PAY_SEGWIT,
    'return_data': OutputScript.RETURN_DATA,
    'claim_name+pay_pubkey_hash': OutputScript.CLAIM_NAME_PUBKEY, 'claim_name+pay_script_hash': OutputScript.CLAIM_NAME_SCRIPT,
    'support_claim+pay_pubkey_hash': OutputScript.SUPPORT_CLAIM_PUBKEY,
    'support_claim+pay_script_hash': OutputScript.SUPPORT_CLAIM_SCRIPT,
    'support_claim+data+pay_pubkey_hash': OutputScript.SUPPORT_CLAIM_DATA_PUBKEY,
    'support_claim+data+pay_script_hash': OutputScript.SUPPORT_CLAIM_DATA_SCRIPT,
    'update_claim+pay_pubkey_hash': OutputScript.UPDATE_CLAIM_PUBKEY, 'update_claim+pay_script_hash': OutputScript.UPDATE_CLAIM_SCRIPT,
}
IN_T = {'pubkey': InputScript.REDEEM_PUBKEY, 'pubkey_hash': InputScript.REDEEM_PUBKEY_HASH,
        'timelock': InputScript.TIME_LOCK_SCRIPT, 'script_hash+timelock': InputScript.REDEEM_SCRIPT_HASH_TIME_LOCK,
        'multi_sig': InputScript.MULTI_SIG_SCRIPT, 'script_hash+multi_sig': InputScript.REDEEM_SCRIPT_HASH_MULTI_SIG}
SUB_T = {'sub_timelock': InputScript.TIME_LOCK_SCRIPT, 'sub_multi_sig': InputScript.MULTI_SIG_SCRIPT}

_ledger = None


def ledger():
    global _ledger
    if _ledger is None:
        _ledger = Ledger({'db': Database(':memory:'), 'headers': Headers(':memory:')})
    return _ledger


def err_class(e):
    if isinstance(e, struct.error):
        return 'struct.error'
    return type(e).__name__


def canon_val(v):
    if isinstance(v, (bytes, bytearray)):
        return {'b': bytes(v).hex()}
    if isinstance(v, bool):
        return {'bool': v}
    if isinstance(v, int):
        return {'i': v}
    if isinstance(v, list):
        return {'l': [bytes(x).hex() for x in v]}
    if isinstance(v, Script):
        hint = v._template_hint.name if v._template_hint is not None else None
        return {'sub': {'hint': hint, 'src': v.source.hex(), 'parsed': impl_parse_script(v, False)}}
    return {'other': repr(type(v))}


def impl_tokens(src):
    try:
        toks = tokenize(BCDataStream(src))
    except Exception as e:  # noqa
        return {'error': err_class(e)}
    out = []
    for t in toks:
        if isinstance(t, DataToken):
            out.append(['D', t.value.hex()])
        elif isinstance(t, SmallIntegerToken):
            out.append(['S', t.value])
        else:
            out.append(['O', t.value])
    return {'ok': out}


def impl_row_type(script):
    """Database.txo_to_row on a one-output transaction: the txo_type column (absent -> 0 'other'),
    folded to 0 other / 1 a claim type / 3 support / 4 purchase"""
    for k in ('pubkey_hash', 'script_hash'):      # base58 of a kilobyte "hash" is quadratic: not part of this property
        if len(script.values.get(k, b'')) > 64:
            return 'skipped-long-hash'
    tx = Transaction()
    tx.add_outputs([Output(1000, script)])
    try:
        row = ledger().db.txo_to_row(tx, tx.outputs[0])
    except Exception as e:  # noqa   (reported by the monitors: whatever the name / payload bytes, the row must be built)
        return 'raised:' + err_class(e)
    t = row.get('txo_type', 0)
    return 1 if t in (1, 2, 5, 6) else t


def impl_parse_script(s, is_output):
    try:
        t = s.template
        vals = s.values
    except Exception as e:  # noqa
        return {'error': err_class(e)}
    out = {'template': t.name, 'values': {k: canon_val(v) for k, v in vals.items()}}
    if is_output:
        o = Output(1000, s)
        out['flags'] = [bool(x) for x in (
            s.is_pay_pubkey, s.is_pay_pubkey_hash, s.is_pay_script_hash, s.is_return_data, s.is_claim_name,
            s.is_update_claim, s.is_support_claim, s.is_support_claim_data, s.is_claim_involved,
            o.is_claim, o.is_support, o.is_support_data, o.is_purchase_data)]
        out['row_type'] = impl_row_type(s)
    return out


def impl_parse(kind, src):
    if kind == 'output':
        return impl_parse_script(OutputScript(src), True)
    if kind == 'input':
        sc = InputScript(src)
        out = impl_parse_script(sc, False)
        if 'error' not in out:
            out['is_script_hash'] = bool(sc.is_script_hash)
        return out
    return impl_parse_script(Script.from_source_with_template(src, SUB_T[kind]), False)


def model_parse(model, kind, src):
    m = model.call('parse', kind=kind, s=src.hex())
    out = strip_model(m, kind == 'output')
    if kind == 'input' and 'error' not in m:
        out['is_script_hash'] = m['is_script_hash']      # InputScript.is_script_hash
    return out


def align_row(impl, mod):
    """the row type is not computed on the implementation side for two input classes (see impl_row_type)"""
    if isinstance(impl.get('row_type'), str) and 'row_type' in mod:
        mod = dict(mod)
        mod['row_type'] = impl['row_type']
    return mod


def strip_model(m, is_output):
    if 'error' in m:
        return m
    out = {'template': m['template'], 'values': {}}
    for k, v in m['values'].items():
        if 'sub' in v:
            v = {'sub': {'hint': v['sub']['hint'], 'src': v['sub']['src'],
                         'parsed': strip_model(v['sub']['parsed'], False)}}
        out['values'][k] = v
    if is_output:
        out['flags'] = m['flags']
        out['row_type'] = m['row_type']
    return out



# ------------------------------------------------------------------------------------------------
# generation cases
# ------------------------------------------------------------------------------------------------

def py_values(kind, vspec):
    """(python values for Template.generate, plain values for the monitor, model-side value specs)"""
    py, plain, mod = {}, {}, {}
    for k, v in vspec.items():
        if 'b' in v:
            d = data_of(v['b'])
            py[k], plain[k], mod[k] = d, d, {'b': d.hex()}
        elif 'i' in v:
            py[k], plain[k], mod[k] = int(v['i']), int(v['i']), {'i': str(v['i'])}
        elif 'k' in v:
            py[k], plain[k], mod[k] = int(v['k']), int(v['k']), {'k': str(v['k'])}
        elif 'l' in v:
            ds = [data_of(x) for x in v['l']]
            py[k], plain[k], mod[k] = ds, ds, {'l': [x.hex() for x in ds]}
        elif 'sub' in v:   # a subscript given by its own template + values
            sub_t = IN_T[v['sub']['template']]
            spy, splain, smod = py_values('input', v['sub']['values'])
            sub = InputScript(template=sub_t, values=spy)
            py[k], plain[k] = sub, {'template': v['sub']['template'], 'values': splain, 'source': sub.source}
            mod[k] = {'subgen': {'template': v['sub']['template'], 'values': smod}}
        elif 'subsrc' in v:   # a subscript given by its source bytes, as Input.spend_time_lock(script_source=...) receives it
            src = bytes.fromhex(v['subsrc']['hex'])
            sub = InputScript(source=src, template=InputScript.TIME_LOCK_SCRIPT)
            try:
                sub.parse(sub.template)        # what redeem_time_lock_script_hash does
            except ValueError:
                pass                           # not a time-lock script: Template.generate must still push it verbatim
            st = ref_tokens(src)
            rv = ref_match(IN_SHAPES['timelock'], st) if st else None
            py[k], plain[k] = sub, {'template': 'timelock', 'values': rv, 'source': src, 'given': True}
            mod[k] = {'sub': src.hex()}
    return py, plain, mod


def py_values_model_only(vspec):
    mod = {}
    for k, v in vspec.items():
        if 'b' in v:
            mod[k] = {'b': data_of(v['b']).hex()}
        elif 'i' in v:
            mod[k] = {'i': str(v['i'])}
        elif 'k' in v:
            mod[k] = {'k': str(v['k'])}
        elif 'l' in v:
            mod[k] = {'l': [data_of(x).hex() for x in v['l']]}
        elif 'subsrc' in v:
            mod[k] = {'sub': v['subsrc']['hex']}
        else:
            mod[k] = {'subgen': {'template': v['sub']['template'], 'values': py_values_model_only(v['sub']['values'])}}
    return mod


def model_generate(model, template, mod_vals):
    vals = {}
    for k, v in mod_vals.items():
        if 'subgen' in v:
            src = model_generate(model, v['subgen']['template'], v['subgen']['values'])
            if src is None:
                return None
            vals[k] = {'sub': src}
        else:
            vals[k] = v
    return model.call('generate', template=template, values=vals)


NAMED = {
    'pay_pubkey_hash': lambda v: OutputScript.pay_pubkey_hash(v['pubkey_hash']),
    'pay_script_hash': lambda v: OutputScript.pay_script_hash(v['script_hash']),
    'return_data': lambda v: OutputScript.return_data(v['data']),
    'claim_name+pay_pubkey_hash': lambda v: OutputScript.pay_claim_name_pubkey_hash(v['claim_name'], v['claim'], v['pubkey_hash']),
    'update_claim+pay_pubkey_hash': lambda v: OutputScript.pay_update_claim_pubkey_hash(v['claim_name'], v['claim_id'], v['claim'], v['pubkey_hash']),
    'support_claim+pay_pubkey_hash': lambda v: OutputScript.pay_support_pubkey_hash(v['claim_name'], v['claim_id'], v['pubkey_hash']),
    'support_claim+data+pay_pubkey_hash': lambda v: OutputScript.pay_support_data_pubkey_hash(v['claim_name'], v['claim_id'], v['support'], v['pubkey_hash']),
    'pubkey_hash': lambda v: InputScript.redeem_pubkey_hash(v['signature'], v['pubkey']),
}


def plain_equal(expected, got):
    """monitor: parsed values (python objects) equal the generating ones"""
    if set(expected) != set(got):
        return False
    for k, e in expected.items():
        g = got[k]
        if isinstance(e, dict):   # subscript
            if not isinstance(g, Script) or g.source != e['source']:
                return False
            if e['values'] is None:
                continue
            try:
                if g.template.name != e['template'] or not plain_equal(e['values'], g.values):
                    return False
            except Exception:  # noqa
                return False
        elif isinstance(g, Script) or g != e or type(g) is not type(e):
            return False
    return True


def check_generate(run, model, case):
    kind, name, vspec = case['kind'], case['template'], case['values']
    multisig = 'multi_sig' in name
    cls = OutputScript if kind == 'output' else InputScript
    tmpl = (OUT_T if kind == 'output' else IN_T)[name]
    run.case(case, nontrivial=True)
    run.count('generate:' + name)
    try:
        py, plain, mod = py_values(kind, vspec)
    except AssertionError:     # an inner multisig script with a count outside 1..16
        py, plain, mod = None, None, py_values_model_only(vspec)
    except Exception as e:  # noqa  (generating the inner script failed)
        run.violation(case, f'generating the subscript of {name} raised {err_class(e)}',
                      signature={'op': 'generate', 'template': name, 'values': vspec})
        return
    try:
        if py is None:
            raise AssertionError
        src = cls(template=tmpl, values=py).source
        impl = {'source': src.hex()}
    except (AssertionError, KeyError):
        src, impl = None, {'error': 'refused'}
    except Exception as e:  # noqa
        src, impl = None, {'error': err_class(e)}
    msrc = model_generate(model, name, mod)
    modl = {'source': msrc} if msrc is not None else {'error': 'refused'}
    bad = None
    if src is None:
        if not multisig:
            bad = f'generating {name} raised {impl["error"]}'
    elif not multisig:
        bad = monitor_generated(kind, name, plain, py, src)
    if bad:
        run.violation(case, bad, signature={'op': 'generate', 'template': name, 'values': vspec})
        return
    if not run.compare('C15.generate', case, impl, modl) or src is None:
        return
    pk = 'output' if kind == 'output' else ('sub_' + name if name in ('timelock', 'multi_sig') else 'input')
    ip = impl_parse(pk, src)
    run.compare('C15.parse-generated', case, ip, align_row(ip, model_parse(model, pk, src)))
    for sz in (len(v) for v in plain.values() if isinstance(v, bytes)):
        run.count('datalen:' + size_bucket(sz))


def monitor_generated(kind, name, plain, py, src):
    """the property on the implementation: minimal pushes at every length, parse-back to the same template
    and values under the global template order, classification as the template's opcodes say"""
    if kind == 'output':
        shape, klass = OUT_SHAPE[name]
    else:
        shape, klass = IN_SHAPES[name], None
    flat = {k: (v['source'] if isinstance(v, dict) else v) for k, v in plain.items()}
    want = ref_assemble(shape, flat)
    if src != want:
        for k, v in plain.items():
            if isinstance(v, dict) and not src.endswith(ref_push(v['source'])):
                return (f'{name}: the subscript value {k} is not embedded verbatim: given {v["source"].hex()[:80]}, '
                        f'generated script ends {src[-len(v["source"]) - 3:].hex()[:86]}')
        return f'{name}: generated script differs from the minimal-push assembly ({src[:40].hex()}.. vs {want[:40].hex()}..)'
    given = [v for v in plain.values() if isinstance(v, dict) and v.get('given')]
    if given and given[0]['values'] is not None:
        bad = monitor_spend_path(py, given[0]['source'], src)
        if bad:
            return bad
    if name in NAMED:
        try:
            alt = NAMED[name](py).source
        except Exception as e:  # noqa
            return f'{name}: named constructor raised {err_class(e)}'
        if alt != src:
            return f'{name}: named constructor builds a different script'
    if name in ('timelock',):
        s = Script.from_source_with_template(src, IN_T[name])
    else:
        s = (OutputScript if kind == 'output' else InputScript)(src)
    try:
        back_t, back_v = s.template.name, s.values
    except Exception as e:  # noqa
        return f'{name}: generated script does not parse back ({err_class(e)})'
    if back_t != name:
        return f'{name}: generated script parses back as {back_t}'
    if not plain_equal(plain, back_v):
        return f'{name}: parsed values differ from the generating values'
    try:      # the other direction: generating again from the parsed values reproduces the script
        again = type(s)(template=s.template, values=dict(back_v)).source
    except Exception as e:  # noqa
        return f'{name}: generating again from the parsed values raised {err_class(e)}'
    if again != src:
        return f'{name}: generating again from the parsed values gives a different script'
    if kind == 'output':
        if klass == 'data' and flat['data'][:1] == b'P':
            klass = 'purchase'
        o = Output(1000, s)
        got = [bool(x) for x in (
            s.is_pay_pubkey, s.is_pay_pubkey_hash, s.is_pay_script_hash, s.is_return_data, s.is_claim_name,
            s.is_update_claim, s.is_support_claim, s.is_support_claim_data, s.is_claim_involved,
            o.is_claim, o.is_support, o.is_support_data, o.is_purchase_data)]
        exp = expected_flags(name, klass)
        if got != exp:
            diff = [FLAG_NAMES[i] for i in range(len(exp)) if got[i] != exp[i]]
            return f'{name}: a {klass} script is classified wrongly: {diff}'
        rt = impl_row_type(s)
        if isinstance(rt, str) and rt.startswith('raised:'):
            return f'{name}: a {klass} script cannot be stored: txo_to_row {rt} (arbitrary names and payloads must still be recorded)'
        if not isinstance(rt, str) and rt != ROW_OF_CLASS.get(klass, 0):
            return f'{name}: txo_to_row stores type {rt} for a {klass} script'
    return None


def monitor_spend_path(py, redeem, src):
    """the wallet's own steps for a third-party redeem script: pay_script_hash(hash160(redeem)) -> Input.spend_time_lock
    -> fill in signature / pubkey as Transaction.sign does -> generate -> wire -> parse: the carried script must be the
    given bytes (it has to hash to the script hash the output is locked to)"""
    try:
        alt = InputScript.redeem_time_lock_script_hash(py['signature'], py['pubkey'], script_source=redeem).source
    except Exception as e:  # noqa
        return f'redeem_time_lock_script_hash(script_source=...) raised {err_class(e)} for a script with the time-lock shape'
    if alt != src:
        return 'redeem_time_lock_script_hash(script_source=...) builds a different script than the template with the same values'
    locked = Transaction(height=10).add_outputs([Output.pay_script_hash(5000, hash160(redeem))]).outputs[0]
    txi = Input.spend_time_lock(locked, redeem)
    tx = Transaction().add_inputs([txi]).add_outputs([Output.pay_pubkey_hash(4000, b'\x09' * 20)])
    txi.script.values['signature'] = py['signature']
    txi.script.values['pubkey'] = py['pubkey']
    txi.script.generate()
    tx._reset()
    try:
        carried = Transaction(tx.raw).inputs[0].script.values['script'].source
    except Exception as e:  # noqa
        return f'spending a time lock: the generated input does not read back as script_hash+timelock from the wire ({err_class(e)})'
    if carried != redeem or hash160(carried) != locked.script.values['script_hash']:
        return (f'spending a time lock: the input carries redeem script {carried.hex()[:80]} but the output is locked to '
                f'hash160 of the given {redeem.hex()[:80]}')
    return None


def size_bucket(n):
    for b in (0, 1, 75, 76, 255, 256, 65535, 65536):
        if n == b:
            return str(b)
    if n < 75:
        return '2..74'
    if n < 255:
        return '77..254'
    if n < 65535:
        return '257..65534'
    return '>65536'


# ------------------------------------------------------------------------------------------------
# parse cases (arbitrary byte strings)
# ------------------------------------------------------------------------------------------------

def script_of(spec):
    if 'hex' in spec:
        return bytes.fromhex(spec['hex'])
    g = spec['gen']
    py, _, _ = py_values(g['kind'], g['values'])
    cls = OutputScript if g['kind'] == 'output' else InputScript
    tmpl = (OUT_T if g['kind'] == 'output' else IN_T)[g['template']]
    return apply_edits(cls(template=tmpl, values=py).source, spec.get('edits', []))


def base_script(run, case):
    try:
        return script_of(case['script'])
    except Exception as e:  # noqa
        run.case(case, nontrivial=True)
        g = case['script'].get('gen', {})
        run.violation(case, f'generating {g.get("template")} raised {err_class(e)}',
                      signature={'op': 'generate', 'template': g.get('template'), 'values': g.get('values')})
        return None


OUT_QUERIES = ['template', 'values'] + FLAG_NAMES + ['Output.has_address']
IN_QUERIES = ['template', 'values', 'is_script_hash']
SUB_QUERIES = ['template', 'values']


def query_plan(kind, seed):
    """every query twice, in an order fixed by the case: classification must be a function of the bytes, whatever
    was asked before on the same object (a failed first parse included)"""
    qs = OUT_QUERIES if kind == 'output' else (IN_QUERIES if kind == 'input' else SUB_QUERIES)
    plan = list(qs) * 2
    random.Random(seed).shuffle(plan)
    return plan


def impl_requery(kind, src, plan):
    """ONE script object (and one Output around it), asked the whole plan; each answer canonicalised, exceptions by class"""
    if kind == 'output':
        s = OutputScript(src)
    elif kind == 'input':
        s = InputScript(src)
    else:
        s = Script.from_source_with_template(src, SUB_T[kind])
    o = Output(1000, s) if kind == 'output' else None
    out = []
    for q in plan:
        try:
            if q == 'template':
                a = s.template.name
            elif q == 'values':
                a = {k: canon_val(v) for k, v in s.values.items()}
            elif q.startswith('Output.'):
                a = bool(getattr(o, q[7:]))
            else:
                a = bool(getattr(s, q))
        except Exception as e:  # noqa
            a = {'error': err_class(e)}
        out.append(a)
    return out


def stateless_answers(parsed, plan):
    """what a stateless reading of one parse result (model or first implementation look) answers to the plan"""
    out = []
    for q in plan:
        if 'error' in parsed:
            out.append({'error': parsed['error']})
        elif q == 'template':
            out.append(parsed['template'])
        elif q == 'values':
            out.append(parsed['values'])
        elif q == 'is_script_hash':
            out.append(parsed['is_script_hash'])
        elif q == 'Output.has_address':
            out.append('pubkey_hash' in parsed['values'] or 'script_hash' in parsed['values'])
        else:
            out.append(parsed['flags'][FLAG_NAMES.index(q)])
    return out


def monitor_requery(kind, src, plan, answers):
    """the property's clause on EVERY access: classified exactly when the opcodes say so"""
    if kind == 'output':
        st, info = ref_classify_output(src)
        if st == 'ambiguous':
            return None      # reported by monitor_parse
        if st == 'match':
            name, klass, vals = info
            exp = expected_flags(name, klass)
        elif st == 'empty':
            name, exp, vals = 'no_script', [False] * len(FLAG_NAMES), {}
    elif kind == 'input':
        st, info = ref_match_input(src)
        if st == 'match':
            name, vals = info
            if name == 'script_hash+multi_sig':
                return None      # outside the property; compared with the model only
        elif st == 'empty':
            name, vals = 'no_script', {}
    else:
        return None          # hinted subscripts: compared with the model and with the first look only
    for i, (q, a) in enumerate(zip(plan, answers)):
        asked = f'access #{i + 1} ({q}, after {plan[:i][-3:]})'
        if st in ('nomatch', 'error'):
            if a != {'error': 'ValueError'}:
                return f'no template has this opcode shape, yet {asked} on the same object answered {a!r}'
            continue
        if isinstance(a, dict) and 'error' in a:
            return f'the opcodes have the shape of {name}, yet {asked} raised {a["error"]}'
        if q == 'template' and a != name:
            return f'the opcodes have the shape of {name}, yet {asked} answered {a!r}'
        if kind == 'output' and q in FLAG_NAMES and a != exp[FLAG_NAMES.index(q)]:
            return f'{name}: {asked} answered {a!r}'
        if q == 'Output.has_address' and a != ('pubkey_hash' in vals or 'script_hash' in vals):
            return f'{name}: {asked} answered {a!r}'
        if q == 'is_script_hash' and a != name.startswith('script_hash+'):
            return f'{name}: {asked} answered {a!r}'
    return None


def check_parse(run, model, case):
    kind = case['kind']
    src = base_script(run, case)
    if src is None:
        return
    impl = impl_parse(kind, src)
    run.case(case, nontrivial=len(src) > 0)
    run.count(f'parse-{kind}:' + (impl.get('template') or impl['error']))
    bad = monitor_parse(kind, src, impl)
    if bad:
        run.violation(case, bad, signature={'op': 'parse', 'kind': kind, 'script': src.hex() if len(src) < 400 else case['script']})
        return
    mod = model_parse(model, kind, src)
    run.compare('C15.parse', case, impl, align_row(impl, mod))
    # the same questions again, on ONE object, twice each and in a case-fixed order
    plan = query_plan(kind, case.get('requery_seed', 0))
    answers = impl_requery(kind, src, plan)
    run.count('requery:' + ('after-failed-parse' if 'error' in impl else 'after-match'))
    bad = monitor_requery(kind, src, plan, answers)
    if bad:
        run.violation(case, bad, signature={'op': 'requery', 'kind': kind, 'plan_seed': case.get('requery_seed', 0),
                                            'script': src.hex() if len(src) < 400 else case['script']})
        return
    run.compare('C15.requery', case, answers, stateless_answers(mod, plan))


def monitor_parse(kind, src, impl):
    """classification exactly when the opcodes say so (reference tokenizer + shape tables), exclusivity"""
    if kind == 'output':
        st, info = ref_classify_output(src)
        if st == 'ambiguous':
            return 'two output templates have the shape of this script: ' + ', '.join(h[0] for h in info)
        if st == 'error':
            return None if impl.get('error') == 'ValueError' else f'a push runs past the end of the script (or its length field is incomplete): the opcodes do not say this, expected ValueError, got {impl}'
        if st == 'empty':
            return None if impl.get('template') == 'no_script' else f'empty script parsed as {impl}'
        if st == 'nomatch':
            return None if impl.get('error') == 'ValueError' else \
                f'no template has this opcode shape, but the script was accepted as {impl.get("template", impl)}'
        name, klass, vals = info
        if impl.get('template') != name:
            return f'opcodes have the shape of {name} ({klass}) but the script parsed as {impl.get("template", impl)}'
        if impl['values'] != {k: {'b': v.hex()} for k, v in vals.items()}:
            return f'{name}: values differ from the pushed data'
        exp = expected_flags(name, klass)
        if impl['flags'] != exp:
            diff = [FLAG_NAMES[i] for i in range(len(exp)) if impl['flags'][i] != exp[i]]
            return f'a {klass} script ({name}) is classified wrongly: {diff}'
        if sum([impl['flags'][9], impl['flags'][10], impl['flags'][12]]) > 1:
            return 'claim / support / purchase flags are not exclusive'
        if isinstance(impl['row_type'], str) and impl['row_type'].startswith('raised:'):
            return (f'a {klass} script ({name}) cannot be stored: txo_to_row {impl["row_type"]} '
                    f'(arbitrary names and payloads must still be recorded)')
        if not isinstance(impl['row_type'], str) and impl['row_type'] != ROW_OF_CLASS.get(klass, 0):
            return f'txo_to_row stores type {impl["row_type"]} for a {klass} script'
        return None
    if kind == 'input':
        st, info = ref_match_input(src)
        if st == 'error':
            return None if impl.get('error') == 'ValueError' else f'a push runs past the end of the script (or its length field is incomplete): the opcodes do not say this, expected ValueError, got {impl}'
        if st == 'empty':
            return None if impl.get('template') == 'no_script' else f'empty script parsed as {impl}'
        if st == 'nomatch':
            return None if impl.get('error') == 'ValueError' else f'no input template has this shape, got {impl.get("template", impl)}'
        name, vals = info
        if name == 'script_hash+multi_sig':
            return None      # multi-signature redeem scripts are outside the property; the model comparison still runs
        if impl.get('template') != name:
            return f'opcodes have the shape of {name} but the script parsed as {impl.get("template", impl)}'
        for k, v in vals.items():
            got = impl['values'].get(k)
            if isinstance(v, list):
                ok = got == {'l': [x.hex() for x in v]}
            elif k == 'script':
                ok = got is not None and 'sub' in got and got['sub']['src'] == v.hex()
            else:
                ok = got == {'b': v.hex()}
            if not ok:
                return f'{name}: value {k} differs from the pushed data'
    return None


# ------------------------------------------------------------------------------------------------
# push / tokenize cases
# ------------------------------------------------------------------------------------------------

def check_push(run, model, case, with_model=True):
    d = data_of(case['data'])
    rest = bytes.fromhex(case.get('rest', ''))
    run.case(case, nontrivial=True, sample=with_model)
    run.count('push:' + size_bucket(len(d)))
    enc = b''.join(push_data(d))
    bad = None
    if enc != ref_push(d):
        bad = f'push_data of {len(d)} bytes is not the minimal encoding: header {enc[:6].hex()}'
    else:
        toks = impl_tokens(enc + rest)
        tail = impl_tokens(rest)
        first = ['D', d.hex()] if d else ['O', 0]
        if 'ok' in tail and toks != {'ok': [first] + tail['ok']}:
            bad = f'tokenize(push_data(d) + rest) does not start with the datum (len {len(d)})'
        elif 'ok' not in tail and toks != tail:
            bad = f'tokenize(push_data(d) + rest): error class differs from tokenize(rest)'
    if bad:
        run.violation(case, bad, signature={'op': 'push', 'len': len(d), 'rest': case.get('rest', '')})
        return
    if with_model:
        run.compare('C15.push', case, enc.hex(), model.call('push', d=d.hex()))
        run.compare('C15.tokenize-push', case, impl_tokens(enc + rest), model.call('tokenize', s=(enc + rest).hex()))


def check_tokenize(run, model, case):
    src = base_script(run, case)
    if src is None:
        return
    impl = impl_tokens(src)
    run.case(case, nontrivial=len(src) > 0)
    run.count('tokenize:' + ('ok' if 'ok' in impl else impl['error']))
    ref = ref_tokens(src)
    want = {'error': 'struct.error'} if ref is None else {'ok': [[k, (v.hex() if k == 'D' else v)] for k, v in ref]}
    if impl != want:
        run.violation(case, f'tokens differ from the reference reading of the byte string: {str(impl)[:200]}',
                      signature={'op': 'tokenize', 'script': src.hex() if len(src) < 400 else case['script']})
        return
    run.compare('C15.tokenize', case, impl, model.call('tokenize', s=src.hex()))


def check_tx(run, model, case):
    """the wire path: outputs built from templates, serialised in a transaction, deserialised again
    (Output.deserialize_from -> OutputScript(bytes), parsed lazily) keep template and values; the
    signature-less input written by Input.spend reads back as pubkey_hash"""
    run.case(case, nontrivial=True)
    run.count('tx:outputs=%d' % len(case['outputs']))
    outs, want = [], []
    for g in case['outputs']:
        py, plain, _ = py_values('output', g['values'])
        sc = OutputScript(template=OUT_T[g['template']], values=py)
        outs.append(Output(1000, sc))
        want.append((g['template'], plain, sc.source))
    prev = Transaction()
    prev.add_outputs([Output.pay_pubkey_hash(5000, b'\x07' * 20)])
    tx = Transaction()
    in_want = None
    if case.get('input'):
        g = case['input']
        ipy, iplain, _ = py_values('input', g['values'])
        isc0 = InputScript(template=IN_T[g['template']], values=ipy)
        tx.add_inputs([Input(prev.outputs[0].ref, isc0)])
        in_want = (g['template'], iplain, isc0.source)
    else:
        tx.add_inputs([Input.spend(prev.outputs[0])])
    tx.add_outputs(outs)
    lens = [len(src) for _, _, src in want] + ([len(in_want[2])] if in_want else [])
    for n in lens:
        run.count('tx:script-length ' + ('<253' if n < 253 else '253..32767' if n < 32768 else '32768..65535' if n < 65536 else '>=65536'))
    sig = {'op': 'tx', 'script_lengths': lens, 'templates': [w[0] for w in want] + ([in_want[0]] if in_want else [])}
    try:
        back = Transaction(tx.raw)
    except Exception as e:  # noqa
        run.violation(case, f'a transaction carrying generated scripts of {lens} bytes cannot be read back: {err_class(e)}',
                      signature=sig)
        return
    bad = None
    if len(back.outputs) != len(outs):
        bad = 'output count changed on the wire'
    for (name, plain, src), o in zip(want, back.outputs):
        if bad:
            break
        if o.script.source != src:
            bad = f'{name}: script bytes changed on the wire'
            break
        try:
            if o.script.template.name != name or not plain_equal(plain, o.script.values):
                bad = f'{name}: after the wire round trip the output parses as {o.script.template.name} with other values'
        except Exception as e:  # noqa
            bad = f'{name}: output no longer parses after the wire round trip ({err_class(e)})'
    isc = back.inputs[0].script if back.inputs else None
    if not bad and isc is None:
        bad = 'the input was lost on the wire'
    if not bad and in_want is not None:
        try:
            if isc.source != in_want[2] or isc.template.name != in_want[0] or not plain_equal(in_want[1], isc.values):
                bad = f'{in_want[0]}: the input script ({len(in_want[2])} bytes) does not come back from the wire with its template and values'
        except Exception as e:  # noqa
            bad = f'{in_want[0]}: the input script no longer parses after the wire round trip ({err_class(e)})'
    elif not bad:
        try:
            if isc.template.name != 'pubkey_hash' or isc.values != {'signature': Input.NULL_SIGNATURE, 'pubkey': Input.NULL_PUBLIC_KEY}:
                bad = f'the placeholder input script reads back as {isc.template.name}'
        except Exception as e:  # noqa
            bad = f'the placeholder input script does not parse ({err_class(e)})'
    if bad:
        run.violation(case, bad, signature=sig)
        return
    # the length framing itself, script by script: write_string / read_string against the model's frame / unframe
    for _, _, src in want + ([in_want] if in_want else []):
        st = BCDataStream()
        st.write_string(src)
        framed = st.get_bytes()
        tail = b'\xaa\xbb'
        try:
            rd = BCDataStream(framed + tail)
            got = rd.read_string()
            impl_un = {'s': got.hex(), 'rest': rd.read(10).hex()}
        except Exception as e:  # noqa
            impl_un = {'error': 'reader-failed'}
        if impl_un != {'s': src.hex(), 'rest': tail.hex()}:
            run.violation(case, f'a script of {len(src)} bytes written with write_string is not read back by read_string '
                                f'(length prefix {framed[:5].hex()})', signature=sig)
            return
        if len(src) > 200:      # the small ones are covered a thousand times over by the parse comparisons
            run.compare('C15.frame', case, framed.hex(), model.call('frame', s=src.hex()))
            run.compare('C15.unframe', case, impl_un, model.call('unframe', w=(framed + tail).hex()))
    for (_, _, src), o in zip(want, back.outputs):
        ip = impl_parse_script(o.script, True)
        run.compare('C15.tx-output', case, ip, align_row(ip, model_parse(model, 'output', src)))
    ipi = impl_parse_script(isc, False)
    if 'error' not in ipi:
        ipi['is_script_hash'] = bool(isc.is_script_hash)
    run.compare('C15.tx-input', case, ipi, model_parse(model, 'input', isc.source))


def sized_values(rng, kind, name, total):
    """values for this template whose generated script is exactly `total` bytes long (None if no single slot can
    absorb the difference, e.g. at a push-header jump)"""
    fields = FIELDS[kind][name]
    shape = OUT_SHAPE[name][0] if kind == 'output' else IN_SHAPES[name]
    pref = [f for f in ('claim', 'support', 'data', 'signature', 'claim_name', 'pubkey', 'script_hash', 'pubkey_hash') if f in fields]
    big = pref[0]
    small = {f: rng.randbytes(rng.choice([0, 1, 20, 33])) for f in fields if f != big}
    seedv = rng.randrange(1 << 30)

    def length(n):
        vals = dict(small)
        vals[big] = b'\x00' * n
        return len(ref_assemble(shape, vals))
    n = max(0, total - length(0))
    for _ in range(6):
        d = total - length(n)
        if d == 0:
            break
        n = max(0, n + d)
    if length(n) != total:
        return None
    vals = {f: {'b': {'hex': v.hex()}} for f, v in small.items()}
    vals[big] = {'b': {'len': n, 'seed': seedv, 'prefix': ''} if n > 96 else {'hex': random.Random(seedv).randbytes(n).hex()}}
    return vals


def check_purchase_row(run, model, case):
    """tx_to_row + txo_to_row: output 0 is typed 'purchase' exactly when output 1 is return_data whose datum is
    purchase metadata; model side: the return_data script's purchase flag"""
    data = bytes.fromhex(case['data'])
    run.case(case, nontrivial=True)
    tx = Transaction()
    second = OutputScript(bytes.fromhex(case['second'])) if 'second' in case else OutputScript.return_data(data)
    tx.add_outputs([Output.pay_pubkey_hash(1000, b'\x11' * 20), Output(0, second)])
    db = ledger().db
    db.tx_to_row(tx)
    t = db.txo_to_row(tx, tx.outputs[0]).get('txo_type', 0)
    m = model_parse(model, 'output', second.source)
    st, info = ref_classify_output(second.source)
    says_purchase = st == 'match' and info[1] == 'purchase'
    decodable = False
    if says_purchase:
        try:
            Purchase.from_bytes(info[2]['data'])
            decodable = True
        except Exception:  # noqa
            decodable = False
    run.count('purchase-row:' + ('purchase' if t == 4 else 'other'))
    if (t == 4) != (says_purchase and decodable):
        run.violation(case, f'output typed {t} although the second output {"is" if says_purchase else "is not"} purchase data',
                      signature={'op': 'purchase_row', 'second': second.source.hex()})
        return
    if 'error' not in m:
        run.compare('C15.purchase-flag', case, says_purchase, m['flags'][12])


# ------------------------------------------------------------------------------------------------
# generators
# ------------------------------------------------------------------------------------------------

BOUNDARY = [0, 1, 2, 15, 16, 17, 20, 32, 33, 74, 75, 76, 77, 254, 255, 256, 257, 65534, 65535, 65536, 65537, 70000]
HEIGHTS = [0, 1, 2, 15, 16, 17, 79, 80, 81, 96, 127, 128, 129, 255, 256, 32767, 32768, 65535, 65536, 2 ** 23 - 1,
           2 ** 23, 2 ** 24 - 1, 2 ** 24, 2 ** 31 - 1, 2 ** 31, 2 ** 32 - 1, 2 ** 32, 2 ** 39 - 1, 2 ** 39, 2 ** 40,
           2 ** 47, 2 ** 55 - 1, 2 ** 55, 2 ** 63 - 1, 2 ** 63, 2 ** 64 - 1, 2 ** 64, 2 ** 71, 2 ** 127, 2 ** 128 - 1,
           2 ** 255, 2 ** 600 - 1]
FIELDS = {
    'output': {n: [e for e in s if isinstance(e, str)] for n, s, _ in OUT_SHAPES},
    'input': {'pubkey': ['signature'], 'pubkey_hash': ['signature', 'pubkey'],
              'script_hash+timelock': ['signature', 'pubkey'], 'timelock': ['pubkey_hash']},
}
NAMES_UTF8 = [b'', b'a', b'name', b'@channel', 'ünïcode-名前'.encode(), b'x' * 255, b'y' * 256]


def rand_len(rng, big_ok=True):
    c = rng.random()
    if c < 0.35:
        return rng.choice(BOUNDARY[:17])
    if c < 0.45 and big_ok:
        return rng.choice(BOUNDARY[17:])
    if c < 0.8:
        return rng.randrange(0, 80)
    if c < 0.93:
        return rng.randrange(70, 300)
    if c < 0.97 or not big_ok:
        return rng.randrange(300, 3000)
    return rng.randrange(65000, 70001)


def special_prefix(rng):
    c = rng.random()
    if c < 0.55:
        return b''
    return bytes([rng.choice([0x00, 0x01, 0x10, 0x4c, 0x4d, 0x4e, 0x50, 0x51, 0x60, 0x6a, 0x76, 0x80, 0x87, 0x88, 0xa9,
                              0xac, 0xb5, 0xb6, 0xb7, 0xff])])


def gen_values(rng, kind, name, force_len=None, force_field=None):
    vals = {}
    fields = FIELDS[kind][name]
    big_field = rng.choice(fields) if fields else None
    for f in fields:
        if force_len is not None and f == force_field:
            n = force_len
        elif f == 'claim_name' and rng.random() < 0.6:
            vals[f] = {'b': {'hex': rng.choice(NAMES_UTF8).hex()}}
            continue
        elif f in ('pubkey_hash', 'script_hash', 'claim_id') and rng.random() < 0.5:
            n = 20
        elif f == 'pubkey' and rng.random() < 0.4:
            n = 33
        elif f == 'signature' and rng.random() < 0.4:
            n = rng.choice([70, 71, 72, 73])
        else:
            n = rand_len(rng, big_ok=(f == big_field))
        pre = special_prefix(rng)
        if f == 'data' and rng.random() < 0.5:
            pre = b'P'
        vals[f] = {'b': mk_data(rng, n, pre)}
    if name == 'timelock':
        vals['height'] = {'i': rng.choice(HEIGHTS) if rng.random() < 0.6 else rng.randrange(2 ** rng.randrange(1, 70))}
    if name == 'script_hash+timelock':
        vals['script'] = {'sub': {'template': 'timelock', 'values': gen_values(rng, 'input', 'timelock')}}
    return vals


def any_push(rng, d):
    """one of the push forms the tokenizer accepts for this datum (the minimal one half of the time)"""
    forms = [ref_push(d)]
    if len(d) <= 0xff:
        forms.append(b'\x4c' + bytes([len(d)]) + d)
    if len(d) <= 0xffff:
        forms.append(b'\x4d' + len(d).to_bytes(2, 'little') + d)
    forms.append(b'\x4e' + len(d).to_bytes(4, 'little') + d)
    return forms[0] if rng.random() < 0.5 else rng.choice(forms)


def gen_third_party_timelock(rng):
    """a redeem script with the time-lock shape but not (necessarily) in the library's canonical encoding: fixed-width or
    padded heights, any accepted push form; sometimes one more edit (then it may stop being a time-lock script)"""
    h = rng.choice(HEIGHTS[:30]) if rng.random() < 0.5 else rng.randrange(2 ** rng.randrange(1, 40))
    c = rng.random()
    if c < 0.25:
        hb = ref_int(h)
    elif c < 0.55:
        w = rng.choice([4, 4, 8, 5, 3])
        hb = h.to_bytes(max(w, (h.bit_length() + 7) // 8), 'little')
    elif c < 0.8:
        hb = ref_int(h) + b'\x00' * rng.randrange(1, 4)
    else:
        hb = h.to_bytes((h.bit_length() + 7) // 8 or 1, 'little')     # no room for a sign bit
    pkh = rng.randbytes(rng.choice([20, 20, 20, 0, 1, 32, 76]))
    head = any_push(rng, hb) if hb else b'\x01\x00'
    body = head + b'\xb1\x75\x76\xa9' + (any_push(rng, pkh) if pkh or rng.random() < 0.5 else b'\x00') + b'\x88\xac'
    if rng.random() < 0.12:
        body = apply_edits(body, [rand_edit(rng, len(body))])
    return body


def gen_spend_third_party(rng):
    vals = {'signature': {'b': mk_data(rng, rng.choice([0, 1, 71, 72, 73, 80]))},
            'pubkey': {'b': mk_data(rng, rng.choice([0, 33, 33, 65]))},
            'script': {'subsrc': {'hex': gen_third_party_timelock(rng).hex()}}}
    return {'op': 'generate', 'kind': 'input', 'template': 'script_hash+timelock', 'values': vals}


def gen_multisig(rng, allow_bad=False):
    n_sig, n_pk = rng.randrange(1, 4), rng.randrange(1, 5)
    if allow_bad and rng.random() < 0.15:
        n_sig = rng.choice([0, 17, 16])
    inner = {'signatures_count': {'k': n_sig}, 'pubkeys': {'l': [mk_data(rng, rng.choice([33, 33, 65, 1, 76])) for _ in range(n_pk)]},
             'pubkeys_count': {'k': n_pk}}
    return {'signatures': {'l': [mk_data(rng, rng.choice([71, 72, 73, 1, 80])) for _ in range(min(n_sig, 3) or 1)]},
            'script': {'sub': {'template': 'multi_sig', 'values': inner}}}


ALL_GEN = [('output', n) for n, _, _ in OUT_SHAPES] + [('input', n) for n in ('pubkey', 'pubkey_hash', 'script_hash+timelock', 'timelock')]
INTERESTING = [0x00, 0x01, 0x14, 0x21, 0x4b, 0x4c, 0x4d, 0x4e, 0x4f, 0x50, 0x51, 0x52, 0x60, 0x61, 0x6a, 0x6d, 0x75, 0x76,
               0x87, 0x88, 0xa9, 0xac, 0xae, 0xb1, 0xb5, 0xb6, 0xb7, 0xff]


def rand_edit(rng, n):
    c = rng.random()
    i = rng.randrange(max(1, n))
    x = rng.choice(INTERESTING) if rng.random() < 0.7 else rng.randrange(256)
    if c < 0.25:
        return ['cut', i]
    if c < 0.5:
        return ['flip', i, x]
    if c < 0.65:
        return ['ins', i, x]
    if c < 0.8:
        return ['del', i]
    if c < 0.9:
        return ['app', bytes(rng.choice(INTERESTING) for _ in range(rng.randrange(1, 4))).hex()]
    return ['pre', bytes([x]).hex()]


def gen_parse_case(rng):
    case = gen_parse_case0(rng)
    case['requery_seed'] = rng.randrange(1 << 16)
    return case


def gen_parse_case0(rng):
    c = rng.random()
    if c < 0.22:     # random opcode soup
        n = rng.randrange(0, 14)
        b = bytes(rng.choice(INTERESTING) if rng.random() < 0.75 else rng.randrange(256) for _ in range(n))
        return {'op': 'parse', 'kind': rng.choice(['output', 'output', 'input', 'sub_timelock', 'sub_multi_sig']),
                'script': {'hex': b.hex()}}
    if c < 0.30:     # token soup: pushes of every header kind and plain opcodes
        parts = []
        for _ in range(rng.randrange(1, 8)):
            k = rng.random()
            if k < 0.5:
                d = rng.randbytes(rng.choice([0, 1, 2, 20, 33, 75, 76]))
                form = rng.randrange(4)
                parts.append([ref_push(d), b'\x4c' + bytes([len(d)]) + d, b'\x4d' + len(d).to_bytes(2, 'little') + d,
                              b'\x4e' + len(d).to_bytes(4, 'little') + d][form])
            else:
                parts.append(bytes([rng.choice(INTERESTING)]))
        return {'op': 'parse', 'kind': rng.choice(['output', 'input', 'input', 'sub_multi_sig']),
                'script': {'hex': b''.join(parts).hex()}}
    if c < 0.38:     # multisig redeem scripts (outside the property's claim; exercised for the model's PUSH_MANY path)
        vals = gen_multisig(rng)
        edits = [rand_edit(rng, 150)] if rng.random() < 0.5 else []
        if rng.random() < 0.4:   # the inner redeem script, offered as the subscript it is
            g = {'kind': 'input', 'template': 'multi_sig', 'values': vals['script']['sub']['values']}
            return {'op': 'parse', 'kind': 'sub_multi_sig', 'script': {'gen': g, 'edits': edits}}
        g = {'kind': 'input', 'template': 'script_hash+multi_sig', 'values': vals}
        return {'op': 'parse', 'kind': 'input', 'script': {'gen': g, 'edits': edits}}
    kind, name = rng.choice(ALL_GEN)
    g = {'kind': kind, 'template': name, 'values': gen_values(rng, kind, name)}
    n = 40 + sum(len(data_of(v['b'])) for v in g['values'].values() if 'b' in v)
    k = rng.random()
    edits = [] if k < 0.15 else [rand_edit(rng, n) for _ in range(1 if k < 0.8 else 2)]
    pk = kind if name != 'timelock' else 'sub_timelock'
    if rng.random() < 0.08:
        pk = rng.choice(['output', 'input', 'sub_timelock', 'sub_multi_sig'])
    return {'op': 'parse', 'kind': pk, 'script': {'gen': g, 'edits': edits}}


FIXED_SCRIPTS = ['', '00', '0000', '000000', '4c', '4d', '4d01', '4e', '4e010203', '4e01000000', '4effffffff01', '05aabb',
                 '4c05aa', '4b', '51', '60', '61', '4f', '50', '6a', '6a00', '6a4c', '6a0150', '6a4c0150', '6a4d010050',
                 '6a4e0100000050', '6a0151', '6a50', 'ac', '00ac', '0014' + 'aa' * 5, '0014' + 'aa' * 20,
                 '76a914' + '11' * 20 + '88ac', '76a914' + '11' * 19 + '88ac', '76a90088ac', '76a94c0088ac',
                 'a914' + '22' * 20 + '87', 'a90087',
                 'b5046e616d65046a756e6b6d7576a914' + '11' * 20 + '88ac',
                 'b5046e616d65046a756e6b6d6d76a914' + '11' * 20 + '88ac',
                 'b6046e616d6514' + '33' * 20 + '6d7576a914' + '11' * 20 + '88ac',
                 'b6046e616d6514' + '33' * 20 + '02aabb6d6d76a914' + '11' * 20 + '88ac',
                 'b7046e616d6514' + '33' * 20 + '02aabb6d6d76a914' + '11' * 20 + '88ac',
                 'b7046e616d6514' + '33' * 20 + '02aabb6d6da914' + '22' * 20 + '87',
                 'b500006d7576a90088ac', 'b6046e616d6514' + '33' * 20 + '006d6d76a914' + '11' * 20 + '88ac',
                 '0001aa01aa', '0001aa01aa01aa', '01aa01bb00', '01aa01bb4c00', '01aa0001cc', '0051ae', '5101aa51ae',
                 '00' + '01aa' + '05' + '5101aa51ae', '00' + '01aa' + '03' + '51' + '51' + 'ae']


def load_corpus():
    out = []
    if os.path.isdir(CORPUS):
        for nm in sorted(os.listdir(CORPUS)):
            if nm.endswith('.json'):
                body = json.load(open(os.path.join(CORPUS, nm)))
                out.extend(body if isinstance(body, list) else [body])
    return out


# ------------------------------------------------------------------------------------------------
# the wallet on top: Database rows, coin filter, Account.fund(everything=True), the daemon's JSON encoder
# ------------------------------------------------------------------------------------------------
SEEDS = ["carbon smart garage balance margin twelve chest sword toast envelope bottom stomach absent",
         "abandon abandon abandon abandon abandon abandon abandon abandon abandon abandon abandon about"]
JTYPE = {'claim': 'claim/create', 'update': 'claim/update', 'support': 'support', 'support+data': 'support',
         'data': 'data', 'purchase': 'data'}


def purchase_decodes(d):
    """oracle for the model's [decodable]: protobuf parsing of the bytes after the 'P'"""
    try:
        PurchaseMessage().ParseFromString(bytes(d[1:]))
        return b'\x01'
    except Exception:  # noqa
        return b''


def wallet_outputs(tx_spec, my_hash):
    outs = []
    for o in tx_spec:
        if 'raw' in o:
            outs.append(Output(o.get('amount', 0), OutputScript(bytes.fromhex(o['raw']))))
            continue
        py, _, _ = py_values('output', o['values'])
        if o.get('mine'):
            py['pubkey_hash'] = my_hash
        outs.append(Output(o.get('amount', 100000000), OutputScript(template=OUT_T[o['template']], values=py)))
    return outs


async def wallet_run(case):
    """stores the case's transactions the way wallet sync does (insert_transaction + save_transaction_io), then asks the
    real Database / Ledger / Account / JSONResponseEncoder"""
    ledger_ = Ledger({'db': Database(':memory:'), 'headers': Headers(':memory:')})
    await ledger_.db.open()
    await ledger_.headers.open()
    try:
        wallet = Wallet()
        gen = {'name': 'single-address'} if case.get('chain', 'single') == 'single' else \
            {'name': 'deterministic-chain', 'receiving': {'gap': 4, 'maximum_uses_per_address': 1},
             'change': {'gap': 2, 'maximum_uses_per_address': 1}}
        source = Account.from_dict(ledger_, wallet, {'seed': SEEDS[0], 'address_generator': gen})
        target = Account.from_dict(ledger_, wallet, {'seed': SEEDS[1], 'address_generator': {'name': 'single-address'}})
        await source.ensure_address_gap()
        await target.ensure_address_gap()
        addresses = await source.receiving.get_addresses()
        res = {'txs': [], 'scripts': []}
        ids = {}
        stored = []
        for n, tx_spec in enumerate(case['txs']):
            address = addresses[n % len(addresses)]
            my_hash = ledger_.address_to_hash160(address)
            spend = (case.get('spends') or {}).get(str(n))
            if spend:      # funded by the wallet itself: the input spends an output stored earlier in this history
                spent_txo = stored[spend[0]].outputs[spend[1]]
                tx = Transaction(height=10 + n, is_verified=True).add_inputs([Input.spend(spent_txo)])
            else:
                prev = Transaction(height=1).add_outputs([Output.pay_pubkey_hash(10 ** 10, bytes([n + 1]) * 20)])
                tx = Transaction(height=10 + n, is_verified=True).add_inputs([Input.spend(prev.outputs[0])])
            tx.add_outputs(wallet_outputs(tx_spec, my_hash))
            stored.append(tx)
            ids[tx.id] = n
            try:
                await ledger_.db.insert_transaction(tx)
                await ledger_.db.save_transaction_io(tx, address, my_hash, f'{tx.id}:{10 + n}:')
            except Exception as ex:  # noqa
                res.setdefault('store_errors', {})[n] = err_class(ex)
            res['scripts'].append([o.script.source for o in tx.outputs])
        # 1. the daemon's view
        encoder = JSONResponseEncoder(ledger=ledger_)
        try:
            txs = await ledger_.db.get_transactions(wallet=wallet, accounts=[source], include_is_my_output=True,
                                                    include_is_spent=True)
        except Exception as ex:  # noqa
            res['listing_error'] = 'get_transactions: ' + err_class(ex)
            return res
        try:
            listed = await ledger_.db.get_txos(wallet=wallet, accounts=[source], include_is_my_input=True,
                                               include_is_my_output=True)
            res['listed'] = sorted((ids[t.tx_ref.id], t.position) for t in listed)
            enc0 = JSONResponseEncoder(ledger=ledger_)
            res['internal'] = {(ids[t.tx_ref.id], t.position): [bool(t.is_my_input), bool(t.is_my_output), t.is_internal_transfer,
                                                                enc0.encode_output(t).get('is_internal_transfer')]
                               for t in listed}
        except Exception as ex:  # noqa
            res['listing_error'] = 'get_txos: ' + err_class(ex)
            return res
        enc = {}
        for tx in txs:
            try:
                e = encoder.encode_transaction(tx)
                enc[ids[tx.id]] = [o.get('type') + ('/' + o['claim_op'] if 'claim_op' in o else '') for o in e['outputs']]
            except Exception as ex:  # noqa
                enc[ids[tx.id]] = {'error': err_class(ex)}
        res['encoded'] = enc
        # 2. the stored type column
        rows = await ledger_.db.db.execute_fetchall("select txid, position, txo_type from txo")
        rows = [(r['txid'], r['position'], r['txo_type']) if isinstance(r, dict) else tuple(r) for r in rows]
        res['rows'] = {(ids[r[0]], r[1]): (1 if r[2] in (1, 2, 5, 6) else r[2]) for r in rows}
        # 3. the coins: Account.get_utxos and the sweep
        utxos = await source.get_utxos()
        res['utxos'] = sorted((ids[u.tx_ref.id], u.position) for u in utxos)
        try:
            swept = await source.fund(target, everything=True, broadcast=False)
            res['swept'] = sorted((ids[i.txo_ref.tx_ref.id], i.txo_ref.position) for i in swept.inputs)
        except Exception as ex:  # noqa
            res['swept'] = {'error': err_class(ex)}
        res['after'] = sorted((ids[u.tx_ref.id], u.position) for u in await source.get_utxos())
        return res
    finally:
        await ledger_.db.close()


def check_wallet(run, model, case):
    run.case(case, nontrivial=True)
    loop = asyncio.new_event_loop()
    try:
        res = loop.run_until_complete(wallet_run(case))
    finally:
        loop.close()
    exp_utxos, bad = [], None
    if res.get('store_errors'):
        n, e = sorted(res['store_errors'].items())[0]
        kinds = [ref_classify_output(x) for x in res['scripts'][n]]
        kinds = [k[1][1] if k[0] == 'match' else k[0] for k in kinds]
        bad = (f'transaction {n} with outputs {kinds} could not be stored ({e}): its claim / support outputs are not recorded as '
               f'locked and the payments beside them are lost')
    elif res.get('listing_error'):
        bad = f'listing the wallet raised {res["listing_error"]}'
    if bad:
        run.violation(case, bad, signature={'op': 'wallet', 'txs': case['txs']})
        return
    mine_expected = sorted((n, i) for n, tx_spec in enumerate(case['txs']) for i, o in enumerate(tx_spec)
                           if o.get('mine') and o['template'].endswith('pay_pubkey_hash'))
    if res.get('listed') != mine_expected:
        run.violation(case, f'Database.get_txos lists {res.get("listed")}, the outputs paying the wallet are {mine_expected}',
                      signature={'op': 'wallet', 'txs': case['txs']})
        return
    for n, scripts in enumerate(res['scripts']):
        view = model.call('tx_view', scripts=[x.hex() for x in scripts])
        refs = [ref_classify_output(x) for x in scripts]
        linked = (len(scripts) >= 2 and refs[1][0] == 'match' and refs[1][1][1] == 'purchase'
                  and purchase_decodes(refs[1][1][2]['data']) == b'\x01')
        enc = res['encoded'].get(n)
        want_types = []
        for i, (st, info) in enumerate(refs):
            klass = info[1] if st == 'match' else ('payment' if st == 'empty' else None)
            if klass is None:
                want_types = {'error': 'ValueError'}
                break
            want_types.append(JTYPE.get(klass) or ('purchase' if (i == 0 and linked) else 'payment'))
        run.count('wallet:first-output=' + (refs[0][1][1] if refs[0][0] == 'match' else refs[0][0]) + (' +purchase-record' if linked else ''))
        # monitor, daemon side
        if not bad and enc != want_types:
            bad = (f'transaction {n}: the opcodes say {want_types} but JSONResponseEncoder reports {enc} '
                   f'(scripts {[x.hex()[:24] for x in scripts]})')
        for i, (st, info) in enumerate(refs):
            stored = res['rows'].get((n, i))
            if stored is None:
                continue
            klass = info[1] if st == 'match' else 'payment'
            want_row = ROW_OF_CLASS.get(klass, 4 if (i == 0 and linked) else 0)
            if not bad and stored != want_row:
                bad = f'transaction {n} output {i}: a {klass} script is stored with txo_type {stored}, expected {want_row}'
            spent_set = {tuple(v) for v in (case.get('spends') or {}).values()}
            if want_row in (0, 4) and (n, i) not in spent_set:
                exp_utxos.append((n, i))
            flags_ = res['internal'].get((n, i))
            if flags_ is not None:
                my_in, my_out, internal, internal_json = flags_
                want_in = str(n) in (case.get('spends') or {})
                want_internal = want_in and my_out and want_row == 0
                if not bad and (my_in != want_in or internal != want_internal or internal_json != want_internal):
                    bad = (f'transaction {n} output {i}: a {klass} output paid by the wallet to itself (my input {want_in}) is listed with '
                           f'is_my_input={my_in}, is_internal_transfer={internal} (encoder: {internal_json}); only a plain payment '
                           f'from me to me is an internal transfer (change), expected {want_internal}')
                run.compare('C15.wallet-internal', case, bool(internal),
                            model.call('internal', scripts=[x.hex() for x in scripts], i=i, my_input=my_in, my_output=my_out))
            # model comparison, output by output
            mv = view[i]
            if (n, i) in spent_set:      # already spent inside this history: only the stored type is comparable
                run.compare('C15.wallet-row', case, {'row_type': stored}, {'row_type': mv['row_type']})
            else:
                run.compare('C15.wallet-row', case, {'row_type': stored, 'spendable': (n, i) in res['utxos']},
                            {'row_type': mv['row_type'], 'spendable': mv['spendable']})
        run.compare('C15.wallet-json', case, enc,
                    [v['type'] for v in view] if all(v['type'] is not None for v in view) else {'error': 'ValueError'})
    exp_utxos.sort()
    if not bad and res['utxos'] != exp_utxos:
        bad = f'Account.get_utxos offers {res["utxos"]} as coins, the opcodes make only {exp_utxos} spendable'
    if not bad and res['swept'] != exp_utxos:
        extra = [x for x in res['swept'] if x not in exp_utxos] if isinstance(res['swept'], list) else res['swept']
        bad = (f'Account.fund(everything=True) spends {res["swept"]}; only {exp_utxos} are plain payments -- '
               f'claim-involved outputs swept as coins: {extra}')
    if not bad and res['after'] != exp_utxos:
        bad = 'the sweep left outputs reserved'
    if bad:
        run.violation(case, bad, signature={'op': 'wallet', 'txs': case['txs']})


def gen_wallet_case(rng, chain='single'):
    """a handful of stored transactions: a mine output of every *+pay_pubkey_hash kind at position 0, optionally followed by a
    purchase record / plain data / another payment"""
    good = Purchase('cd' * 20).to_bytes()
    firsts = ['pay_pubkey_hash', 'claim_name+pay_pubkey_hash', 'update_claim+pay_pubkey_hash',
              'support_claim+pay_pubkey_hash', 'support_claim+data+pay_pubkey_hash']
    rng.shuffle(firsts)
    txs = [[{'template': 'pay_pubkey_hash', 'values': gen_wallet_values(rng, 'pay_pubkey_hash'), 'mine': True, 'amount': 3 * 10 ** 8}]]
    for name in firsts + [rng.choice(firsts) for _ in range(rng.randrange(0, 3))]:
        tx = [{'template': name, 'values': gen_wallet_values(rng, name), 'mine': True}]
        c = rng.random()
        if c < 0.5:
            tx.append({'raw': OutputScript.return_data(good).source.hex()})
        elif c < 0.62:
            tx.append({'raw': OutputScript.return_data(rng.choice([b'hello', b'P', b'P\xff\xff\xff', b'Q' + good[1:], b''])).source.hex()})
        elif c < 0.7:
            tx.append({'raw': ('6a4c%02x' % len(good)) + good.hex()})
        if rng.random() < 0.3:
            other = rng.choice(firsts)
            tx.append({'template': other, 'values': gen_wallet_values(rng, other), 'mine': rng.random() < 0.7, 'amount': 10 ** 6})
        txs.append(tx)
    return {'op': 'wallet', 'chain': chain, 'txs': txs}


# payloads the claim / support decoders fail on in different ways (IndexError, KeyError, JSON errors, DecodeError) and names
# that are not UTF-8: classification comes from the opcodes, so all of them must still be stored as locked claims / supports
ODD_PAYLOADS = [b'', b'{"sources": {"lbry_sd_hash": "aa"}, "fee": {"LBC": {"amount": "x", "address": 1}}}', b'{"ver": "0.0.3"}', b'{}', b'[]', b'{"a": 1}', b'{', b'\x00', b'\x01', b'\x01' + b'\x11' * 20, b'\xff\xfe not a claim']
ODD_NAMES = [b'\xff\xfe', b'\xc3', b'ok\x80', b'\x00', b'']


def gen_wallet_history(rng):
    """the wallet acting on its own outputs: a received payment funds a claim (+change), the claim is UPDATED, supported,
    supported with data, and some change is moved to itself; optionally a purchase record behind the self-paid output"""
    good = Purchase('cd' * 20).to_bytes()
    P = 'pay_pubkey_hash'

    def out(name, amount=10 ** 7):
        return {'template': name, 'values': gen_wallet_values(rng, name), 'mine': True, 'amount': amount}
    txs = [[out(P, 5 * 10 ** 8)],
           [out('claim_name+pay_pubkey_hash'), out(P, 4 * 10 ** 8)],            # 1: spends 0:0
           [out('update_claim+pay_pubkey_hash')],                                # 2: spends 1:0 (the claim)
           [out('support_claim+pay_pubkey_hash'), out(P, 3 * 10 ** 8)],          # 3: spends 1:1 (change)
           [out('support_claim+data+pay_pubkey_hash'), out(P, 2 * 10 ** 8)],     # 4: spends 3:1
           [out('update_claim+pay_pubkey_hash')],                                # 5: spends 2:0 (second update)
           [out(P, 10 ** 8), out(P, 9 * 10 ** 7)]]                               # 6: spends 4:1, change only
    spends = {'1': [0, 0], '2': [1, 0], '3': [1, 1], '4': [3, 1], '5': [2, 0], '6': [4, 1]}
    if rng.random() < 0.5:
        txs[rng.choice([2, 5, 6])].insert(1, {'raw': OutputScript.return_data(good).source.hex()})
    return {'op': 'wallet', 'chain': 'single', 'txs': txs, 'spends': spends}


def gen_wallet_values(rng, name, odd=None):
    vals = {}
    for f in FIELDS['output'][name]:
        if f == 'claim_name':
            pool = ODD_NAMES if odd == 'name' else [b'a', b'name', b'@channel', 'ünï'.encode()]
            vals[f] = {'b': {'hex': rng.choice(pool).hex()}}
        elif f in ('claim_id', 'pubkey_hash'):
            vals[f] = {'b': {'hex': rng.randbytes(20).hex()}}
        elif odd == 'payload' or rng.random() < 0.3:
            vals[f] = {'b': {'hex': rng.choice(ODD_PAYLOADS).hex()}}
        else:
            vals[f] = {'b': {'hex': rng.randbytes(rng.choice([1, 5, 40])).hex()}}
    return vals


def gen_wallet_odd_case(rng, odd):
    """every claim-involved kind with an undecodable payload / a non-UTF-8 name, each next to an ordinary payment"""
    txs = [[{'template': 'pay_pubkey_hash', 'values': gen_wallet_values(rng, 'pay_pubkey_hash'), 'mine': True, 'amount': 3 * 10 ** 8}]]
    for name in ('claim_name+pay_pubkey_hash', 'update_claim+pay_pubkey_hash', 'support_claim+pay_pubkey_hash',
                 'support_claim+data+pay_pubkey_hash'):
        txs.append([{'template': name, 'values': gen_wallet_values(rng, name, odd), 'mine': True},
                    {'template': 'pay_pubkey_hash', 'values': gen_wallet_values(rng, 'pay_pubkey_hash'), 'mine': True, 'amount': 10 ** 6}])
    return {'op': 'wallet', 'chain': 'single', 'txs': txs}


def build_signable(case):
    k = case['kind']
    if k == 'purchase':
        return Purchase(case['claim_id']), 'data', 'return_data'
    if k.startswith('support'):
        sg = Support()
        if case.get('title'):
            sg.emoji = case['title']
        if case.get('comment'):
            sg.comment = case['comment']
        field, tname = 'support', 'support_claim+data+pay_pubkey_hash'
    else:
        sg = Claim()
        sg.stream.title = case.get('title', 'x')
        if case.get('comment'):
            sg.stream.description = case['comment']
        field = 'claim'
        tname = 'update_claim+pay_pubkey_hash' if k.startswith('update') else 'claim_name+pay_pubkey_hash'
    if case.get('signed'):
        sg.signing_channel_hash = bytes.fromhex(case['channel'])
        sg.signature = bytes.fromhex(case['signature'])
    return sg, field, tname


def check_object_values(run, model, case):
    """template values given as the wallet gives them: Claim / Support / Purchase OBJECTS (signed by a channel or not), not bytes.
    push_data asks len(value) and bytes(value): the generated script must be the minimal-push assembly of bytes(value) and
    parse back to exactly those bytes, alone and inside a transaction"""
    run.case(case, nontrivial=True)
    run.count('object-value:' + case['kind'] + ('+signed' if case.get('signed') else ''))
    obj, field, tname = build_signable(case)
    pkh, cid, name = bytes.fromhex(case['pubkey_hash']), case['claim_id'], case['name']
    sig = {'op': 'object_values', 'kind': case['kind'], 'signed': bool(case.get('signed'))}
    try:
        if tname == 'return_data':
            txo = Output.add_purchase_data(obj)
        elif field == 'support':
            txo = Output.pay_support_data_pubkey_hash(1000, name, cid, obj, pkh)
        elif tname.startswith('update'):
            txo = Output.pay_update_claim_pubkey_hash(1000, name, cid, obj, pkh)
        else:
            txo = Output.pay_claim_name_pubkey_hash(1000, name, obj, pkh)
        src = txo.script.source
    except Exception as e:  # noqa
        run.violation(case, f'generating {tname} from a {type(obj).__name__} object raised {err_class(e)}', signature=sig)
        return
    payload = obj.to_bytes()
    flat = {'data': payload} if tname == 'return_data' else \
        {k: (payload if k == field else (v if isinstance(v, bytes) else bytes(v))) for k, v in txo.script.values.items()}
    shape = OUT_SHAPE[tname][0]
    want = ref_assemble(shape, flat)
    bad = None
    if len(obj) != len(payload):
        bad = (f'len() of the {type(obj).__name__} value is {len(obj)} but it serialises to {len(payload)} bytes: push_data writes the '
               f'wrong length prefix')
    elif src != want:
        bad = f'{tname}: the script generated from a {type(obj).__name__} object is not the minimal-push assembly of its bytes'
    if not bad:
        try:
            prev = Transaction().add_outputs([Output.pay_pubkey_hash(5000, b'\x07' * 20)])
            tx = Transaction().add_inputs([Input.spend(prev.outputs[0])]).add_outputs([txo])
            for fresh in (OutputScript(src), Transaction(tx.raw).outputs[0].script):
                if fresh.template.name != tname or fresh.values[field] != payload:
                    bad = f'{tname}: generated from a {type(obj).__name__} object, parses back as {fresh.template.name} with another payload'
        except Exception as e:  # noqa
            bad = f'{tname}: the script generated from a {"signed " if case.get("signed") else ""}{type(obj).__name__} object does not parse back ({err_class(e)})'
    if bad:
        run.violation(case, bad, signature=sig)
        return
    vals = {k: {'b': v.hex()} for k, v in flat.items()}
    run.compare('C15.object-values', case, {'source': src.hex()}, {'source': model.call('generate', template=tname, values=vals)})
    ip = impl_parse('output', src)
    run.compare('C15.object-values-parse', case, ip, align_row(ip, model_parse(model, 'output', src)))


def check_clear_signature(run, model, case):
    """an output built from a signed claim / support whose signature is then cleared (Transaction.claim_update without a signing
    channel, collection_update --clear_channel): the script bytes must say what the values say"""
    run.case(case, nontrivial=True)
    run.count('clear_signature:' + case['kind'])
    pkh, cid, name = bytes.fromhex(case['pubkey_hash']), case['claim_id'], case['name']
    if case['kind'] == 'support+data':
        sg = Support()
        sg.emoji = case.get('title', 'x')
        tname = 'support_claim+data+pay_pubkey_hash'
    else:
        sg = Claim()
        sg.stream.title = case.get('title', 'x')
        tname = 'update_claim+pay_pubkey_hash' if case['kind'] == 'update' else 'claim_name+pay_pubkey_hash'
    sg.signing_channel_hash = bytes.fromhex(case['channel'])
    sg.signature = bytes.fromhex(case['signature'])
    if case['kind'] == 'support+data':
        txo = Output.pay_support_data_pubkey_hash(1000, name, cid, sg, pkh)
        field = 'support'
    elif case['kind'] == 'update':
        txo = Output.pay_update_claim_pubkey_hash(1000, name, cid, sg, pkh)
        field = 'claim'
    else:
        txo = Output.pay_claim_name_pubkey_hash(1000, name, sg, pkh)
        field = 'claim'
    signed_source = txo.script.source
    txo.clear_signature()
    src = txo.script.source
    sig = {'op': 'clear_signature', 'kind': case['kind']}
    try:
        fresh = OutputScript(src)
        ok_t = fresh.template.name == tname
        wire_payload = fresh.values[field]
    except Exception as e:  # noqa
        run.violation(case, f'after clear_signature the script no longer parses ({err_class(e)})', signature=sig)
        return
    held = bytes(txo.script.values[field])
    if not ok_t or wire_payload != held:
        run.violation(case, f'after clear_signature the script bytes still carry the old payload: values say '
                            f'{held.hex()[:60]}, the script says {wire_payload.hex()[:60]} -- the generated script does not parse '
                            f'back to the output\'s values', signature=sig)
        return
    decoded = (Support if field == 'support' else Claim).from_bytes(wire_payload)
    if decoded.is_signed or src == signed_source:
        run.violation(case, 'after clear_signature the serialised output is still signed by the old channel', signature=sig)
        return
    vals = {k: {'b': (bytes(v) if not isinstance(v, bytes) else v).hex()} for k, v in txo.script.values.items()}
    run.compare('C15.clear_signature', case, {'source': src.hex()}, {'source': model.call('generate', template=tname, values=vals)})


def dispatch(run, model, case):
    op = case['op']
    if op == 'push':
        check_push(run, model, case)
    elif op == 'tokenize':
        check_tokenize(run, model, case)
    elif op == 'generate':
        check_generate(run, model, case)
    elif op == 'parse':
        check_parse(run, model, case)
    elif op == 'tx':
        check_tx(run, model, case)
    elif op == 'purchase_row':
        check_purchase_row(run, model, case)
    elif op == 'wallet':
        check_wallet(run, model, case)
    elif op == 'clear_signature':
        check_clear_signature(run, model, case)
    elif op == 'object_values':
        check_object_values(run, model, case)
    else:
        raise ValueError('unknown case ' + op)


def main(run):
    model = vlib.Model('C15', oracles={'purchase_decodes': purchase_decodes})
    rng = run.rng
    T = run.tier == 'thorough'
    run.rule = ('push: every data length in the exhaustive ranges (quick 0..1200, 65200..65900; thorough 0..70000) through the '
                'monitor, a boundary-centred subset also through the model, each followed by a random tail; generate: every '
                'output template and the non-multisig input templates x value sets whose data lengths come from the list '
                '0,1,2,15..17,20,32,33,74..77,254..257,65534..65537,70000 plus random lengths, first bytes from an opcode-like '
                'set, lock heights of every byte width 0..2^600, utf-8 and binary claim names; parse: opcode soup, token soup '
                'with all four push header forms, generated scripts with 0-2 edits (cut/flip/insert/delete/append/prepend), '
                'offered as output, input and subscript; multisig scripts only as parser inputs; every parse case asked again twice on the '
                'same object; third-party (non-canonical) redeem scripts as subscript bytes; transactions whose generated scripts have '
                'total lengths 250..256, 32760..32775, 65530..65540 (compact-size boundaries, every template at 253/32768/'
                '65535; thorough: every template at every length of the sweep); wallets holding every *+pay_pubkey_hash kind, optionally followed by purchase records, read through '
                'Database.get_transactions + JSONResponseEncoder, Account.get_utxos and Account.fund(everything=True). distinct = distinct case '
                'description; non-trivial = non-empty script / any generation.')
    for case in load_corpus():
        dispatch(run, model, case)

    # ---- push ----
    if T:
        lens_monitor = list(range(0, 70001))
        lens_model = set(range(0, 2100)) | set(range(65000, 66100)) | set(range(0, 70001, 41)) | {70000}
    else:
        lens_monitor = list(range(0, 1201)) + list(range(65200, 65901)) + list(range(1201, 70001, 997)) + [70000]
        lens_model = set(range(0, 300)) | set(range(65500, 65570)) | set(BOUNDARY) | set(range(1201, 70001, 9970))
    for n in lens_monitor:
        tail = bytes(rng.choice(INTERESTING) for _ in range(rng.randrange(0, 4))) if rng.random() < 0.7 else b''
        case = {'op': 'push', 'data': mk_data(rng, n, special_prefix(rng)), 'rest': tail.hex()}
        check_push(run, model, case, with_model=(n in lens_model))
    run.exhaustive = T

    # ---- tokenize ----
    for h in FIXED_SCRIPTS:
        check_tokenize(run, model, {'op': 'tokenize', 'script': {'hex': h}})
    for _ in range(vlib.scaled(run.tier, 1000, 40000)):
        c = gen_parse_case(rng)
        check_tokenize(run, model, {'op': 'tokenize', 'script': c['script']})

    # ---- generate -> parse ----
    for kind, name in ALL_GEN:
        fields = FIELDS[kind][name]
        for f in fields:                       # every boundary length in every push slot of every template
            for n in BOUNDARY:
                if n >= 65534 and not T and rng.random() < 0.7:
                    continue
                check_generate(run, model, {'op': 'generate', 'kind': kind, 'template': name,
                                            'values': gen_values(rng, kind, name, force_len=n, force_field=f)})
        for _ in range(vlib.scaled(run.tier, 18, 700)):
            check_generate(run, model, {'op': 'generate', 'kind': kind, 'template': name,
                                        'values': gen_values(rng, kind, name)})
    for h in HEIGHTS:
        for name in ('timelock', 'script_hash+timelock'):
            vals = gen_values(rng, 'input', name)
            tgt = vals if name == 'timelock' else vals['script']['sub']['values']
            tgt['height'] = {'i': h}
            check_generate(run, model, {'op': 'generate', 'kind': 'input', 'template': name, 'values': vals})
    # the subscript given as BYTES (a redeem script written by somebody else): must be embedded verbatim
    for _ in range(vlib.scaled(run.tier, 250, 6000)):
        case = gen_spend_third_party(rng)
        if case['values']['script']['subsrc']['hex'] == '':
            continue
        run.count('third-party-redeem-script')
        check_generate(run, model, case)
    for _ in range(vlib.scaled(run.tier, 30, 600)):
        check_generate(run, model, {'op': 'generate', 'kind': 'input', 'template': 'script_hash+multi_sig',
                                    'values': gen_multisig(rng, allow_bad=True)})

    # ---- arbitrary byte strings as scripts ----
    for h in FIXED_SCRIPTS:
        for kind in ('output', 'input', 'sub_timelock', 'sub_multi_sig'):
            check_parse(run, model, {'op': 'parse', 'kind': kind, 'script': {'hex': h}})
    for _ in range(vlib.scaled(run.tier, 2800, 120000)):
        check_parse(run, model, gen_parse_case(rng))

    # ---- through the transaction wire format ----
    for _ in range(vlib.scaled(run.tier, 60, 1500)):
        outs = []
        for _ in range(rng.randrange(1, 5)):
            name = rng.choice(OUT_SHAPES)[0]
            vals = gen_values(rng, 'output', name)
            for v in vals.values():          # keep wire cases small
                if 'len' in v['b'] and v['b']['len'] > 3000:
                    v['b']['len'] = rng.choice([253, 254, 255, 256, 300])
            outs.append({'template': name, 'values': vals})
        check_tx(run, model, {'op': 'tx', 'outputs': outs})

    # total script lengths across the compact-size boundaries (252/253, 32767/32768 = sign bit of a 16-bit length,
    # 65535/65536), every template, outputs and inputs, inside a serialised transaction
    sweep = list(range(250, 257)) + list(range(32760, 32776)) + list(range(65530, 65541))
    plan = [(kn, n) for kn in ALL_GEN for n in ((252, 253, 32767, 32768, 65535, 65536) if T else (253, 32768, 65535))]
    plan += [(ALL_GEN[i % len(ALL_GEN)], n) for i, n in enumerate(sweep)]
    if T:
        plan += [(kn, n) for kn in ALL_GEN for n in sweep]
    for (kind, name), n in plan:
        if name in ('timelock', 'script_hash+timelock'):
            kind, name = 'input', 'pubkey_hash'
        vals = None
        for delta in (0, 1, -1, 2):
            vals = sized_values(rng, kind, name, n + delta)
            if vals is not None:
                break
        if vals is None:
            continue
        small = {'template': 'pay_pubkey_hash', 'values': gen_wallet_values(rng, 'pay_pubkey_hash')}
        if kind == 'output':
            check_tx(run, model, {'op': 'tx', 'outputs': [{'template': name, 'values': vals}, small]})
        else:
            check_tx(run, model, {'op': 'tx', 'outputs': [small], 'input': {'template': name, 'values': vals}})

    # ---- the wallet on top: stored type, coin filter, Account.fund(everything=True), the daemon's JSON encoder ----
    for i in range(vlib.scaled(run.tier, 5, 300)):
        check_wallet(run, model, gen_wallet_case(rng, chain='hd' if i % 5 == 3 else 'single'))
    for i in range(vlib.scaled(run.tier, 3, 100)):
        check_wallet(run, model, gen_wallet_history(rng))
    for i in range(vlib.scaled(run.tier, 2, 120)):
        check_wallet(run, model, gen_wallet_odd_case(rng, 'payload' if i % 2 == 0 else 'name'))

    # ---- values given as schema objects, signed by a channel or not ----
    for kind in ('claim', 'update', 'support+data', 'purchase'):
        for signed in ((False, True) if kind != 'purchase' else (False,)):
            for _ in range(vlib.scaled(run.tier, 3, 60)):
                check_object_values(run, model, {
                    'op': 'object_values', 'kind': kind, 'signed': signed, 'name': rng.choice(['name', '@chan', 'a']),
                    'claim_id': rng.randbytes(20).hex(), 'title': rng.choice(['', 'x', 'hello', '\U0001F44D']),
                    'comment': rng.choice(['', 'c' * rng.choice([1, 60, 75, 160, 250, 300])]),
                    'pubkey_hash': rng.randbytes(20).hex(), 'channel': rng.randbytes(20).hex(), 'signature': rng.randbytes(64).hex()})

    # ---- signature cleared after the script was generated ----
    for kind in ('claim', 'update', 'support+data'):
        for _ in range(vlib.scaled(run.tier, 3, 60)):
            check_clear_signature(run, model, {
                'op': 'clear_signature', 'kind': kind, 'name': rng.choice(['name', '@chan', 'a']), 'claim_id': rng.randbytes(20).hex(),
                'title': rng.choice(['hello', 'x', 'title ' * 5]), 'pubkey_hash': rng.randbytes(20).hex(),
                'channel': rng.randbytes(20).hex(), 'signature': rng.randbytes(64).hex()})

    # ---- purchase typing at the row level ----
    good = Purchase('ab' * 20).to_bytes()
    for d in [good, good[1:], b'P', b'', b'Q' + good[1:], b'P' + b'\xff' * 5, good + b'\x00']:
        check_purchase_row(run, model, {'op': 'purchase_row', 'data': d.hex()})
    check_purchase_row(run, model, {'op': 'purchase_row', 'data': '', 'second': '76a914' + '11' * 20 + '88ac'})
    check_purchase_row(run, model, {'op': 'purchase_row', 'data': '', 'second': ('6a4c' + '%02x' % len(good)) + good.hex()})

    run.partial = []
    run.supporting = {}
    run.notes.append({'model_calls': model.calls})
    model.close()


def replay(run, case):
    model = vlib.Model('C15', oracles={'purchase_decodes': purchase_decodes})
    dispatch(run, model, case)
    model.close()
