# import shim for the absent third-party module `appdirs`
import os, tempfile
def user_data_dir(*a, **k):
    return os.path.join(tempfile.gettempdir(), 'lbry-verif-data')
def user_config_dir(*a, **k):
    return os.path.join(tempfile.gettempdir(), 'lbry-verif-config')
def user_download_dir(*a, **k):
    return os.path.join(tempfile.gettempdir(), 'lbry-verif-dl')
