# import shim: lbry imports `filetype` at module load; checked code paths never call it
def guess(*a, **k):
    return None
def guess_mime(*a, **k):
    return None
