# import shim for the absent third-party module `yaml` (PyYAML)
import json
def safe_load(s):
    if hasattr(s, 'read'):
        s = s.read()
    return json.loads(s) if s and s.strip() else None
def safe_dump(d, *a, **k):
    return json.dumps(d)
