#!/bin/sh
# launcher used by every check: runs /venv python against /repo's working tree
# VERIF_REPO lets a developer point the harness at a scratch copy; registered checks always use /repo
export PYTHONPATH=${VERIF_REPO:-/repo}:/verif/harness/stubs:/verif/harness
export PROTOCOL_BUFFERS_PYTHON_IMPLEMENTATION=python
export PYTHONHASHSEED=0
export PYTHONDONTWRITEBYTECODE=1
export LBRYIO_LBRY_SDK_VERIF=1
exec /venv/bin/python -W ignore "$@"
