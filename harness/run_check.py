"""./check <ID> [--tier quick|thorough] [--replay file]   (run under harness/pyenv.sh)"""
import argparse
import importlib
import json
import logging
import os
import sys
import traceback

sys.path.insert(0, '/verif/harness')
import vlib  # noqa: E402


def main():
    ap = argparse.ArgumentParser()
    ap.add_argument('pid')
    ap.add_argument('--tier', default=os.environ.get('VERIF_TIER', 'quick'))
    ap.add_argument('--replay', default=None)
    a = ap.parse_args()
    pid = a.pid.upper()
    tier = a.tier if a.tier in ('quick', 'thorough') else 'quick'
    try:
        seed = int(os.environ.get('VERIF_SEED', '20260923'))
    except ValueError:
        seed = 20260923
    logging.disable(logging.CRITICAL)
    run = vlib.Run(pid, tier, seed)

    audit = vlib.static_audit()
    make_ok, make_log = vlib.coq_make(clean=False, target=f'Props/{pid}.vo')
    props = vlib.check_props(pid) if make_ok else {'ok': False, 'theorems': [], 'log': make_log, 'cmd': ''}

    mod = importlib.import_module(f'props.{pid.lower()}')
    replay_case = None
    if a.replay:
        body = json.load(open(a.replay))
        replay_case = body.get('case')
        if replay_case is None:
            for u in body.get('unchecked', []):
                if 'case' in u:
                    replay_case = u['case']
                    break
    try:
        if replay_case is not None and hasattr(mod, 'replay'):
            mod.replay(run, replay_case)
        else:
            mod.main(run)
    except Exception:
        # a crash of the harness itself is a broken correspondence, never a pass
        run.disagreement('harness-crash', {'traceback': traceback.format_exc()[-3000:]}, None, None)
    if tier == 'thorough' and make_ok:
        ok, txt = vlib.coqchk(pid)
        run.notes.append({'coqchk': 'ok' if ok else 'FAILED', 'output': txt[-1500:]})
        if not ok:
            props['ok'] = False
            props['log'] = 'coqchk failed: ' + txt[-1500:]
    code = run.finish(audit, make_ok, make_log, props)
    sys.exit(code)


if __name__ == '__main__':
    main()
