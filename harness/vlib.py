"""Shared machinery for every property check (see DESIGN.md sections 2-3).

  * static audit of the Coq development (no Admitted/Axiom/...),
  * proof obligations: incremental full `make`, then `coqc Props/<id>.v` re-run unconditionally and
    its `Print Assumptions` output parsed,
  * Model: the extracted OCaml model runner with oracle callbacks,
  * Run: case bookkeeping, known findings, replay files, evidence file, exit code.
"""
import fcntl
import hashlib
import json
import os
import random
import re
import subprocess
import sys
import time

VERIF = '/verif'
COQ = os.path.join(VERIF, 'coq')
BUILD = os.path.join(VERIF, 'build')
EVIDENCE = os.path.join(VERIF, 'evidence')
REPLAYS = os.path.join(VERIF, 'replays')
KNOWN = os.path.join(VERIF, 'known_findings.jsonl')

# axioms of the standard library that a theorem may depend on (each named in DESIGN.md section 4)
ALLOWED_AXIOMS = {
    'functional_extensionality_dep', 'FunctionalExtensionality.functional_extensionality_dep',
    'Eqdep.Eq_rect_eq.eq_rect_eq', 'eq_rect_eq', 'Coq.Logic.Eqdep.Eq_rect_eq.eq_rect_eq',
    'JMeq_eq', 'JMeq.JMeq_eq', 'proof_irrelevance', 'ProofIrrelevance.proof_irrelevance',
    'classic', 'Classical_Prop.classic', 'propositional_extensionality',
}

TRUSTED_BASE = [
    'Coq 8.16.1 kernel (coqc; vm_compute used in a few finite facts; native_compute not used)',
    'Coq extraction plugin with ExtrOcamlBasic only (its Extract Inductive for bool, option, unit, list, prod, '
    'sumbool, sumor); no Extract Constant / Extract Inductive of our own',
    'OCaml 4.13.1 + zarith (driver-side number conversion), ocaml/proto.ml and the per-property driver',
    'the Python correspondence harness: generators, adapters, canonicalisation, oracle answers '
    '(hashlib, cryptography, ecdsa, zlib, json, sqlite3), import stubs for absent third-party modules',
]


# ----------------------------------------------------------------------------------------------
# Coq side
# ----------------------------------------------------------------------------------------------

def _strip_comments(src):
    out, depth, i, n = [], 0, 0, len(src)
    in_str = False
    while i < n:
        two = src[i:i + 2]
        if not in_str and two == '(*':
            depth += 1
            i += 2
            continue
        if not in_str and depth and two == '*)':
            depth -= 1
            i += 2
            continue
        c = src[i]
        if depth == 0:
            if c == '"':
                in_str = not in_str
            out.append(c)
        elif c == '\n':
            out.append(c)
        i += 1
    return ''.join(out)


FORBIDDEN = [
    r'\bAdmitted\b', r'\badmit\b', r'\bgive_up\b', r'\bAxiom\b', r'\bAxioms\b', r'\bParameter\b', r'\bParameters\b',
    r'\bConjecture\b', r'\bConjectures\b', r'Admit\s+Obligations', r'Unset\s+Guard\s+Checking',
    r'Unset\s+Positivity\s+Checking', r'Unset\s+Universe\s+Checking', r'bypass_check', r'type-in-type',
    r'impredicative-set', r'\bDeclare\s+Module\b',
]


def static_audit(paths=None):
    """Returns a list of problems found in the Coq sources (empty list = clean)."""
    problems = []
    files = []
    for root, _, names in os.walk(COQ):
        for nm in names:
            if nm.endswith('.v'):
                files.append(os.path.join(root, nm))
    for extra in ('_CoqProject',):
        p = os.path.join(COQ, extra)
        if os.path.exists(p):
            txt = open(p).read()
            for pat in (r'type-in-type', r'impredicative-set', r'bypass_check'):
                if re.search(pat, txt):
                    problems.append(f'{p}: {pat}')
    for f in sorted(files):
        src = _strip_comments(open(f).read())
        for pat in FORBIDDEN:
            m = re.search(pat, src)
            if m:
                line = src[:m.start()].count('\n') + 1
                problems.append(f'{f}:{line}: forbidden `{m.group(0)}`')
        # Variable / Hypothesis / Context outside a Section
        depth = 0
        for ln, line in enumerate(src.split('\n'), 1):
            s = line.strip()
            if re.match(r'Section\s+\w+\s*\.', s):
                depth += 1
            elif re.match(r'End\s+\w+\s*\.', s) and depth > 0:
                depth -= 1
            elif depth == 0 and re.match(r'(Variable|Variables|Hypothesis|Hypotheses|Context)\b', s):
                problems.append(f'{f}:{ln}: `{s.split()[0]}` outside a Section')
    return problems


def _locked(fn):
    os.makedirs(BUILD, exist_ok=True)
    with open(os.path.join(BUILD, '.lock'), 'w') as lk:
        fcntl.flock(lk, fcntl.LOCK_EX)
        try:
            return fn()
        finally:
            fcntl.flock(lk, fcntl.LOCK_UN)


def write_coqproject():
    files = []
    for sub in ('Lib', 'Wire', 'Model', 'Proofs', 'Props'):
        d = os.path.join(COQ, sub)
        if os.path.isdir(d):
            for nm in sorted(os.listdir(d)):
                if nm.endswith('.v'):
                    files.append(f'{sub}/{nm}')
    txt = '-Q . LV\n' + '\n'.join(files) + '\n'
    p = os.path.join(COQ, '_CoqProject')
    old = open(p).read() if os.path.exists(p) else None
    if old != txt:
        open(p, 'w').write(txt)
        return True
    return False


def coq_make(jobs=16, clean=False, timeout=3000, target=None):
    """Full .vo build (never -vos) of the whole development, or of one target and everything it depends on
    (incremental). Returns (ok, log)."""
    def go():
        changed = write_coqproject()
        mk = os.path.join(COQ, 'Makefile.coq')
        if changed or not os.path.exists(mk):
            subprocess.run(['coq_makefile', '-f', '_CoqProject', '-o', 'Makefile.coq'], cwd=COQ, check=True,
                           stdout=subprocess.DEVNULL, stderr=subprocess.DEVNULL)
        if clean:
            subprocess.run(['make', '-f', 'Makefile.coq', 'clean'], cwd=COQ, stdout=subprocess.DEVNULL,
                           stderr=subprocess.DEVNULL)
        cmd = ['timeout', str(timeout), 'make', '-f', 'Makefile.coq', f'-j{jobs}']
        if target:
            cmd.extend(target if isinstance(target, (list, tuple)) else [target])
        r = subprocess.run(cmd, cwd=COQ,
                           stdout=subprocess.PIPE, stderr=subprocess.STDOUT, text=True)
        return r.returncode == 0, r.stdout[-4000:]
    return _locked(go)


def check_props(pid, timeout=900):
    """Re-run coqc on Props/<pid>.v; returns dict(theorems=[{name, assumptions, ok}], ok, log)."""
    path = os.path.join(COQ, 'Props', f'{pid}.v')
    res = {'theorems': [], 'ok': False, 'log': '', 'cmd': f'cd {COQ} && coqc -Q . LV Props/{pid}.v'}
    if not os.path.exists(path):
        res['log'] = 'no Props file'
        return res
    src = _strip_comments(open(path).read())
    names = re.findall(r'^\s*(?:Theorem|Lemma|Corollary)\s+(\w+)', src, re.M)
    printed = re.findall(r'Print\s+Assumptions\s+(\w+)\s*\.', src)
    # the property file may contain only statements closed by `exact`
    bodies = re.findall(r'Proof\.(.*?)Qed\.', src, re.S)
    style_ok = all(re.fullmatch(r'\s*(exact\s+[^.]*(\.[A-Za-z_][^.]*)*\.|vm_compute\.\s*reflexivity\.|reflexivity\.)\s*', b) for b in bodies)
    def go():
        return subprocess.run(['timeout', str(timeout), 'coqc', '-Q', '.', 'LV', f'Props/{pid}.v'], cwd=COQ,
                              stdout=subprocess.PIPE, stderr=subprocess.STDOUT, text=True)
    r = _locked(go)
    res['log'] = r.stdout[-3000:]
    if r.returncode != 0:
        res['theorems'] = [{'name': n, 'assumptions': None, 'ok': False} for n in names]
        return res
    # parse the Print Assumptions blocks in order
    blocks = []
    cur = None
    for line in r.stdout.split('\n'):
        if line.startswith('Closed under the global context'):
            blocks.append([])
            cur = None
        elif line.startswith('Axioms:'):
            cur = []
            blocks.append(cur)
        elif cur is not None:
            m = re.match(r'^(\S+)\s*:', line)
            if m:
                cur.append(m.group(1))
    by_name = dict(zip(printed, blocks)) if len(printed) == len(blocks) else {}
    allok = bool(names) and style_ok
    for n in names:
        ax = by_name.get(n)
        ok = ax is not None and all(a in ALLOWED_AXIOMS or a.split('.')[-1] in ALLOWED_AXIOMS for a in ax)
        res['theorems'].append({'name': n, 'assumptions': ('closed' if ax == [] else ax), 'ok': ok})
        allok = allok and ok
    res['ok'] = allok
    res['style_ok'] = style_ok
    return res


def coqchk(pid, timeout=1800):
    """independent re-check of Props/<pid>.vo and its closure; returns (ok, axioms_text)"""
    def go():
        return subprocess.run(['timeout', str(timeout), 'coqchk', '-silent', '-o', '-Q', '.', 'LV', f'LV.Props.{pid}'],
                              cwd=COQ, stdout=subprocess.PIPE, stderr=subprocess.STDOUT, text=True)
    r = _locked(go)
    return r.returncode == 0, r.stdout[-3000:]


# ----------------------------------------------------------------------------------------------
# Model runner
# ----------------------------------------------------------------------------------------------

class ModelError(Exception):
    pass


class Model:
    """One extracted-model driver process. call(fn, **fields) -> JSON result.
    oracles: name -> callable(list_of_bytes_args) -> bytes"""

    def __init__(self, pid, oracles=None):
        exe = os.path.join(BUILD, f'{pid.lower()}_driver')
        if not os.path.exists(exe):
            raise ModelError(f'{exe} missing: run setup')
        self.exe = exe
        self.oracles = oracles or {}
        self.proc = None
        self.calls = 0
        self.oracle_calls = 0
        self._start()

    def _start(self):
        self.proc = subprocess.Popen(['sh', '-c', f'ulimit -s unlimited 2>/dev/null; exec {self.exe}'],
                                     stdin=subprocess.PIPE, stdout=subprocess.PIPE, text=True, bufsize=1)

    def call(self, fn, **fields):
        if self.proc.poll() is not None:
            self._start()
        req = dict(fields)
        req['fn'] = fn
        self.calls += 1
        self.proc.stdin.write(json.dumps(req) + '\n')
        self.proc.stdin.flush()
        while True:
            line = self.proc.stdout.readline()
            if not line:
                raise ModelError(f'model process died on {fn}')
            line = line.rstrip('\n')
            if line.startswith('RESULT '):
                return json.loads(line[7:])
            if line.startswith('MODELERROR'):
                raise ModelError(line[11:])
            if line.startswith('ORACLE '):
                parts = line.split(' ')
                name = parts[1]
                args = [bytes.fromhex(p[1:]) for p in parts[2:]]
                self.oracle_calls += 1
                if name not in self.oracles:
                    self.proc.stdin.write('NOANSWER\n')
                    self.proc.stdin.flush()
                    continue
                ans = self.oracles[name](*args)
                self.proc.stdin.write('ANSWER ' + ans.hex() + '\n')
                self.proc.stdin.flush()

    def close(self):
        if self.proc and self.proc.poll() is None:
            try:
                self.proc.stdin.close()
                self.proc.wait(timeout=5)
            except Exception:
                self.proc.kill()


# ----------------------------------------------------------------------------------------------
# Run bookkeeping
# ----------------------------------------------------------------------------------------------

def canon(obj):
    return json.dumps(obj, sort_keys=True, separators=(',', ':'), default=str)


def load_known():
    out = []
    if os.path.exists(KNOWN):
        for line in open(KNOWN):
            line = line.strip()
            if line and not line.startswith('#'):
                out.append(json.loads(line))
    return out


class Run:
    def __init__(self, pid, tier, seed):
        self.pid, self.tier, self.seed = pid, tier, seed
        self.rng = random.Random(seed)
        self.t0 = time.time()
        self.evaluations = 0
        self.nontrivial_hashes = set()
        self.samples = []
        self.sample_limit = 6
        self.violations = []          # (case, what)
        self.disagreements = []       # (entry, case, impl, model)
        self.known_hits = []
        self.hist = {}
        self.traces_validated = 0
        self.disagreements_checked = 0
        self.exhaustive = False
        self.rule = ''
        self.partial = []
        self.supporting = {}
        self.extra_assumptions = []
        self.notes = []
        self.known = [k for k in load_known() if k.get('property') == pid]
        self._replay_n = 0

    # -- counting ---------------------------------------------------------------------------
    def count(self, key, n=1):
        self.hist[key] = self.hist.get(key, 0) + n

    def case(self, case, nontrivial=True, sample=None, validated=True):
        """record one explored case. `case` must be JSON-serialisable and self-contained."""
        self.evaluations += 1
        if validated:
            self.traces_validated += 1
        if nontrivial:
            self.nontrivial_hashes.add(hashlib.sha1(canon(case).encode()).hexdigest())
        if len(self.samples) < self.sample_limit and (sample is not False):
            s = canon(case)
            self.samples.append(case if len(s) < 1500 else {'truncated_case': s[:1500]})

    # -- outcomes ---------------------------------------------------------------------------
    def _known_match(self, signature):
        for k in self.known:
            if k.get('status') == 'known' and canon(k.get('signature')) == canon(signature):
                return k
        return None

    def violation(self, case, what, signature=None):
        """the property's monitor failed on the implementation for this case"""
        if signature is not None:
            k = self._known_match(signature)
            if k is not None:
                if not any(canon(h.get('signature')) == canon(signature) for h in self.known_hits):
                    self.known_hits.append(k)
                return
        if len(self.violations) < 20:
            self.violations.append((case, what))

    def disagreement(self, entry, case, impl, model):
        """model and implementation behave differently on this case (monitor did not fail)"""
        self.disagreements_checked += 1
        if len(self.disagreements) < 20:
            self.disagreements.append((entry, case, impl, model))

    def compare(self, entry, case, impl, model):
        """count a model-vs-implementation comparison; record a disagreement if they differ"""
        self.disagreements_checked += 1
        if canon(impl) != canon(model):
            if len(self.disagreements) < 20:
                self.disagreements.append((entry, case, impl, model))
            return False
        return True

    # -- output ------------------------------------------------------------------------------
    def _write_replay(self, body):
        os.makedirs(REPLAYS, exist_ok=True)
        self._replay_n += 1
        p = os.path.join(REPLAYS, f'{self.pid}-{self.seed}-{self._replay_n}.json')
        with open(p, 'w') as f:
            json.dump(body, f, indent=1, default=str)
        return p

    def finish(self, audit_problems, make_ok, make_log, props):
        lines = []
        code = 0
        for k in self.known_hits:
            lines.append(f"KNOWN-FINDING: property={self.pid} {k.get('what', '')}")
        for case, what in self.violations[:5]:
            p = self._write_replay({'property': self.pid, 'kind': 'failing-input', 'what': what, 'case': case,
                                    'seed': self.seed, 'tier': self.tier})
            lines.append(f'VIOLATION property={self.pid} replay={p}')
            code = 1
        if not self.violations:
            unchecked = []
            if audit_problems:
                unchecked.append({'audit': audit_problems})
            if not make_ok:
                unchecked.append({'build': make_log[-1500:]})
            if not props.get('ok'):
                bad = [t['name'] for t in props.get('theorems', []) if not t['ok']] or ['<Props file did not compile>']
                unchecked.append({'theorems': bad, 'log': props.get('log', '')[-1500:]})
            for entry, case, impl, model in self.disagreements[:5]:
                unchecked.append({'correspondence': entry, 'case': case, 'implementation': impl, 'model': model})
            if unchecked:
                p = self._write_replay({'property': self.pid, 'kind': 'no-failing-input-found',
                                        'unchecked': unchecked, 'seed': self.seed, 'tier': self.tier,
                                        'note': 'a proof obligation or the model/implementation correspondence no '
                                                'longer checks; the search over generated inputs found no input on '
                                                'which the property itself fails'})
                lines.append(f'VIOLATION property={self.pid} replay={p} no-failing-input-found')
                code = 1
        theorems = props.get('theorems', [])
        cov = {
            'obligations': len(theorems),
            'discharged': sum(1 for t in theorems if t['ok']),
            'checker_cmd': 'make -f Makefile.coq (full .vo build of /verif/coq) && ' + props.get('cmd', ''),
            'trusted_base': TRUSTED_BASE,
            'theorems': theorems,
            'static_audit': 'clean' if not audit_problems else audit_problems,
            'evaluations': self.evaluations,
            'distinct_nontrivial': len(self.nontrivial_hashes),
            'rule': self.rule,
            'samples': self.samples + [{'theorem': t['name'], 'assumptions': t['assumptions']} for t in theorems[:3]],
            'traces_validated_against_impl': self.traces_validated,
            'disagreements_checked': self.disagreements_checked,
            'disagreements_found': len(self.disagreements),
            'histogram': self.hist,
            'exhaustive': bool(self.exhaustive),
            'exhaustive_scope': (self.exhaustive if isinstance(self.exhaustive, (str, list, dict)) else ''),
            'partial': self.partial,
            'supporting_only': self.supporting,
            'known_findings_hit': [k.get('what') for k in self.known_hits],
            'notes': self.notes,
        }
        ev = {
            'property_id': self.pid, 'tier': self.tier, 'seed': self.seed, 'level': 'proof', 'coverage': cov,
            'assumptions': ['the model corresponds to the code only as far as the correspondence run of this '
                            'evidence file exercised it'] + self.extra_assumptions,
            'wall_s': round(time.time() - self.t0, 2),
            'violations': len(self.violations) + (1 if code and not self.violations else 0),
        }
        os.makedirs(EVIDENCE, exist_ok=True)
        with open(os.path.join(EVIDENCE, f'{self.pid}.json'), 'w') as f:
            json.dump(ev, f, indent=1, default=str)
        for ln in lines:
            print(ln)
        print(f'[{self.pid}] tier={self.tier} seed={self.seed} obligations={cov["obligations"]} '
              f'discharged={cov["discharged"]} evaluations={self.evaluations} '
              f'distinct_nontrivial={cov["distinct_nontrivial"]} compared={self.disagreements_checked} '
              f'disagreements={len(self.disagreements)} violations={len(self.violations)} '
              f'wall={ev["wall_s"]}s exit={code}')
        sys.stdout.flush()
        return code


def scaled(tier, quick, thorough):
    return thorough if tier == 'thorough' else quick
